'''pyvc -- verification-condition generator for the real functions of /repo.

See DESIGN.md section 2.  The modules:

  extract   locate functions in the working tree, hash them, list what is dropped
  theory    sorts and theories (Num = extended reals, enums, sequences, sets, maps)
  engine    symbolic executor over the Python AST (paths by decision replay)
  libspec   assumed contracts of builtins / numpy / scipy / stdlib, executable on symbolic values
  solve     solver portfolio, SMT-LIB dumps, verdict protocol
  report    evidence files, known findings, VIOLATION lines
  cli       ./bin/check entry point
'''
