'''./bin/check <id> [--tier quick|thorough] [--replay <file>]

exit 0  the property held on everything explored (known findings are printed, not alarms)
exit 1  VIOLATION property=<id> replay=<path>  (one line per failed obligation / bounded failure)
exit 3  CHECKER-ERROR (zero obligations, vacuous contract, solver disagreement, crash)
'''
import argparse
import importlib
import json
import multiprocessing as mp
import os
import sys
import time
import traceback

VERIF = os.path.dirname(os.path.dirname(os.path.abspath(__file__)))
sys.path.insert(0, VERIF)
# native replays import valjean from the tree under verification ($REPO), not from site-packages
sys.path.insert(0, os.environ.get('REPO', '/repo'))


def _run_unit(args):
    modname, unit, tier, seed, known = args
    t0 = time.time()
    try:
        mod = importlib.import_module(modname)
        out = mod.run_unit(unit, tier, seed, known)
        out.setdefault('unit', unit)
        out['wall_s'] = round(time.time() - t0, 3)
        return out
    except Exception:     # noqa
        return {'unit': unit, 'crash': traceback.format_exc(limit=12), 'wall_s': round(time.time() - t0, 3)}


def load_known(pid):
    path = os.path.join(VERIF, 'known_findings.json')
    if not os.path.exists(path):
        return []
    with open(path) as f:
        data = json.load(f)
    return [k for k in data.get('findings', []) if k.get('property') == pid]


def main():
    ap = argparse.ArgumentParser()
    ap.add_argument('pid')
    ap.add_argument('--tier', default=os.environ.get('VERIF_TIER', 'quick'))
    ap.add_argument('--replay')
    ap.add_argument('--jobs', type=int, default=int(os.environ.get('PYVC_JOBS', '16')))
    ap.add_argument('--unit')
    a = ap.parse_args()
    pid = a.pid
    tier = a.tier if a.tier in ('quick', 'thorough') else 'quick'
    seed = int(os.environ.get('VERIF_SEED', '0') or 0)
    modname = f'contracts.{pid}'
    try:
        mod = importlib.import_module(modname)
    except Exception:   # noqa
        print(f'CHECKER-ERROR cannot import {modname}\n{traceback.format_exc(limit=6)}')
        return 3
    if a.replay:
        with open(a.replay) as f:
            rp = json.load(f)
        out = mod.replay(rp.get('obligation', ''), rp.get('input'))
        print(json.dumps(out, indent=1, default=repr))
        return 1 if out.get('reproduced') else 0

    t0 = time.time()
    known = load_known(pid)
    units = mod.units(tier)
    if a.unit:
        units = [u for u in units if u == a.unit]
    import subprocess
    import tempfile
    from concurrent.futures import ThreadPoolExecutor
    unit_timeout = int(os.environ.get('PYVC_UNIT_TIMEOUT_S', '600' if tier == 'quick' else '7200'))
    tmpdir = tempfile.mkdtemp(prefix='pyvc_units_', dir='/var/tmp')
    known_path = os.path.join(tmpdir, 'known.json')
    with open(known_path, 'w') as f:
        json.dump(known, f)

    def run_one(u, budget_factor=1):
        # one fresh interpreter per unit: reproducible solver verdicts, and a crashing / hanging unit cannot take the check down
        out_path = os.path.join(tmpdir, f'{abs(hash(u))}_{budget_factor}.json')
        t1 = time.time()
        env = dict(os.environ)
        if budget_factor != 1:
            env['PYVC_TIMEOUT_MS'] = str(int(os.environ.get('PYVC_TIMEOUT_MS', '20000')) * budget_factor)
        try:
            p = subprocess.run([sys.executable, '-W', 'ignore', '-m', 'pyvc.unitrun', modname, u, tier, str(seed), known_path, out_path],
                               cwd=VERIF, capture_output=True, text=True, timeout=unit_timeout, env=env)
        except subprocess.TimeoutExpired:
            return {'unit': u, 'undecided_unit': f'unit timed out after {unit_timeout}s', 'wall_s': round(time.time() - t1, 1)}
        if os.path.exists(out_path):
            with open(out_path) as f:
                return json.load(f)
        return {'unit': u, 'undecided_unit': f'unit process died (exit {p.returncode}): {p.stderr[-400:]}', 'wall_s': round(time.time() - t1, 1)}
    if a.jobs <= 1 or len(units) <= 1:
        results = [run_one(u) for u in units]
    else:
        with ThreadPoolExecutor(max_workers=min(a.jobs, len(units))) as ex:
            results = list(ex.map(run_one, units))
    # second chance: a unit that left something undecided (solver time-outs under load) is run once more, alone, with three times the solver budget;
    # the second answer replaces the first one only if it leaves less undecided (verdicts never flip: unsat stays unsat, a model stays a model)
    def n_undecided(r):
        if 'undecided_unit' in r:
            return 10 ** 6
        n = sum(1 for fu in r.get('functions', []) for o in fu.get('obligations', []) if o.get('status') == 'undecided')
        n += sum(1 for fu in r.get('functions', []) if fu.get('undecided'))
        n += sum(1 for o in r.get('lemmas', []) if o.get('status') == 'undecided')
        return n
    for k, (u, r) in enumerate(zip(units, results)):
        if 'crash' not in r and n_undecided(r) > 0 and not r.get('bounded') and 'timed out' not in str(r.get('undecided_unit', '')):
            r2 = run_one(u, budget_factor=3)
            if 'crash' not in r2 and n_undecided(r2) < n_undecided(r):
                r2['second_chance'] = True
                results[k] = r2
    import shutil
    shutil.rmtree(tmpdir, ignore_errors=True)

    from pyvc import report
    return report.finish(pid, tier, seed, mod, results, known, time.time() - t0)


if __name__ == '__main__':
    try:
        rc = main()
    except SystemExit:
        raise
    except Exception:     # noqa
        print('CHECKER-ERROR ' + traceback.format_exc(limit=8))
        rc = 3
    sys.exit(rc)
