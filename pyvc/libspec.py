'''Assumed contracts of everything outside the repository, executable on symbolic values
(DESIGN.md section 2.4).  Each entry here is an *assumption* about CPython / numpy / scipy /
the standard library; the names used by a run are listed in its evidence file.
'''
import ast
import z3

from . import theory as th
from .values import (SV, SObj, SClass, SFunc, SPartial, SBound, SNamespace, SPyExc, T, INT, BOOL, NUM, STR,
                     Undecided, parse_type, zsort, fresh, lift, coerce, opt_is_none, opt_get,
                     seq_len, seq_arr, seq_mk, seq_eq, map_dom, map_val, map_mk, map_eq, elem_eq, set_empty)
from .engine import (GenExp, PathEnd, PyRaise, _Break, _Continue, _Return, _b, _parse, Scope, exc_is_subclass)


class SArr:
    '''numpy array or numpy scalar: element function over a flat index (closure), size, buffer
    identity.  Pointwise operations compose closures; reductions quantify over the index.'''
    def __init__(self, elem, n, dtype, buf, scalar=False, shape=None, owner=None):
        self.elem = elem          # index term -> z3 term (Num / Bool / Int)
        self.n = n                # z3 Int: number of elements
        self.dtype = dtype        # 'num' | 'bool' | 'int'
        self.buf = buf            # buffer identity (python int); views share it
        self.scalar = scalar      # np.generic (0-d)
        self.shape = shape        # opaque shape token (z3 term) shared by same-shaped arrays
        self.owner = owner

    def __repr__(self):
        return f'<arr {self.dtype} buf={self.buf}{" scalar" if self.scalar else ""}>'


class Lib:
    def __init__(self, world):
        self.world = world
        self.used = set()
        self.next_buf = 1000

    def use(self, name):
        self.used.add(name)

    # ------------------------------------------------------------------ literals
    def make_list(self, I, items):
        return list(items)

    def make_set(self, I, items):
        return set(items)

    def make_dict(self, I, keys, vals):
        return dict(zip(keys, vals))

    def fstring(self, I, node, scope):
        parts = []
        for v in node.values:
            if isinstance(v, ast.Constant):
                parts.append(v.value)
            else:
                val = I.eval(v.value, scope)
                parts.append(val)
        if all(isinstance(p, str) for p in parts):
            return ''.join(parts)
        terms = []
        for p in parts:
            if isinstance(p, str):
                terms.append(z3.StringVal(p))
            elif isinstance(p, SV) and p.typ.kind == 'Str':
                terms.append(p.t)
            else:
                # str(x) of a non-string: uninterpreted (assumption: formatting is a function of the value)
                self.use('str.format:uninterpreted')
                terms.append(z3.String(I.path.name('fmt')))
        return SV(STR, z3.Concat(*terms) if len(terms) > 1 else terms[0])

    # ------------------------------------------------------------------ builtins
    def builtin(self, I, name):
        return getattr(self, 'b_' + name, None)

    def b_len(self, I, x):
        if isinstance(x, (list, tuple, dict, set, str)):
            return len(x)
        if isinstance(x, SV):
            if x.typ.kind == 'Seq':
                return SV(INT, seq_len(x))
            if x.typ.kind == 'Str':
                return SV(INT, z3.Length(x.t))
            if x.typ.kind == 'Set':
                f = th.func('card_' + str(x.typ.args[0]), zsort(x.typ), z3.IntSort())
                self.use('card:uninterpreted(>=0, =0 iff empty)')
                c = f(x.t)
                I.path.assume(c >= 0)
                I.path.assume((c == 0) == (x.t == z3.K(zsort(x.typ.args[0]), z3.BoolVal(False))))
                return SV(INT, c)
        if isinstance(x, SArr):
            return SV(INT, x.n)
        if isinstance(x, SObj):
            return I.call_method(x, '__len__', [], {})
        raise Undecided(f'len of {x!r}')

    def b_isinstance(self, I, x, cls):
        return self.world.isinstance_(I, x, cls)

    def b_partial(self, I, func, *args, **kwargs):
        return SPartial(func, args, kwargs)

    def b_bool(self, I, x=False):
        t = I.truth(x)
        return t if isinstance(t, bool) else SV(BOOL, t)

    def b_int(self, I, x=0):
        if isinstance(x, (int, bool)):
            return int(x)
        if isinstance(x, SV) and x.typ.kind in ('Int', 'Bool'):
            return coerce(x, INT)
        if isinstance(x, SV) and x.typ.kind == 'Str':
            # int(str): ValueError unless the string spells an integer (uninterpreted predicate: nothing is known about which strings do)
            self.use('int(str): raises ValueError unless the string spells an integer (uninterpreted predicate and value)')
            ok = th.func('str_spells_int', z3.StringSort(), z3.BoolSort())(x.t)
            I.require(ok, 'ValueError', 'int() of a string that is not a number')
            return SV(INT, th.func('str_to_int', z3.StringSort(), z3.IntSort())(x.t))
        raise Undecided('int() of a symbolic non-integer')

    def b_abs(self, I, x):
        if isinstance(x, (int, float)):
            return abs(x)
        if isinstance(x, SV) and x.typ.kind == 'Int':
            return SV(INT, z3.If(x.t >= 0, x.t, -x.t))
        if isinstance(x, SV) and x.typ.kind == 'Num':
            return SV(NUM, th.num_abs(x.t))
        raise Undecided('abs')

    def b_min(self, I, *args, **kw):
        return self._minmax(I, args, kw, False)

    def b_max(self, I, *args, **kw):
        return self._minmax(I, args, kw, True)

    def _minmax(self, I, args, kw, is_max):
        if len(args) >= 2:
            cur = args[0]
            for x in args[1:]:
                c = I.truth(I.compare(ast.Gt() if is_max else ast.Lt(), x, cur))
                if isinstance(c, bool):
                    cur = x if c else cur
                else:
                    cur = I.merge(c, x, cur)
            return cur
        (xs,) = args
        if isinstance(xs, (list, tuple)):
            if not xs:
                if 'default' in kw:
                    return kw['default']
                I.raise_('ValueError')
            return self._minmax(I, tuple(xs), {}, is_max) if len(xs) > 1 else xs[0]
        if isinstance(xs, SV) and xs.typ.kind == 'Seq':
            et = xs.typ.args[0]
            n = seq_len(xs)
            has_default = 'default' in kw
            if not has_default:
                I.require(n > 0, 'ValueError', 'max of empty')
            r = I.fresh(et, 'max' if is_max else 'min')
            j = z3.Int(I.path.name('j'))
            i = z3.Int('i!mm')
            arr = seq_arr(xs)
            le = (lambda a, b: th.num_le(a, b)) if et.kind == 'Num' else (lambda a, b: a <= b)
            fact = z3.Implies(n > 0, z3.And(0 <= j, j < n, r.t == arr[j],
                              z3.ForAll([i], z3.Implies(z3.And(0 <= i, i < n),
                                                        le(arr[i], r.t) if is_max else le(r.t, arr[i])))))
            self.use('max/min: an element that bounds all others (NaN-free sequences)')
            I.path.assume(fact)
            if has_default:
                return I.merge(n > 0, r, kw['default'])
            return r
        raise Undecided('min/max')

    def b_range(self, I, *args):
        def conc(a):
            if isinstance(a, SV) and a.typ.kind == 'Int':
                v = z3.simplify(a.t)
                if z3.is_int_value(v):
                    return v.as_long()
            return a
        args = tuple(conc(a) for a in args)
        if all(isinstance(a, int) for a in args):
            return list(range(*args))
        a = [x if isinstance(x, SV) else lift(x) for x in args]
        if len(a) == 1:
            return SRange(z3.IntVal(0), a[0].t)
        if len(a) == 2:
            return SRange(a[0].t, a[1].t)
        raise Undecided('range with symbolic step')

    def _spent(self, I, gen):
        '''a generator expression bound to a name yields its elements ONCE: the second consumer finds it empty (specifications do not consume)'''
        if getattr(gen, 'consumed', False):
            self.use('a generator expression consumed a second time is empty')
            return True
        if not I.in_spec:
            gen.consumed = True
        return False

    def b_enumerate(self, I, xs, start=0):
        if isinstance(xs, dict):
            xs = list(xs.keys())
        if isinstance(xs, (list, tuple)):
            return [(i + start, x) for i, x in enumerate(xs)]
        return SEnumerate(xs, start)

    def b_zip(self, I, *xs):
        xs = tuple(list(x.keys()) if isinstance(x, dict) else x for x in xs)
        if all(isinstance(x, (list, tuple)) for x in xs):
            return list(zip(*xs))
        return SZip(xs)

    def b_any(self, I, gen):
        return self._quant(I, gen, False)

    def b_all(self, I, gen):
        return self._quant(I, gen, True)

    def _quant(self, I, gen, universal):
        if isinstance(gen, (list, tuple)):
            terms = [I.truth(x) for x in gen]
            if all(isinstance(t, bool) for t in terms):
                return all(terms) if universal else any(terms)
            ts = [_b(t) for t in terms]
            return SV(BOOL, z3.And(*ts) if universal else z3.Or(*ts))
        if isinstance(gen, SArr):
            return self.arr_reduce_bool(I, gen, universal)
        if not isinstance(gen, GenExp):
            if isinstance(gen, SV) and gen.typ.kind == 'Seq' and gen.typ.args[0].kind == 'Bool':
                i = z3.Int(I.path.name('i'))
                rng = z3.And(0 <= i, i < seq_len(gen))
                body = seq_arr(gen)[i]
                return SV(BOOL, z3.ForAll([i], z3.Implies(rng, body)) if universal
                          else z3.Exists([i], z3.And(rng, body)))
            raise Undecided('any/all of a non-generator')
        if self._spent(I, gen):
            return universal
        node = gen.node
        bound, dom, scope = self.bind_generators(I, node.generators, gen.scope)
        if bound is None:      # concrete expansion
            terms = []
            for sc in scope:
                terms.append(I.truth(I.eval(node.elt, sc)))
            if all(isinstance(t, bool) for t in terms):
                return all(terms) if universal else any(terms)
            ts = [_b(t) for t in terms]
            return SV(BOOL, z3.And(*ts) if universal else z3.Or(*ts))
        I.path.nofork += 1
        I.path.guards.append(dom)
        try:
            body = _b(I.truth(I.eval(node.elt, scope)))
        finally:
            I.path.guards.pop()
            I.path.nofork -= 1
        if universal:
            return SV(BOOL, z3.ForAll(bound, z3.Implies(dom, body)))
        return SV(BOOL, z3.Exists(bound, z3.And(dom, body)))

    def bind_generators(self, I, generators, scope):
        '''Bind comprehension variables.  Symbolic iterables give (bound vars, domain, scope);
        concrete ones give (None, None, [scopes])'''
        bound, doms = [], []
        sc = Scope(scope, bound=True)
        concrete_scopes = None
        for g in generators:
            if g.is_async:
                raise Undecided('async comprehension')
            if concrete_scopes is not None and not bound:
                # an inner generator after concrete outer ones: its iterable may depend on the outer variables -- one evaluation per outer instance
                its = [I.eval(g.iter, base) for base in concrete_scopes]
                if all(isinstance(x, (list, tuple, set, frozenset, dict)) for x in its):
                    scopes = []
                    for base, it in zip(concrete_scopes, its):
                        for x in it:
                            s2 = Scope(base, bound=True)
                            I.assign(g.target, x, s2)
                            ok = True
                            for cond in g.ifs:
                                t = I.truth(I.eval(cond, s2))
                                if isinstance(t, bool):
                                    ok = ok and t
                                elif not I.path.nofork:
                                    ok = ok and I.path.cond(t)
                                else:
                                    raise Undecided('symbolic filter over a concrete iterable')
                            if ok:
                                scopes.append(s2)
                    concrete_scopes = scopes
                    continue
                if not concrete_scopes:
                    return None, None, []
                raise Undecided('mixed concrete/symbolic comprehension')
            it = I.eval(g.iter, sc)
            if isinstance(it, SNamespace) and it.members and all(isinstance(m, SV) and m.typ.kind == 'Enum' for m in it.members.values()):
                it = list(it.members.values())      # iteration over an Enum class: its members in definition order
            if isinstance(it, (list, tuple, set, frozenset, dict)) and not bound:
                scopes = []
                bases = concrete_scopes if concrete_scopes is not None else [sc]
                for base in bases:
                    for x in it:
                        s2 = Scope(base, bound=True)
                        I.assign(g.target, x, s2)
                        ok = True
                        for cond in g.ifs:
                            t = I.truth(I.eval(cond, s2))
                            if isinstance(t, bool):
                                ok = ok and t
                            elif not I.path.nofork:
                                ok = ok and I.path.cond(t)       # code mode: the filter is decided element by element (forks)
                            else:
                                raise Undecided('symbolic filter over a concrete iterable')
                        if ok:
                            scopes.append(s2)
                concrete_scopes = scopes
                continue
            if concrete_scopes is not None:
                if not concrete_scopes:
                    return None, None, []       # an outer concrete iterable is empty: no instance at all
                raise Undecided('mixed concrete/symbolic comprehension')
            var, dom = self.iter_domain(I, it, g.target, sc)
            bound.extend(var)
            doms.append(dom)
            I.path.nofork += 1
            I.path.guards.append(dom)
            try:
                for cond in g.ifs:
                    doms.append(_b(I.truth(I.eval(cond, sc))))
            finally:
                I.path.guards.pop()
                I.path.nofork -= 1
        if concrete_scopes is not None:
            return None, None, concrete_scopes
        return bound, z3.And(*doms) if len(doms) != 1 else doms[0], sc

    def iter_domain(self, I, it, target, sc):
        '''bind target to a generic element of the iterable; return ([bound consts], domain)'''
        if isinstance(it, SV) and it.typ.kind == 'Set':
            x = I.fresh(it.typ.args[0], _tname(target))
            I.assign(target, x, sc)
            return [x.t], it.t[x.t]
        if isinstance(it, SV) and it.typ.kind == 'Seq':
            i = z3.Int(I.path.name('i'))
            x = SV(it.typ.args[0], seq_arr(it)[i])
            I.assign(target, x, sc)
            return [i], z3.And(0 <= i, i < seq_len(it))
        if isinstance(it, SV) and it.typ.kind == 'Map':
            k = I.fresh(it.typ.args[0], _tname(target))
            I.assign(target, k, sc)
            return [k.t], map_dom(it)[k.t]
        if isinstance(it, SMapItems):
            k = I.fresh(it.m.typ.args[0], 'k')
            v = SV(it.m.typ.args[1], map_val(it.m)[k.t])
            val = {'items': (k, v), 'keys': k, 'values': v}[it.which]
            I.assign(target, val, sc)
            return [k.t], map_dom(it.m)[k.t]
        if isinstance(it, SRange):
            i = z3.Int(I.path.name('i'))
            I.assign(target, SV(INT, i), sc)
            return [i], z3.And(it.lo <= i, i < it.hi)
        if isinstance(it, SArr):
            i = z3.Int(I.path.name('i'))
            I.assign(target, self.arr_item(I, it, i), sc)
            return [i], z3.And(0 <= i, i < it.n)
        if isinstance(it, SChain):
            # itertools.chain(a, b, ...): an element of one of the parts (order irrelevant for the consumers supported: set / any / all)
            x = None
            doms, vars_ = [], []
            first = True
            for part in it.parts:
                sc2 = Scope(sc)
                var, dom = self.iter_domain(I, part, target, sc2)
                val = sc2.lookup(_tname(target)) if isinstance(target, ast.Name) else None
                if val is None:
                    raise Undecided('chain with a structured target')
                if first:
                    x = I.fresh(val.typ, _tname(target))
                    first = False
                doms.append(z3.Exists(var, z3.And(dom, val.t == x.t)))
            I.assign(target, x, sc)
            return [x.t], z3.Or(*doms)
        if isinstance(it, SEnumerate):
            inner_t = target.elts[1]
            idx_t = target.elts[0]
            var, dom = self.iter_domain(I, it.xs, inner_t, sc)
            if len(var) == 1 and var[0].sort() == z3.IntSort():
                I.assign(idx_t, SV(INT, var[0] + it.start), sc)
                return var, dom
            raise Undecided('enumerate over an unordered iterable')
        if isinstance(it, SZip):
            i = z3.Int(I.path.name('i'))
            doms = []
            for part, t in zip(it.xs, target.elts):
                if isinstance(part, SV) and part.typ.kind == 'Seq':
                    I.assign(t, SV(part.typ.args[0], seq_arr(part)[i]), sc)
                    doms.append(i < seq_len(part))
                elif isinstance(part, SArr):
                    I.assign(t, self.arr_item(I, part, i), sc)
                    doms.append(i < part.n)
                else:
                    raise Undecided('zip of a non-sequence')
            return [i], z3.And(0 <= i, *doms)
        raise Undecided(f'iteration over {it!r}')

    def b_dict(self, I, xs=None, **kw):
        if xs is None:
            return dict(kw)
        if isinstance(xs, dict):
            return dict(xs)
        if isinstance(xs, (list, tuple)):
            return {k: v for k, v in xs}
        raise Undecided('dict() of symbolic')

    def b_set(self, I, xs=None):
        if xs is None:
            return set()
        if isinstance(xs, (list, tuple, set)):
            return set(xs)
        if isinstance(xs, SV) and xs.typ.kind == 'Set':
            return xs
        if isinstance(xs, GenExp):
            if self._spent(I, xs):
                return set()
            return self.comprehension(I, xs.node, xs.scope, 'set')
        if isinstance(xs, SMapped):
            return self.image(I, xs.f, xs.xs, 'set')
        if isinstance(xs, SRange):
            x = z3.Int('x!rng')
            return SV(T('Set', INT), z3.Lambda([x], z3.And(xs.lo <= x, x < xs.hi)))
        if isinstance(xs, SV) and xs.typ.kind == 'Map':
            return SV(T('Set', xs.typ.args[0]), map_dom(xs))
        if isinstance(xs, SV) and xs.typ.kind == 'Seq':
            x = z3.Const('x!set', zsort(xs.typ.args[0]))
            i = z3.Int('i!set')
            st = I.fresh(T('Set', xs.typ.args[0]), 'setof')
            I.path.assume(z3.ForAll([x], st.t[x] == z3.Exists([i], z3.And(0 <= i, i < seq_len(xs), seq_arr(xs)[i] == x))))
            return st
        raise Undecided(f'set() of {xs!r}')

    def b_list(self, I, xs=None):
        if xs is None:
            return []
        if isinstance(xs, (list, tuple)):
            return list(xs)
        if isinstance(xs, SV) and xs.typ.kind == 'Seq':
            return xs
        if isinstance(xs, GenExp):
            if self._spent(I, xs):
                return []
            return self.comprehension(I, xs.node, xs.scope, 'list')
        if isinstance(xs, SV) and xs.typ.kind in ('Set', 'Map'):
            # every element exactly once, in an order the contract cannot rely on
            et = xs.typ.args[0]
            dom_arr = xs.t if xs.typ.kind == 'Set' else map_dom(xs)
            out = I.fresh(T('Seq', et), 'listed')
            k = z3.Const(I.path.name('k'), zsort(et))
            pos = z3.Function(I.path.name('pos'), zsort(et), z3.IntSort())
            j = z3.Int(I.path.name('j'))
            n = seq_len(out)
            I.path.assume(z3.ForAll([k], z3.Implies(dom_arr[k], z3.And(0 <= pos(k), pos(k) < n, seq_arr(out)[pos(k)] == k))))
            I.path.assume(z3.ForAll([j], z3.Implies(z3.And(0 <= j, j < n), z3.And(dom_arr[seq_arr(out)[j]], pos(seq_arr(out)[j]) == j))))
            self.use('list(set): each element exactly once, order unspecified')
            return out
        raise Undecided(f'list() of {xs!r}')

    def b_tuple(self, I, xs=()):
        if isinstance(xs, (list, tuple)):
            return tuple(xs)
        if isinstance(xs, GenExp):
            if self._spent(I, xs):
                return ()
            items = self.comprehension(I, xs.node, xs.scope, 'list')
            if isinstance(items, list):
                return tuple(items)
        raise Undecided('tuple() of symbolic')

    def b_chain(self, I, *parts):
        return SChain(parts)

    def b_map(self, I, f, xs):
        return SMapped(f, xs)

    def b_filter(self, I, f, xs):
        return SFiltered(f, xs)

    def b_id(self, I, x):
        if isinstance(x, SV) and x.typ.kind == 'Ref':
            f = th.func('id_' + x.typ.args[0], zsort(x.typ), z3.IntSort())
            return SV(INT, f(x.t))
        raise Undecided('id()')

    def b_str(self, I, x=''):
        if isinstance(x, str):
            return x
        if isinstance(x, SV) and x.typ.kind == 'Str':
            return x
        if isinstance(x, (int,)) and not isinstance(x, bool):
            return str(x)
        self.use('str():uninterpreted')
        if isinstance(x, SV):
            f = th.func('str_' + ''.join(c for c in str(x.typ) if c.isalnum()), zsort(x.typ), z3.StringSort())
            return SV(STR, f(x.t))
        raise Undecided('str() of object')

    def b_next(self, I, gen, *default):
        raise Undecided('next()')

    def b_sorted(self, I, xs, **kw):
        if isinstance(xs, (list, tuple)) and all(isinstance(x, (int, str)) for x in xs) and not kw:
            return sorted(xs)
        if isinstance(xs, SV) and xs.typ.kind == 'Set' and xs.typ.args[0].kind == 'Int' and not kw:
            out = I.fresh(T('Seq', INT), 'sorted')
            j, j2, x = z3.Int(I.path.name('j')), z3.Int(I.path.name('j2')), z3.Int(I.path.name('x'))
            rank = z3.Function(I.path.name('rank'), z3.IntSort(), z3.IntSort())
            n = seq_len(out)
            I.path.assume(z3.ForAll([j], z3.Implies(z3.And(0 <= j, j < n), xs.t[seq_arr(out)[j]])))
            I.path.assume(z3.ForAll([j, j2], z3.Implies(z3.And(0 <= j, j < j2, j2 < n), seq_arr(out)[j] < seq_arr(out)[j2])))
            I.path.assume(z3.ForAll([x], z3.Implies(xs.t[x], z3.And(0 <= rank(x), rank(x) < n, seq_arr(out)[rank(x)] == x))))
            self.use('sorted(set of int): strictly increasing sequence with the same members (finite sets)')
            return out
        raise Undecided('sorted() of symbolic')

    def b_sum(self, I, xs, start=0):
        if isinstance(xs, (list, tuple)):
            acc = start
            for x in xs:
                acc = I.binop(ast.Add(), acc, x)
            return acc
        raise Undecided('sum of symbolic')

    def b_type(self, I, x):
        if isinstance(x, SObj):
            return SClass(x.cls)
        raise Undecided('type()')

    def b_callable(self, I, x):
        return isinstance(x, (SFunc, SPartial, SBound, SClass))

    def b_float(self, I, x=0.0):
        if isinstance(x, SObj) and x.cls == 'Chrono':
            t = I.fresh(NUM, 'elapsed')
            I.path.assume(th.is_fin(t.t))
            return t
        if isinstance(x, (int, float)):
            return float(x)
        if isinstance(x, SV) and x.typ.kind in ('Int', 'Num', 'Bool'):
            return coerce(x, NUM)
        raise Undecided('float()')

    def b_slice(self, I, *args):
        if len(args) == 1:
            lo, hi, st = None, args[0], None
        elif len(args) == 2:
            lo, hi, st = args[0], args[1], None
        else:
            lo, hi, st = args
        return I.alloc('slice', {'start': lo, 'stop': hi, 'step': st})

    # ------------------------------------------------------------------ comprehensions
    def comprehension(self, I, node, scope, kind):
        bound, dom, sc = self.bind_generators(I, node.generators, scope)
        if bound is None:
            if kind == 'list':
                return [I.eval(node.elt, s) for s in sc]
            if kind == 'set':
                return set(I.eval(node.elt, s) for s in sc)
            return {I.eval(node.key, s): I.eval(node.value, s) for s in sc}
        if kind == 'set':
            I.path.nofork += 1
            I.path.guards.append(dom)
            try:
                e = I.eval(node.elt, sc)
            finally:
                I.path.guards.pop()
                I.path.nofork -= 1
            e = e if isinstance(e, SV) else lift(e)
            st = I.fresh(T('Set', e.typ), 'setcomp')
            y = z3.Const(I.path.name('y'), zsort(e.typ))
            I.path.assume(z3.ForAll([y], st.t[y] == z3.Exists(bound, z3.And(dom, e.t == y))))
            return st
        if kind == 'list' and len(node.generators) == 1:
            return self.list_comp(I, node, scope)
        raise Undecided(f'{kind} comprehension over a symbolic iterable')

    def list_comp(self, I, node, scope):
        g = node.generators[0]
        it = I.eval(g.iter, scope)
        if isinstance(it, SFiltered):
            raise Undecided('list comprehension over filter()')
        sc = Scope(scope)
        var, dom = self.iter_domain(I, it, g.target, sc)
        if len(var) != 1 or var[0].sort() != z3.IntSort():
            # comprehension over a set / the items of a dict: every element exactly once, in an order the contract cannot rely on
            if len(var) != 1:
                raise Undecided('list comprehension over an unordered iterable with a structured key')
            k = var[0]
            I.path.nofork += 1
            I.path.guards.append(dom)
            try:
                # a filter selects a subset: the same "each selected element exactly once, order unspecified" encoding over dom and the filter
                conds = [_b(I.truth(I.eval(c, sc))) for c in g.ifs]
                if conds:
                    dom = z3.And(dom, *conds)
                    I.path.guards[-1] = dom
                e = I.eval(node.elt, sc)
            finally:
                I.path.guards.pop()
                I.path.nofork -= 1
            e = self.pack(I, e)
            out = I.fresh(T('Seq', e.typ), 'comp')
            pos = z3.Function(I.path.name('pos'), k.sort(), z3.IntSort())
            key_at = z3.Function(I.path.name('key_at'), z3.IntSort(), k.sort())
            j = z3.Int(I.path.name('j'))
            n = seq_len(out)
            I.path.assume(z3.ForAll([k], z3.Implies(dom, z3.And(0 <= pos(k), pos(k) < n, seq_arr(out)[pos(k)] == e.t, key_at(pos(k)) == k))))
            I.path.assume(z3.ForAll([j], z3.Implies(z3.And(0 <= j, j < n), z3.And(z3.substitute(dom, (k, key_at(j))), pos(key_at(j)) == j))))
            self.use('list comprehension over a set / dict: each element exactly once, order unspecified')
            return out
        i = var[0]
        I.path.nofork += 1
        I.path.guards.append(dom)
        try:
            conds = [_b(I.truth(I.eval(c, sc))) for c in g.ifs]
            e = I.eval(node.elt, sc)
        finally:
            I.path.guards.pop()
            I.path.nofork -= 1
        e = e if isinstance(e, SV) else lift(e)
        out = I.fresh(T('Seq', e.typ), 'comp')
        n_in = z3.Int(I.path.name('n_in'))
        I.path.assume(z3.ForAll([i], z3.Implies(dom, i < n_in)))
        if not conds:
            # pointwise, same length.  length = number of i in dom: dom is 0 <= i < n
            ln = self.iter_len(I, it)
            I.path.assume(seq_len(out) == ln)
            I.path.assume(z3.ForAll([i], z3.Implies(dom, seq_arr(out)[i] == e.t)))
            return out
        # filtered: out[j] = e(src[p(j)]) for a strictly increasing p that enumerates exactly the positions satisfying the filter
        cond = z3.And(*conds) if len(conds) > 1 else conds[0]
        pf = z3.Function(I.path.name('pick'), z3.IntSort(), z3.IntSort())
        j, j2 = z3.Int(I.path.name('j')), z3.Int(I.path.name('j2'))
        ln = self.iter_len(I, it)
        lo = it.lo if isinstance(it, SRange) else z3.IntVal(0)
        sub = lambda t, by: z3.substitute(t, (i, by))      # noqa
        n_out = seq_len(out)
        I.path.assume(z3.And(0 <= n_out, n_out <= ln))
        I.path.assume(z3.ForAll([j], z3.Implies(z3.And(0 <= j, j < n_out),
                                                z3.And(sub(dom, pf(j)), sub(cond, pf(j)), seq_arr(out)[j] == sub(e.t, pf(j))))))
        I.path.assume(z3.ForAll([j, j2], z3.Implies(z3.And(0 <= j, j < j2, j2 < n_out), pf(j) < pf(j2))))
        inv = z3.Function(I.path.name('unpick'), z3.IntSort(), z3.IntSort())
        I.path.assume(z3.ForAll([i], z3.Implies(z3.And(dom, cond), z3.And(0 <= inv(i), inv(i) < n_out, pf(inv(i)) == i))))
        self.use('list comprehension with a filter: order-preserving enumeration of the selected positions')
        return out

    def pack(self, I, e):
        '''element of a symbolic sequence: Python tuples of terms become Tuple terms'''
        if isinstance(e, SV):
            return e
        if isinstance(e, tuple):
            parts = [self.pack(I, x) for x in e]
            typ = T('Tuple', *[p.typ for p in parts])
            return SV(typ, zsort(typ).mk(*[p.t for p in parts]))
        return lift(e)

    def iter_len(self, I, it):
        if isinstance(it, SV) and it.typ.kind == 'Seq':
            return seq_len(it)
        if isinstance(it, SRange):
            return z3.If(it.hi > it.lo, it.hi - it.lo, 0)
        if isinstance(it, SArr):
            return it.n
        if isinstance(it, SEnumerate):
            return self.iter_len(I, it.xs)
        raise Undecided('length of iterable')

    def image(self, I, f, xs, kind):
        '''set(map(f, xs)) for a symbolic set / sequence xs: membership only'''
        sc = Scope(None, {})
        tgt = ast.Name(id='x!img', ctx=ast.Store())
        var, dom = self.iter_domain(I, xs, tgt, sc)
        x = sc.lookup('x!img')
        I.path.nofork += 1
        I.path.guards.append(dom)
        try:
            e = I.call(f, [x], {})
        finally:
            I.path.guards.pop()
            I.path.nofork -= 1
        e = e if isinstance(e, SV) else lift(e)
        st = I.fresh(T('Set', e.typ), 'image')
        y = z3.Const(I.path.name('y'), zsort(e.typ))
        I.path.assume(z3.ForAll([y], st.t[y] == z3.Exists(var, z3.And(dom, e.t == y))))
        return st

    # ------------------------------------------------------------------ subscripts
    def getitem(self, I, recv, idx):
        if isinstance(recv, (list, tuple)):
            if isinstance(idx, int):
                if not -len(recv) <= idx < len(recv):
                    I.raise_('IndexError')
                return recv[idx]
            if isinstance(idx, SObj) and idx.cls == 'slice':
                f = I.heap[idx.oid]['fields']
                if all(x is None or isinstance(x, int) for x in f.values()):
                    return recv[slice(f['start'], f['stop'], f['step'])]
            if isinstance(idx, SV) and idx.typ.kind == 'Int':
                # concrete list, symbolic index: case split
                n = len(recv)
                I.require(z3.And(-n <= idx.t, idx.t < n), 'IndexError')
                for j in range(-n, n):
                    if I.path.cond(idx.t == j):
                        return recv[j]
                raise PathEnd('infeasible')
            raise Undecided('list subscript')
        if isinstance(recv, dict):
            return self.dict_get(I, recv, idx, raise_missing=True)
        if isinstance(recv, SV):
            k = recv.typ.kind
            if k == 'Seq':
                i = idx if isinstance(idx, SV) else lift(idx)
                if isinstance(idx, SObj):
                    raise Undecided('slice of symbolic sequence')
                n = seq_len(recv)
                I.require(z3.And(-n <= i.t, i.t < n), 'IndexError', 'seq index')
                j = z3.If(i.t < 0, i.t + n, i.t)
                return SV(recv.typ.args[0], seq_arr(recv)[j])
            if k == 'Map':
                key = coerce(idx if isinstance(idx, SV) else lift(idx), recv.typ.args[0])
                I.require(map_dom(recv)[key.t], 'KeyError', 'map key')
                return SV(recv.typ.args[1], map_val(recv)[key.t])
            if k == 'Fun':
                key = coerce(idx if isinstance(idx, SV) else lift(idx), recv.typ.args[0])
                return SV(recv.typ.args[1], recv.t[key.t])
            if k == 'Opt':
                I.require(z3.Not(opt_is_none(recv)), 'TypeError', 'None subscript')
                return self.getitem(I, opt_get(recv), idx)
            if k == 'Tuple' and isinstance(idx, int):
                n = len(recv.typ.args)
                if not -n <= idx < n:
                    I.raise_('IndexError')
                j = idx % n
                return SV(recv.typ.args[j], zsort(recv.typ).accessor(0, j)(recv.t))
        if isinstance(recv, SArr):
            return self.arr_getitem(I, recv, idx)
        if isinstance(recv, SObj):
            return I.call_method(recv, '__getitem__', [idx], {})
        raise Undecided(f'subscript of {recv!r}')

    def empty_of(self, I, typ):
        '''the value a defaultdict factory (list / set / dict) produces, as a term of the sort'''
        if typ.kind == 'Seq':
            pad = z3.Const('pad!' + ''.join(c if c.isalnum() else '_' for c in str(typ)), zsort(typ))
            return seq_mk(typ, seq_arr(SV(typ, pad)), z3.IntVal(0))
        if typ.kind == 'Set':
            return set_empty(typ)
        if typ.kind == 'Map' and typ.default:
            # normal form of defaultdict-typed maps: every missing key carries the factory value
            return map_mk(typ, z3.K(zsort(typ.args[0]), z3.BoolVal(False)), z3.K(zsort(typ.args[0]), self.empty_of(I, typ.args[1]).t))
        if typ.kind == 'Map':
            pad = z3.Const('pad!' + ''.join(c if c.isalnum() else '_' for c in str(typ)), zsort(typ))
            return map_mk(typ, z3.K(zsort(typ.args[0]), z3.BoolVal(False)), map_val(SV(typ, pad)))
        if typ.kind == 'Int':
            return SV(INT, z3.IntVal(0))
        raise Undecided(f'defaultdict factory for {typ}')

    def dmap_get(self, I, m, key):
        '''defaultdict.__getitem__: (map with the key present, value)'''
        kt, vt = m.typ.args
        k = coerce(key if isinstance(key, SV) else lift(key, kt), kt)
        # normal form (see Interp.fresh / empty_of): the value array already holds the factory value at missing keys
        val = SV(vt, map_val(m)[k.t])
        new = map_mk(m.typ, z3.Store(map_dom(m), k.t, True), map_val(m))
        self.use('collections.defaultdict: d[k] on a missing key inserts the factory value (a write)')
        return new, val

    def dict_get(self, I, d, key, raise_missing=False, default=None):
        # concrete dict with possibly symbolic keys
        for k, v in d.items():
            if k is key or (isinstance(k, SV) and isinstance(key, SV) and k.typ == key.typ and z3.eq(k.t, key.t)):
                return v
        for k, v in d.items():
            eq = I.truth(I.equal(k, key)) if not (isinstance(k, (str, int)) and isinstance(key, (str, int))) else (k == key)
            if isinstance(eq, bool):
                if eq:
                    return v
                continue
            if I.path.nofork:
                raise Undecided('symbolic key lookup in a concrete dict inside a quantifier')
            if I.path.cond(eq):
                return v
        if raise_missing:
            I.raise_('KeyError')
        return default

    def setitem(self, I, tgt, v, scope):
        recv = I.eval(tgt.value, scope)
        idx = I.eval(tgt.slice, scope)
        if isinstance(recv, list):
            if isinstance(idx, int):
                if not -len(recv) <= idx < len(recv):
                    I.raise_('IndexError')
                recv[idx] = v
                return
            raise Undecided('list item store with symbolic index')
        if isinstance(recv, dict):
            for k in list(recv):
                eq = I.truth(I.equal(k, idx)) if not (isinstance(k, (str, int)) and isinstance(idx, (str, int))) else (k == idx)
                if isinstance(eq, bool):
                    if eq:
                        recv[k] = v
                        return
                    continue
                if I.path.cond(eq):
                    recv[k] = v
                    return
            recv[idx] = v
            return
        if isinstance(recv, SV) and recv.typ.kind in ('Seq', 'Map'):
            new = self.store(I, recv, idx, v)
            self.write_back(I, tgt.value, new, scope, _how=('rebind', idx))
            return
        if isinstance(recv, SArr):
            return self.arr_setitem(I, recv, idx, v, tgt, scope)
        if isinstance(recv, SObj):
            I.call_method(recv, '__setitem__', [idx, v], {})
            return
        raise Undecided(f'item store on {recv!r}')

    def store(self, I, recv, idx, v):
        if recv.typ.kind == 'Seq':
            i = idx if isinstance(idx, SV) else lift(idx)
            n = seq_len(recv)
            I.require(z3.And(-n <= i.t, i.t < n), 'IndexError', 'seq store')
            j = z3.If(i.t < 0, i.t + n, i.t)
            val = coerce(v if isinstance(v, SV) else lift(v, recv.typ.args[0]), recv.typ.args[0])
            return seq_mk(recv.typ, z3.Store(seq_arr(recv), j, val.t), n)
        key = coerce(idx if isinstance(idx, SV) else lift(idx), recv.typ.args[0])
        val = coerce(v if isinstance(v, SV) else lift(v, recv.typ.args[1]), recv.typ.args[1])
        return map_mk(recv.typ, z3.Store(map_dom(recv), key.t, True), z3.Store(map_val(recv), key.t, val.t))

    def _loop_target_aliases(self, I, target, scope):
        """the loop variable of `for x in containers` is a reference to an element: an in-place change through it is not tracked -> undecided"""
        names = [target] if isinstance(target, ast.Name) else [t for t in ast.walk(target) if isinstance(t, ast.Name)]
        for t in names:
            v = scope.lookup(t.id) if scope.has(t.id) else None
            if isinstance(v, SV) and v.typ.kind in ('Seq', 'Set', 'Map'):
                scope.aliases[t.id] = {'unknown': 'a loop variable bound to an element of the iterated collection', 'base_txt': '?', 'key': None, 'stale': False}

    def write_back(self, I, node, new, scope, _via=None, _how=None):
        '''value-semantics containers: store the updated value where it came from (and through path aliases).
        _how = ('rebind', key): base[key] now holds another object; ('mutate', key): the object at base[key] was changed in place'''
        if isinstance(node, ast.Name):
            s = scope
            while s is not None and node.id not in s.vars:
                s = s.parent
            (s or scope).set(node.id, new)
            al = scope.find_alias(node.id)
            if al is not None and al.get('unknown'):
                raise Undecided(f'in-place change of the container {node.id}, which may be reachable through another path ({al["unknown"]}): aliasing not tracked')
            if al is not None:
                # the name itself denotes an inner container that was just mutated: write through to base[key]
                if al['stale'] or al.get('detached'):
                    raise Undecided(f'mutation through {node.id}, whose link to {al["base_txt"]}[...] is no longer known')
                if 'attr' in al:
                    self.write_back(I, al['attr'], new, scope, _via=node.id, _how=('mutate', None))
                    return
                base_val = I.eval(al['base'], scope)
                if isinstance(base_val, SV):
                    self.write_back(I, al['base'], self.store(I, base_val, al['key'], new), scope, _via=node.id, _how=('mutate', al['key']))
                else:
                    raise Undecided('path alias into a concrete container')
            self._stale_aliases(I, scope, ast.unparse(node), _via, _how)
        elif isinstance(node, ast.Attribute):
            I.setattr(I.eval(node.value, scope), node.attr, new)
            self._stale_aliases(I, scope, ast.unparse(node), _via, _how)
        elif isinstance(node, ast.Subscript):
            outer = I.eval(node.value, scope)
            key = I.eval(node.slice, scope)
            if isinstance(outer, SV):
                self.write_back(I, node.value, self.store(I, outer, key, new), scope, _via=_via, _how=_how or ('mutate', key))
            elif isinstance(outer, dict):
                outer[key] = new
            else:
                raise Undecided('nested write-back')
        else:
            raise Undecided('write-back target')

    def _may_equal(self, I, a, b):
        if not isinstance(a, SV) and not isinstance(b, SV):
            try:
                return a == b
            except Exception:      # noqa
                return True
        try:
            a2 = a if isinstance(a, SV) else lift(a, b.typ)
            b2 = b if isinstance(b, SV) else lift(b, a.typ)
            if a2.typ != b2.typ:
                return True
            return I.path.feasible(a2.t == b2.t)
        except Exception:          # noqa
            return True

    def _stale_aliases(self, I, scope, written_txt, via, how):
        '''a container was rewritten: decide what the aliases into it still denote'''
        s = scope
        while s is not None:
            for name, al in s.aliases.items():
                if name == via or al['base_txt'] != written_txt:
                    continue
                if how is None or 'attr' in al:
                    al['stale'] = True
                elif not self._may_equal(I, al['key'], how[1]):
                    continue
                elif how[0] == 'rebind':
                    al['detached'] = True      # the alias keeps its object; base[key] may now hold another one
                else:
                    al['stale'] = True         # the object the alias denotes was changed through another path
            s = s.parent

    def delitem(self, I, tgt, scope):
        recv = I.eval(tgt.value, scope)
        idx = I.eval(tgt.slice, scope)
        if isinstance(recv, dict):
            for k in list(recv):
                eq = I.truth(I.equal(k, idx)) if not (isinstance(k, (str, int)) and isinstance(idx, (str, int))) else (k == idx)
                if eq is True or (not isinstance(eq, bool) and I.path.cond(eq)):
                    del recv[k]
                    return
            I.raise_('KeyError')
        if isinstance(recv, SV) and recv.typ.kind == 'Map':
            key = coerce(idx if isinstance(idx, SV) else lift(idx), recv.typ.args[0])
            I.require(map_dom(recv)[key.t], 'KeyError', 'del map key')
            vals = map_val(recv)
            if recv.typ.default:
                vals = z3.Store(vals, key.t, self.empty_of(I, recv.typ.args[1]).t)      # keep the normal form
            new = map_mk(recv.typ, z3.Store(map_dom(recv), key.t, False), vals)
            self.write_back(I, tgt.value, new, scope, _how=('rebind', idx))
            return
        if isinstance(recv, SV) and recv.typ.kind == 'Seq':
            i = idx if isinstance(idx, SV) else lift(idx)
            n = seq_len(recv)
            I.require(z3.And(-n <= i.t, i.t < n), 'IndexError', 'del seq index')
            j = z3.If(i.t < 0, i.t + n, i.t)
            out = I.fresh(recv.typ, 'deleted')
            q = z3.Int('q!del')
            I.path.assume(seq_len(out) == n - 1)
            I.path.assume(z3.ForAll([q], z3.Implies(z3.And(0 <= q, q < n - 1),
                          seq_arr(out)[q] == z3.If(q < j, seq_arr(recv)[q], seq_arr(recv)[q + 1]))))
            self.write_back(I, tgt.value, out, scope)
            return
        if isinstance(recv, SObj):
            I.call_method(recv, '__delitem__', [idx], {})
            return
        raise Undecided(f'del item on {recv!r}')

    # ------------------------------------------------------------------ contains / compare
    def contains(self, I, container, x):
        if isinstance(container, (list, tuple, set, frozenset)):
            terms = []
            for y in container:
                e = I.truth(I.equal(x, y))
                if e is True:
                    return True
                if e is not False:
                    terms.append(e)
            if not terms:
                return False
            return SV(BOOL, z3.Or(*terms))
        if isinstance(container, dict):
            return self.contains(I, list(container.keys()), x)
        if isinstance(container, SV):
            k = container.typ.kind
            if k == 'Set':
                xx = coerce(x if isinstance(x, SV) else lift(x), container.typ.args[0])
                return SV(BOOL, container.t[xx.t])
            if k == 'Map':
                xx = coerce(x if isinstance(x, SV) else lift(x), container.typ.args[0])
                return SV(BOOL, map_dom(container)[xx.t])
            if k == 'Seq':
                xx = coerce(x if isinstance(x, SV) else lift(x), container.typ.args[0])
                i = z3.Int(I.path.name('i'))
                return SV(BOOL, z3.Exists([i], z3.And(0 <= i, i < seq_len(container),
                                                      elem_eq(xx.typ, seq_arr(container)[i], xx.t))))
            if k == 'Str':
                xx = x if isinstance(x, SV) else lift(x)
                return SV(BOOL, z3.Contains(container.t, xx.t))
        if isinstance(container, str) and isinstance(x, SV) and x.typ.kind == 'Str':
            return SV(BOOL, z3.Contains(z3.StringVal(container), x.t))
        if isinstance(container, SObj):
            return I.call_method(container, '__contains__', [x], {})
        raise Undecided(f'membership in {container!r}')

    def compare(self, I, op, a, b):
        if isinstance(a, SArr) or isinstance(b, SArr):
            return self.arr_compare(I, op, a, b)
        return NotImplemented

    def binop(self, I, op, a, b):
        if isinstance(a, SArr) or isinstance(b, SArr):
            return self.arr_binop(I, op, a, b)
        if isinstance(a, SObj) and I.world.class_model(a.cls) is not None:
            name = {ast.Add: '__add__', ast.Sub: '__sub__', ast.Mult: '__mul__', ast.Div: '__truediv__',
                    ast.BitAnd: '__and__', ast.BitOr: '__or__'}.get(type(op))
            if name and (I.world.contract_for(a.cls, name) or hasattr(I.world.class_model(a.cls), 'm_' + name)):
                return I.call_method(a, name, [b], {})
        if isinstance(op, ast.Pow) and isinstance(b, int) and b == 2 and isinstance(a, SV) and a.typ.kind in ('Num', 'Int'):
            if a.typ.kind == 'Int':
                return SV(INT, a.t * a.t)
            return SV(NUM, th.num_sq(a.t))
        if isinstance(a, str) and isinstance(b, SV) and b.typ.kind == 'Str' and isinstance(op, ast.Add):
            return SV(STR, z3.Concat(z3.StringVal(a), b.t))
        if isinstance(b, str) and isinstance(a, SV) and a.typ.kind == 'Str' and isinstance(op, ast.Add):
            return SV(STR, z3.Concat(a.t, z3.StringVal(b)))
        if isinstance(a, list) and isinstance(b, list) and isinstance(op, ast.Add):
            return a + b
        if isinstance(a, set) and isinstance(b, set):
            return {ast.BitOr: a | b, ast.BitAnd: a & b, ast.Sub: a - b}.get(type(op), NotImplemented)
        return NotImplemented

    def inplace(self, I, op, cur, rhs):
        return NotImplemented

    def invert(self, I, v):
        if isinstance(v, SArr) and v.dtype == 'bool':
            return SArr(lambda i, e=v.elem: z3.Not(e(i)), v.n, 'bool', self.new_buf(), v.scalar, v.shape)
        raise Undecided('~')

    def identical(self, I, a, b):
        if isinstance(a, SArr) and isinstance(b, SArr):
            return a is b
        if isinstance(a, (SObj, SArr)) != isinstance(b, (SObj, SArr)):
            return False
        if isinstance(a, (SClass,)) and isinstance(b, SClass):
            return a.name == b.name
        return NotImplemented

    def obj_equal(self, I, a, b):
        if isinstance(a, SObj):
            model = I.world.class_model(a.cls)
            if model is not None and hasattr(model, 'm___eq__'):
                return model.m___eq__(I, a, b)
        if isinstance(a, dict) and isinstance(b, dict):
            if set(map(repr, a)) != set(map(repr, b)):
                return False
            parts = [I.truth(I.equal(a[k], b[k])) for k in a]
            if all(isinstance(p, bool) for p in parts):
                return all(parts)
            return SV(BOOL, z3.And(*[_b(p) for p in parts]))
        if isinstance(a, list) and isinstance(b, list):
            return I.equal(tuple(a), tuple(b))
        if isinstance(a, SObj) and isinstance(b, SObj):
            return a.oid == b.oid
        if type(a) is not type(b):
            return False
        raise Undecided(f'equality of {a!r} and {b!r}')

    def lib_truth(self, I, v):
        if isinstance(v, SArr):
            if v.scalar:
                e = v.elem(z3.IntVal(0))
                if v.dtype == 'bool':
                    return e
                if v.dtype == 'num':
                    return z3.Not(th.is_zero(e))
                return e != 0
            raise Undecided('truth value of an array')
        return None

    def set_binop(self, I, op, a, b):
        x = z3.Const('x!sb', zsort(a.typ.args[0]))
        if isinstance(op, ast.BitOr):
            return SV(a.typ, z3.Lambda([x], z3.Or(a.t[x], b.t[x])))
        if isinstance(op, ast.BitAnd):
            return SV(a.typ, z3.Lambda([x], z3.And(a.t[x], b.t[x])))
        if isinstance(op, ast.Sub):
            return SV(a.typ, z3.Lambda([x], z3.And(a.t[x], z3.Not(b.t[x]))))
        raise Undecided('set operator')

    def set_compare(self, I, op, a, b):
        x = z3.Const('x!sc', zsort(a.typ.args[0]))
        sub = z3.ForAll([x], z3.Implies(a.t[x], b.t[x]))
        sup = z3.ForAll([x], z3.Implies(b.t[x], a.t[x]))
        if isinstance(op, ast.LtE):
            return SV(BOOL, sub)
        if isinstance(op, ast.GtE):
            return SV(BOOL, sup)
        if isinstance(op, ast.Lt):
            return SV(BOOL, z3.And(sub, a.t != b.t))
        if isinstance(op, ast.Gt):
            return SV(BOOL, z3.And(sup, a.t != b.t))
        raise Undecided('set comparison')

    def seq_concat(self, I, a, b):
        out = I.fresh(a.typ, 'concat')
        i = z3.Int('i!cc')
        na, nb = seq_len(a), seq_len(b)
        I.path.assume(seq_len(out) == na + nb)
        I.path.assume(z3.ForAll([i], z3.Implies(z3.And(0 <= i, i < na + nb),
                      seq_arr(out)[i] == z3.If(i < na, seq_arr(a)[i], seq_arr(b)[i - na]))))
        return out

    def unpack(self, I, v, n):
        if isinstance(v, (tuple, list)):
            if len(v) != n:
                I.raise_('ValueError')
            return list(v)
        if v is None:
            I.raise_('TypeError')
        if isinstance(v, SV) and v.typ.kind == 'Tuple' and len(v.typ.args) == n:
            s = zsort(v.typ)
            return [SV(t, s.accessor(0, i)(v.t)) for i, t in enumerate(v.typ.args)]
        r = self.world.unpack_hook(I, v, n)
        if r is not None:
            return r
        raise Undecided(f'unpacking of {v!r}')

    # ------------------------------------------------------------------ attributes / methods on library values
    def namespace_attr(self, I, ns, name):
        return None

    def attr(self, I, recv, name):
        if isinstance(recv, SArr):
            return self.arr_attr(I, recv, name)
        if isinstance(recv, SPyExc):
            if name in ('errno', 'strerror', 'args'):
                self.use('exception attributes: uninterpreted')
                return SV(INT, z3.Int(I.path.name('errno'))) if name == 'errno' else None
        return NotImplemented

    def method(self, I, recv, name, args, kwargs, node):
        if isinstance(recv, list):
            return self.list_method(I, recv, name, args, kwargs)
        if isinstance(recv, dict):
            return self.dict_method(I, recv, name, args, kwargs)
        if isinstance(recv, set):
            return self.pyset_method(I, recv, name, args, kwargs)
        if isinstance(recv, str):
            if all(isinstance(a, (str, int)) for a in args):
                return getattr(recv, name)(*args, **kwargs)
            if name == 'join' and len(args) == 1 and isinstance(args[0], SV) and args[0].typ.kind in ('Seq', 'Set'):
                f = th.func('str_join_' + str(abs(hash(recv)) % 10 ** 6), zsort(args[0].typ), z3.StringSort())
                self.use('str.join over a symbolic sequence: uninterpreted function of the sequence')
                return SV(STR, f(args[0].t))
        if isinstance(recv, SArr):
            return self.arr_method(I, recv, name, args, kwargs)
        if isinstance(recv, SV):
            if recv.typ.kind == 'Ref':
                f = getattr(self.world, 'ref_methods', {}).get((recv.typ.args[0], name))
                if f is not None:
                    return f(I, recv, *args, **kwargs)
            if recv.typ.kind == 'Opt':
                I.require(z3.Not(opt_is_none(recv)), 'AttributeError', 'None.' + name)
                return self.method(I, opt_get(recv), name, args, kwargs, node)
            m = getattr(self, f'm_{recv.typ.kind}_{name}', None)
            if m is not None:
                return m(I, recv, *args, **kwargs)
        if isinstance(recv, SNamespace):
            f = I.getattr(recv, name)
            return I.call(f, args, kwargs, node)
        if isinstance(recv, SMapItems):
            raise Undecided('method on dict view')
        raise Undecided(f'method {name} on {recv!r}')

    def slice_method(self, I, recv, name, args, kwargs):
        if name == 'indices':
            self.use('python: slice.indices(n) (unit step) = (lo, hi, 1) with 0 <= lo, hi <= n, negative bounds shifted by n and clamped')
            n = args[0] if isinstance(args[0], SV) else lift(args[0])
            lo, hi = self.slice_bounds(I, recv, n.t)
            return (SV(INT, lo), SV(INT, hi), 1)
        raise Undecided(f'slice.{name}')

    def list_method(self, I, recv, name, args, kwargs):
        if name == 'append':
            recv.append(args[0])
            return None
        if name == 'extend':
            if isinstance(args[0], (list, tuple)):
                recv.extend(args[0])
                return None
            if isinstance(args[0], GenExp):
                items = [] if self._spent(I, args[0]) else self.comprehension(I, args[0].node, args[0].scope, 'list')
                if isinstance(items, list):
                    recv.extend(items)
                    return None
        if name == 'copy':
            return list(recv)
        if name == 'pop' and not args:
            if not recv:
                I.raise_('IndexError')
            return recv.pop()
        if name == 'insert' and isinstance(args[0], int):
            recv.insert(args[0], args[1])
            return None
        raise Undecided(f'list.{name}')

    def dict_method(self, I, recv, name, args, kwargs):
        if name == 'get':
            return self.dict_get(I, recv, args[0], default=args[1] if len(args) > 1 else None)
        if name == 'items':
            return list(recv.items())
        if name == 'keys':
            return list(recv.keys())
        if name == 'values':
            return list(recv.values())
        if name == 'copy':
            return dict(recv)
        if name == 'pop':
            sentinel = object()
            cur = self.dict_get(I, recv, args[0], default=sentinel)
            if cur is sentinel:
                if len(args) > 1:
                    return args[1]
                I.raise_('KeyError')
            for k in list(recv):
                if recv[k] is cur:
                    del recv[k]
                    break
            return cur
        if name == 'setdefault':
            sentinel = object()
            cur = self.dict_get(I, recv, args[0], default=sentinel)
            if cur is sentinel:
                recv[args[0]] = args[1] if len(args) > 1 else None
                return recv[args[0]]
            return cur
        raise Undecided(f'dict.{name}')

    def pyset_method(self, I, recv, name, args, kwargs):
        if name == 'add':
            recv.add(args[0])
            return None
        if name in ('issubset', 'issuperset', 'intersection', 'union', 'difference', 'isdisjoint') and len(args) == 1 and isinstance(args[0], (set, frozenset, dict, list, tuple)) \
                and all(isinstance(x, (str, int)) for x in recv) and all(isinstance(x, (str, int)) for x in args[0]):
            return getattr(recv, name)(set(args[0]))      # concrete sets of literals
        raise Undecided(f'set.{name}')

    def narrow(self, I, v, et):
        '''value stored into a container of element type et; an Opt[et] value is accepted only
        when the path condition excludes None (else the element type of the sort map is wrong)'''
        v = v if isinstance(v, SV) else lift(v, et)
        if v.typ.kind == 'Opt' and v.typ.args[0] == et and et.kind != 'Opt':
            if I.path.feasible(opt_is_none(v)):
                raise Undecided('possibly-None value stored in a container whose sort map says non-optional elements')
            return opt_get(v)
        return coerce(v, et)

    def mutate(self, I, recv, name, args):
        '''mutating method on a value-semantics container: returns (new container, result)'''
        k = recv.typ.kind
        if k == 'Seq':
            et = recv.typ.args[0]
            n = seq_len(recv)
            if name == 'append':
                v = self.narrow(I, args[0], et)
                return seq_mk(recv.typ, z3.Store(seq_arr(recv), n, v.t), n + 1), None
            if name == 'extend' and isinstance(args[0], SV) and args[0].typ == recv.typ:
                return self.seq_concat(I, recv, args[0]), None
            if name == 'extend' and isinstance(args[0], (list, tuple)):
                cur = recv
                for x in args[0]:
                    cur, _ = self.mutate(I, cur, 'append', [x])
                return cur, None
            if name == 'pop' and not args:
                I.require(n > 0, 'IndexError', 'pop from empty list')
                return seq_mk(recv.typ, seq_arr(recv), n - 1), SV(et, seq_arr(recv)[n - 1])
        if k == 'Set':
            et = recv.typ.args[0]
            if name in ('add', 'discard', 'remove'):
                v = coerce(args[0] if isinstance(args[0], SV) else lift(args[0], et), et)
                if name == 'remove':
                    I.require(recv.t[v.t], 'KeyError', 'set.remove of a missing element')
                return SV(recv.typ, z3.Store(recv.t, v.t, name == 'add')), None
            if name == 'clear':
                return set_empty(recv.typ), None
            if name in ('update', 'intersection_update', 'difference_update') and isinstance(args[0], SV) and args[0].typ == recv.typ:
                op = {'update': ast.BitOr(), 'intersection_update': ast.BitAnd(), 'difference_update': ast.Sub()}[name]
                return self.set_binop(I, op, recv, args[0]), None
        if k == 'Map':
            kt, vt = recv.typ.args
            if name == 'pop':
                key = coerce(args[0] if isinstance(args[0], SV) else lift(args[0], kt), kt)
                present = map_dom(recv)[key.t]
                if len(args) == 1:
                    I.require(present, 'KeyError', 'dict.pop of a missing key')
                    res = SV(vt, map_val(recv)[key.t])
                else:
                    res = I.merge(present, SV(vt, map_val(recv)[key.t]), args[1])
                vals = map_val(recv)
                if recv.typ.default:
                    vals = z3.Store(vals, key.t, self.empty_of(I, vt).t)
                return map_mk(recv.typ, z3.Store(map_dom(recv), key.t, False), vals), res
            if name == 'setdefault':
                key = coerce(args[0] if isinstance(args[0], SV) else lift(args[0], kt), kt)
                dflt = coerce(args[1] if isinstance(args[1], SV) else lift(args[1], vt), vt)
                present = map_dom(recv)[key.t]
                val = z3.If(present, map_val(recv)[key.t], dflt.t)
                return map_mk(recv.typ, z3.Store(map_dom(recv), key.t, True), z3.Store(map_val(recv), key.t, val)), SV(vt, val)
            if name == 'clear':
                return map_mk(recv.typ, z3.K(zsort(kt), z3.BoolVal(False)), map_val(recv)), None
            if name == 'update' and len(args) == 1 and isinstance(args[0], SV) and args[0].typ == recv.typ:
                o = args[0]
                k = z3.Const('k!upd', zsort(kt))
                dom = z3.Lambda([k], z3.Or(map_dom(recv)[k], map_dom(o)[k]))
                val = z3.Lambda([k], z3.If(map_dom(o)[k], map_val(o)[k], map_val(recv)[k]))
                return map_mk(recv.typ, dom, val), None
        raise Undecided(f'mutating method {name} on {recv.typ}')

    # Seq methods (value semantics: the engine writes back through method_mut)
    def _as_set(self, I, x, et):
        if isinstance(x, SV) and x.typ.kind == 'Set':
            return x.t
        if isinstance(x, SV) and x.typ.kind == 'Map':
            return map_dom(x)
        raise Undecided(f'set operation with {x!r}')

    def m_Set_issubset(self, I, s, other):
        o = self._as_set(I, other, s.typ.args[0])
        x = z3.Const(I.path.name('x'), zsort(s.typ.args[0]))
        return SV(BOOL, z3.ForAll([x], z3.Implies(s.t[x], o[x])))

    def m_Set_intersection(self, I, s, other):
        o = self._as_set(I, other, s.typ.args[0])
        x = z3.Const('x!int', zsort(s.typ.args[0]))
        return SV(s.typ, z3.Lambda([x], z3.And(s.t[x], o[x])))

    def m_Set_union(self, I, s, other):
        o = self._as_set(I, other, s.typ.args[0])
        x = z3.Const('x!uni', zsort(s.typ.args[0]))
        return SV(s.typ, z3.Lambda([x], z3.Or(s.t[x], o[x])))

    def m_Set_copy(self, I, s):
        return s

    def m_Map_copy(self, I, m):
        return m

    def m_Seq_copy(self, I, m):
        return m

    def m_Map_items(self, I, m):
        return SMapItems(m, 'items')

    def m_Map_keys(self, I, m):
        return SMapItems(m, 'keys')

    def m_Map_values(self, I, m):
        return SMapItems(m, 'values')

    def m_Map_get(self, I, m, key, default=None):
        k = coerce(key if isinstance(key, SV) else lift(key), m.typ.args[0])
        present = map_dom(m)[k.t]
        return I.merge(present, SV(m.typ.args[1], map_val(m)[k.t]), default)

    def _str_fn(self, I, s, name, *args):
        '''string methods without a theory counterpart: an uninterpreted function of the string (so nothing about the result is known)'''
        if args:
            raise Undecided(f'str.{name} with arguments')
        f = th.func('str_' + name, z3.StringSort(), z3.StringSort())
        self.use(f'str.{name}: uninterpreted function')
        return SV(STR, f(s.t))

    def m_Str_strip(self, I, s, *a):
        return self._str_fn(I, s, 'strip', *a)

    def m_Str_lstrip(self, I, s, *a):
        return self._str_fn(I, s, 'lstrip', *a)

    def m_Str_rstrip(self, I, s, *a):
        return self._str_fn(I, s, 'rstrip', *a)

    def m_Str_lower(self, I, s, *a):
        return self._str_fn(I, s, 'lower', *a)

    def m_Str_upper(self, I, s, *a):
        return self._str_fn(I, s, 'upper', *a)

    def m_Str_startswith(self, I, s, prefix):
        p = prefix if isinstance(prefix, SV) else lift(prefix)
        return SV(BOOL, z3.PrefixOf(p.t, s.t))

    def m_Str_endswith(self, I, s, suffix):
        p = suffix if isinstance(suffix, SV) else lift(suffix)
        return SV(BOOL, z3.SuffixOf(p.t, s.t))

    def m_Str_isdigit(self, I, s):
        self.use('str.isdigit: uninterpreted predicate of the string')
        return SV(BOOL, th.func('str_isdigit', z3.StringSort(), z3.BoolSort())(s.t))

    def m_Str_split(self, I, s, *a):
        '''str.split(): the list of fields is an uninterpreted function of the string (any length, any fields)'''
        if a:
            raise Undecided('str.split with arguments')
        from .values import parse_type
        t = parse_type('Seq[Str]')
        self.use('str.split(): uninterpreted function of the string (any number of fields)')
        r = SV(t, th.func('str_split', z3.StringSort(), zsort(t))(s.t))
        I.path.assume(seq_len(r) >= 0)
        return r

    def m_Str_encode(self, I, s, *a):
        raise Undecided('str.encode')

    # ------------------------------------------------------------------ with
    def with_enter(self, I, cm_node, scope):
        # `with self.lock:` / `with cond_var:` -- atomic-section markers; Chrono dropped
        if isinstance(cm_node, ast.Call) and isinstance(cm_node.func, ast.Name) and cm_node.func.id == 'Chrono':
            I.dropped.append(f'with Chrono() line {cm_node.lineno}')
            return ('chrono', I.alloc('Chrono', {}))
        if isinstance(cm_node, ast.Call) and isinstance(cm_node.func, ast.Name) and cm_node.func.id == 'open':
            return self.world.open_file(I, cm_node, scope)
        v = I.eval(cm_node, scope)
        if 'with' in I.hooks:
            I.hooks['with'](I, v, 'enter')
        return ('cm', v)

    def with_exit(self, I, cm_node, val, scope):
        if val[0] == 'cm' and 'with' in I.hooks:
            I.hooks['with'](I, val[1], 'exit')

    # ------------------------------------------------------------------ loops
    def loop(self, I, st, scope, ordinal):
        if isinstance(st, ast.For):
            it = I.eval(st.iter, scope)
            if isinstance(it, dict):
                it = list(it.keys())
            if isinstance(it, SObj):
                model = I.world.class_model(it.cls)
                if model is None or not hasattr(model, 'iter_value'):
                    raise Undecided(f'iteration over {it!r}')
                it = model.iter_value(I, it)
            if isinstance(it, (list, tuple, set, frozenset)):
                broke = False
                for x in list(it):
                    I.assign(st.target, x, scope)
                    self._loop_target_aliases(I, st.target, scope)
                    try:
                        I.exec_block(st.body, scope)
                    except _Break:
                        broke = True
                        break
                    except _Continue:
                        continue
                if not broke:
                    I.exec_block(st.orelse, scope)
                return
            return self.loop_symbolic(I, st, scope, ordinal, it)
        # while
        test_const = isinstance(st.test, ast.Constant)
        spec = I.world.loop_spec(I, ordinal, st)
        if spec is None:
            # bounded unrolling is never used silently
            raise Undecided(f'while loop #{ordinal} without invariant')
        return self.loop_while(I, st, scope, ordinal, spec)

    def _check_invs(self, I, spec, scope, label, kind):
        for k, inv in enumerate(spec.invariant):
            I.path.oblige(f'{I.fn_label}::{kind}::{label}::{k}', I.spec(inv, scope), kind=kind, meta={'expr': inv})

    def _assume_invs(self, I, spec, scope):
        for inv in spec.invariant:
            I.path.assume(I.spec(inv, scope))

    def _loop_writes(self, st):
        '''names / one-level paths the loop body may write (syntactic over-approximation)'''
        from .engine import MUTATORS
        names, paths = set(), set()
        self._mutated_only = set()

        def base(n):
            while isinstance(n, ast.Subscript):
                n = n.value
            return n

        def note(n, mutation=False):
            mutation = mutation or isinstance(n, ast.Subscript)
            n = base(n)
            if isinstance(n, ast.Name):
                if mutation and n.id not in names:
                    self._mutated_only.add(n.id)
                else:
                    self._mutated_only.discard(n.id)
                names.add(n.id)
            elif isinstance(n, ast.Attribute) and isinstance(base(n.value), ast.Name):
                paths.add(f'{base(n.value).id}.{n.attr}')
            elif isinstance(n, (ast.Tuple, ast.List)):
                for e in n.elts:
                    note(e)
            else:
                paths.add('?')
        for sub in st.body + st.orelse:
            for n in ast.walk(sub):
                if isinstance(n, (ast.Assign,)):
                    for t in n.targets:
                        note(t)
                elif isinstance(n, (ast.AugAssign, ast.AnnAssign)):
                    note(n.target)
                elif isinstance(n, (ast.For, ast.comprehension)):
                    if isinstance(n, ast.For):
                        note(n.target)
                elif isinstance(n, ast.Delete):
                    for t in n.targets:
                        note(t)
                elif isinstance(n, ast.Call) and isinstance(n.func, ast.Attribute) and n.func.attr in MUTATORS:
                    note(n.func.value, mutation=True)
                elif isinstance(n, ast.With):
                    for it in n.items:
                        if it.optional_vars is not None:
                            note(it.optional_vars)
                elif isinstance(n, ast.ExceptHandler) and n.name:
                    names.add(n.name)
                elif isinstance(n, (ast.FunctionDef,)):
                    names.add(n.name)
        return names, paths

    def _check_loop_frame(self, I, st, spec, scope):
        '''soundness of the loop rule: everything the body may write is havocked (spec.vars), is the loop
        target, or is a body-local temporary that is made unreadable after the loop'''
        names, paths = self._loop_writes(st)
        tnames, _ = set(), None
        tgt = st.target if isinstance(st, ast.For) else None
        if tgt is not None:
            for n in ast.walk(tgt):
                if isinstance(n, ast.Name):
                    tnames.add(n.id)
        declared = set(spec.vars)
        if '?' in paths:
            raise Undecided('loop body writes through a target the frame analysis cannot name')
        for p in paths:
            if p not in declared and not getattr(spec, 'trusted_paths', None):
                raise Undecided(f'loop body may write {p}, which the loop contract does not havoc')
        temps = set()
        for n in names:
            if n in declared or n in tnames:
                continue
            v = None
            try:
                v = scope.lookup(n)
            except KeyError:
                temps.add(n)
                continue
            if n in self._mutated_only and isinstance(v, SObj):
                continue      # item store / mutator call on a heap object: covered by the dynamic heap-frame check
            # a live variable written by the body but not havocked: unsound to keep its entry value
            raise Undecided(f'loop body assigns {n}, which the loop contract does not havoc')
        return temps | tnames

    def _heap_frame_check(self, I, spec, scope, before):
        '''dynamic part of the loop frame: a heap field changed by this step path must be havocked'''
        allowed = set()
        for name in spec.vars:
            if '.' in name:
                objname, field = name.split('.', 1)
                try:
                    obj = scope.lookup(objname)
                except KeyError:
                    continue
                if isinstance(obj, SObj):
                    allowed.add((obj.oid, field))
        for oid, o in before.items():
            cur = I.heap.get(oid)
            if cur is None:
                continue
            for f, v0 in o['fields'].items():
                v1 = cur['fields'].get(f)
                same = (v0 is v1) or (isinstance(v0, SV) and isinstance(v1, SV) and v0.t.eq(v1.t))
                if not same and (oid, f) not in allowed:
                    raise Undecided(f'loop body writes field {f} of {o["cls"]}#{oid}, which the loop contract does not havoc')

    def _lift_concrete_vars(self, I, spec, scope):
        '''locals the loop contract types symbolically but that are still concrete Python containers ([] / {} / set() built just
        before the loop) are turned into terms of the declared type, so that the invariants can be evaluated on them'''
        from .values import parse_type
        for name, typ in spec.vars.items():
            if '.' in name or callable(typ):
                continue
            try:
                cur = scope.lookup(name)
            except KeyError:
                continue
            t = parse_type(typ) if isinstance(typ, str) else typ
            if isinstance(cur, (list, dict, set)) and not isinstance(cur, SV):
                if len(cur) == 0 and t.kind in ('Seq', 'Set', 'Map'):
                    val = self.empty_of(I, t)
                elif isinstance(cur, (list, set)) and t.kind in ('Seq', 'Set'):
                    try:
                        val = lift(list(cur) if t.kind == 'Seq' else cur, t)
                    except Undecided:
                        continue
                else:
                    continue
                s = scope
                while s is not None and name not in s.vars:
                    s = s.parent
                (s or scope).set(name, val)

    def _ghost(self, I, spec, code, scope):
        for line in code:
            tree = ast.parse(line)
            for n in ast.walk(tree):
                tgt = None
                if isinstance(n, ast.Assign):
                    tgt = n.targets
                elif isinstance(n, (ast.AugAssign, ast.AnnAssign)):
                    tgt = [n.target]
                elif isinstance(n, ast.Call) and isinstance(n.func, ast.Attribute) and n.func.attr in ('append', 'add', 'extend', 'update', 'pop', 'remove'):
                    tgt = [n.func.value]
                for t in tgt or []:
                    while isinstance(t, ast.Subscript):
                        t = t.value
                    if not (isinstance(t, ast.Name) and t.id in spec.ghost_names):
                        raise Undecided(f'ghost code writes a non-ghost variable: {line}')
            I.exec_block(tree.body, scope)

    def _havoc(self, I, spec, scope):
        for name, typ in spec.vars.items():
            if '.' in name:
                objname, field = name.split('.', 1)
                obj = scope.lookup(objname)
                I.setfield(obj, field, I.world.fresh_value(I, typ, field))
            else:
                scope.set(name, I.world.fresh_value(I, typ, name))

    def loop_symbolic(self, I, st, scope, ordinal, it):
        spec = I.world.loop_spec(I, ordinal, st)
        if spec is None:
            raise Undecided(f'for loop #{ordinal} over a symbolic iterable without invariant (line {st.lineno})')
        ordinal = I.world.spec_ordinal(spec, ordinal)
        label = str(ordinal)
        g = spec.ghost
        ordered = True
        dead_after = self._check_loop_frame(I, st, spec, scope)
        # ghost domain
        if isinstance(it, SV) and it.typ.kind == 'Set':
            ordered = False
            full = it
            empty = set_empty(it.typ)
        elif isinstance(it, (SMapItems,)) or (isinstance(it, SV) and it.typ.kind == 'Map'):
            ordered = False
            m = it.m if isinstance(it, SMapItems) else it
            kt = T('Set', m.typ.args[0])
            full = SV(kt, map_dom(m))
            empty = set_empty(kt)
        else:
            n = self.iter_len(I, it)
        # init
        self._ghost(I, spec, spec.ghost_init, scope)
        self._lift_concrete_vars(I, spec, scope)
        sc0 = Scope(scope)
        sc0.set(g, empty if not ordered else SV(INT, z3.IntVal(0)))
        self._check_invs(I, spec, sc0, label, 'inv-init')
        choice = I.path.choose(2, 'loop')
        self._havoc(I, spec, scope)
        if choice == 0:
            # one arbitrary iteration
            if not ordered:
                done = I.fresh(full.typ, g)
                x = I.fresh(full.typ.args[0], 'x')
                xs = z3.Const('x!sub', zsort(full.typ.args[0]))
                I.path.assume(z3.ForAll([xs], z3.Implies(done.t[xs], full.t[xs])))
                I.path.assume(full.t[x.t])
                I.path.assume(z3.Not(done.t[x.t]))
                scope.set(g, done)
                self._assume_invs(I, spec, scope)
                if isinstance(it, SMapItems):
                    v = SV(it.m.typ.args[1], map_val(it.m)[x.t])
                    I.assign(st.target, {'items': (x, v), 'keys': x, 'values': v}[it.which], scope)
                    self._loop_target_aliases(I, st.target, scope)
                else:
                    I.assign(st.target, x, scope)
                    self._loop_target_aliases(I, st.target, scope)
                nxt = SV(full.typ, z3.Store(done.t, x.t, True))
            else:
                k = I.fresh(INT, g)
                I.path.assume(z3.And(0 <= k.t, k.t < n))
                scope.set(g, k)
                self._assume_invs(I, spec, scope)
                I.path.nofork += 1
                try:
                    sc = Scope(scope)
                    var, dom = self.iter_domain(I, it, st.target, sc)
                finally:
                    I.path.nofork -= 1
                # substitute the generic index by k
                for name, val in sc.vars.items():
                    scope.set(name, _subst(val, var[0], k.t))
                nxt = SV(INT, k.t + 1)
            before = I.snapshot_heap()
            try:
                I.exec_block(st.body, scope)
            except _Continue:
                pass
            except _Break:
                return
            self._heap_frame_check(I, spec, scope, before)
            self._ghost(I, spec, spec.ghost_step, scope)
            scope.set(g, nxt)
            self._check_invs(I, spec, scope, label, 'inv-step')
            if 'step-end' in I.hooks:
                I.hooks['step-end'](I, scope, ordinal)
            raise PathEnd('inv-step')
        # exit
        scope.set(g, full if not ordered else SV(INT, n))
        self._assume_invs(I, spec, scope)
        for name in dead_after:
            scope.vars.pop(name, None)
            scope.set(name, DeadAfterLoop(name))
        I.exec_block(st.orelse, scope)

    def loop_while(self, I, st, scope, ordinal, spec):
        ordinal = I.world.spec_ordinal(spec, ordinal)
        label = str(ordinal)
        dead_after = self._check_loop_frame(I, st, spec, scope)
        self._lift_concrete_vars(I, spec, scope)
        self._check_invs(I, spec, scope, label, 'inv-init')
        choice = I.path.choose(2, 'loop')
        self._havoc(I, spec, scope)
        self._assume_invs(I, spec, scope)
        if choice == 0:
            if not I.decide(I.eval(st.test, scope)):
                raise PathEnd('loop exit handled by the other branch')
            before = I.snapshot_heap()
            try:
                I.exec_block(st.body, scope)
            except _Continue:
                pass
            except _Break:
                return
            self._heap_frame_check(I, spec, scope, before)
            self._check_invs(I, spec, scope, label, 'inv-step')
            if 'step-end' in I.hooks:
                I.hooks['step-end'](I, scope, ordinal)
            raise PathEnd('inv-step')
        if I.decide(I.eval(st.test, scope)):
            raise PathEnd('loop continues')
        for name in dead_after:
            scope.vars.pop(name, None)
            scope.set(name, DeadAfterLoop(name))
        I.exec_block(st.orelse, scope)

    # ------------------------------------------------------------------ numpy arrays (see libnumpy)
    def new_buf(self):
        self.next_buf += 1
        return self.next_buf

    def arr_item(self, I, a, i):
        e = a.elem(i)
        typ = {'num': NUM, 'bool': BOOL, 'int': INT}[a.dtype]
        return SV(typ, e)


class DeadAfterLoop:
    '''a loop-local temporary / loop target: its value after the loop is not tracked'''
    def __init__(self, name):
        self.name = name


class SRange:
    def __init__(self, lo, hi):
        self.lo, self.hi = lo, hi


class SEnumerate:
    def __init__(self, xs, start=0):
        self.xs, self.start = xs, start


class SZip:
    def __init__(self, xs):
        self.xs = xs


class SChain:
    def __init__(self, parts):
        self.parts = parts


class SMapItems:
    def __init__(self, m, which):
        self.m, self.which = m, which


class SMapped:
    def __init__(self, f, xs):
        self.f, self.xs = f, xs


class SFiltered:
    def __init__(self, f, xs):
        self.f, self.xs = f, xs


def _tname(target):
    return target.id if isinstance(target, ast.Name) else 'x'


def _subst(val, var, by):
    if isinstance(val, SV):
        return SV(val.typ, z3.substitute(val.t, (var, by)))
    if isinstance(val, tuple):
        return tuple(_subst(v, var, by) for v in val)
    return val
