'''Assumed contracts of numpy / scipy.stats (A-numpy, scipy axioms of DESIGN.md 2.4).

Arrays are SArr: an element closure over a flat index.  Pointwise operations compose
closures (so element i of the result depends on element i of the operands: numpy's
definition of a ufunc on same-shaped operands / scalar broadcasting).  Basic slicing returns
a view (same buffer identity); arithmetic, copy, where, fancy indexing return fresh buffers.
'''
import ast
import z3

from . import theory as th
from .values import (SV, SObj, SClass, SNamespace, T, INT, BOOL, NUM, Undecided, lift, coerce, zsort,
                     seq_len, seq_arr, opt_is_none, opt_get)
from .engine import _b, PathEnd
from .libspec import Lib, SArr

_Z0 = z3.IntVal(0)


def _elem_term(I, x, dtype_hint='num'):
    '''scalar operand -> (closure, dtype)'''
    if isinstance(x, SArr):
        return x.elem, x.dtype
    if isinstance(x, bool):
        return (lambda i, v=z3.BoolVal(x): v), 'bool'
    if isinstance(x, int):
        return (lambda i, v=x: z3.IntVal(v)), 'int'
    if isinstance(x, float):
        return (lambda i, v=th.num_const(x): v), 'num'
    if isinstance(x, SV):
        if x.typ.kind == 'Num':
            return (lambda i, v=x.t: v), 'num'
        if x.typ.kind == 'Int':
            return (lambda i, v=x.t: v), 'int'
        if x.typ.kind == 'Bool':
            return (lambda i, v=x.t: v), 'bool'
    raise Undecided(f'array operand {x!r}')


def _to_num(e, dtype):
    if dtype == 'num':
        return e
    if dtype == 'int':
        return lambda i: th.Fin(z3.ToReal(e(i)))
    return lambda i: th.Fin(z3.If(e(i), z3.RealVal(1), z3.RealVal(0)))


class NumpyMixin:
    # -------------------------------------------------------------- construction
    def fresh_array(self, I, base, dtype='num', scalar=False, ndim=None, n=None, fresh_buf=False, shape=None):
        sort = {'num': th.Num, 'bool': z3.BoolSort(), 'int': z3.IntSort()}[dtype]
        A = z3.Const(I.path.name(base), z3.ArraySort(z3.IntSort(), sort))
        if scalar:
            size = z3.IntVal(1)
            shape = ()
        else:
            size = n if n is not None else z3.Int(I.path.name(base + '_n'))
            if n is None:
                I.path.assume(size >= 0)
        a = SArr(lambda i, A=A: A[i], size, dtype, self.new_buf(), scalar, shape)
        a.base = A
        return a

    def _like(self, a, elem, dtype=None, view=False):
        return SArr(elem, a.n, dtype or a.dtype, a.buf if view else self.new_buf(), a.scalar, a.shape)

    def _pair(self, I, a, b):
        '''broadcast shape carrier for a binary pointwise op'''
        arrs = [x for x in (a, b) if isinstance(x, SArr)]
        carrier = None
        for x in arrs:
            if not x.scalar:
                carrier = x
                break
        if carrier is None:
            carrier = arrs[0]
        non_scalar = [x for x in arrs if not x.scalar]
        if len(non_scalar) == 2:
            self.use('numpy: binary ufunc on same-shaped arrays is pointwise (shapes equal by Dataset consistency check)')
            if non_scalar[0].n is not non_scalar[1].n:
                I.path.assume(non_scalar[0].n == non_scalar[1].n)
        return carrier

    # -------------------------------------------------------------- operators
    def arr_binop(self, I, op, a, b):
        carrier = self._pair(I, a, b)
        ea, da = _elem_term(I, a)
        eb, db = _elem_term(I, b)
        self.use('numpy: arithmetic operators are pointwise ufuncs returning a fresh array')
        if isinstance(op, (ast.BitAnd, ast.BitOr)) and da == 'bool' and db == 'bool':
            f = z3.And if isinstance(op, ast.BitAnd) else z3.Or
            return self._like(carrier, lambda i: f(ea(i), eb(i)), 'bool')
        if isinstance(op, ast.Pow):
            if isinstance(b, int) and b == 2:
                if da == 'int':
                    return self._like(carrier, lambda i: ea(i) * ea(i), 'int')
                na = _to_num(ea, da)
                return self._like(carrier, lambda i: th.num_sq(na(i)), 'num')
            raise Undecided('array power other than 2')
        if da == 'int' and db == 'int' and not isinstance(op, ast.Div):
            f = {ast.Add: lambda x, y: x + y, ast.Sub: lambda x, y: x - y, ast.Mult: lambda x, y: x * y}.get(type(op))
            if f is None:
                raise Undecided('int array operator')
            return self._like(carrier, lambda i: f(ea(i), eb(i)), 'int')
        na, nb = _to_num(ea, da), _to_num(eb, db)
        f = {ast.Add: th.num_add, ast.Sub: th.num_sub, ast.Mult: th.num_mul, ast.Div: th.num_div}.get(type(op))
        if f is None:
            raise Undecided(f'array operator {type(op).__name__}')
        return self._like(carrier, lambda i: f(na(i), nb(i)), 'num')

    def arr_compare(self, I, op, a, b):
        carrier = self._pair(I, a, b)
        ea, da = _elem_term(I, a)
        eb, db = _elem_term(I, b)
        self.use('numpy: comparison operators are pointwise, IEEE semantics for nan')
        if da == 'bool' and db == 'bool':
            if isinstance(op, ast.Eq):
                return self._like(carrier, lambda i: ea(i) == eb(i), 'bool')
            if isinstance(op, ast.NotEq):
                return self._like(carrier, lambda i: ea(i) != eb(i), 'bool')
        if da == 'int' and db == 'int':
            f = {ast.Lt: lambda x, y: x < y, ast.LtE: lambda x, y: x <= y, ast.Gt: lambda x, y: x > y,
                 ast.GtE: lambda x, y: x >= y, ast.Eq: lambda x, y: x == y, ast.NotEq: lambda x, y: x != y}[type(op)]
            return self._like(carrier, lambda i: f(ea(i), eb(i)), 'bool')
        na, nb = _to_num(ea, da), _to_num(eb, db)
        f = {ast.Lt: th.num_lt, ast.LtE: th.num_le, ast.Gt: lambda x, y: th.num_lt(y, x),
             ast.GtE: lambda x, y: th.num_le(y, x), ast.Eq: th.num_eq, ast.NotEq: th.num_ne}[type(op)]
        return self._like(carrier, lambda i: f(na(i), nb(i)), 'bool')

    def arr_reduce_bool(self, I, a, universal):
        i = z3.Int(I.path.name('i'))
        rng = z3.And(0 <= i, i < a.n)
        if a.dtype != 'bool':
            e = _to_num(a.elem, a.dtype)
            body = z3.Not(th.is_zero(e(i)))
        else:
            body = a.elem(i)
        if a.scalar:
            return SV(BOOL, z3.substitute(body, (i, _Z0)))
        if universal:
            return SV(BOOL, z3.ForAll([i], z3.Implies(rng, body)))
        return SV(BOOL, z3.Exists([i], z3.And(rng, body)))

    # -------------------------------------------------------------- attributes / methods
    def arr_attr(self, I, a, name):
        if name == 'shape':
            if a.shape is not None:
                return a.shape
            return ShapeTok(a)
        if name == 'ndim':
            if a.scalar:
                return 0
            if isinstance(a.shape, tuple):
                return len(a.shape)
            f = th.func('ndim_of', z3.IntSort(), z3.IntSort())
            return SV(INT, f(z3.IntVal(id(a.n) % 100000)))
        if name == 'size':
            return SV(INT, a.n)
        if name == 'T':
            raise Undecided('array transpose')
        return NotImplemented

    def arr_method(self, I, a, name, args, kwargs):
        if name == 'copy':
            self.use('numpy: ndarray.copy returns a fresh buffer with equal elements')
            return self._like(a, a.elem)
        if name == 'squeeze':
            self.use('numpy: squeeze returns a view with the axes of length 1 removed')
            shape = a.shape
            if isinstance(shape, tuple):
                new = []
                for d in shape:
                    is1 = I.truth(I.equal(d, 1))
                    if isinstance(is1, bool):
                        if not is1:
                            new.append(d)
                    elif not I.path.cond(is1):
                        new.append(d)
                shape = tuple(new)
            return SArr(a.elem, a.n, a.dtype, a.buf, a.scalar, shape)
        if name in ('flatten',):
            self.use('numpy: flatten returns a fresh 1-d copy in C order (flat index = C order)')
            return SArr(a.elem, a.n, a.dtype, self.new_buf(), False, (SV(INT, a.n),))
        if name == 'reshape':
            self.use('numpy: reshape keeps the C-order flat sequence')
            return SArr(a.elem, a.n, a.dtype, a.buf, False, None)
        if name == 'all':
            return self.arr_reduce_bool(I, a, True)
        if name == 'any':
            return self.arr_reduce_bool(I, a, False)
        if name == 'item':
            return self.arr_item(I, a, _Z0)
        raise Undecided(f'ndarray.{name}')

    def arr_getitem(self, I, a, idx):
        if isinstance(idx, SArr) and idx.dtype == 'bool':
            self.use('numpy: boolean-mask selection keeps exactly the masked elements (fresh array)')
            return MaskedSel(a, idx)
        if isinstance(idx, SArr) and idx.dtype == 'int':
            self.use('numpy: integer-array indexing a[p] has element j equal to a[p[j]] (fresh array)')
            return SArr(lambda j, a=a, p=idx: a.elem(p.elem(j)), idx.n, a.dtype, self.new_buf(), False, idx.shape)
        if isinstance(idx, SObj) and idx.cls == 'slice':
            lo, hi = self.slice_bounds(I, idx, a.n)
            self.use('numpy/python: basic slice a[s] selects indices slice.indices(len) and is a view')
            n2 = z3.If(hi > lo, hi - lo, 0)
            r = SArr(lambda j, a=a, lo=lo: a.elem(lo + j), n2, a.dtype, a.buf, False, (SV(INT, n2),))
            r.view_of = (a, lo, hi)
            return r
        if isinstance(idx, tuple) and all(isinstance(x, SObj) and x.cls == 'slice' for x in idx):
            self.use('numpy: N-d basic slicing (opaque view; only the shape per axis is modelled)')
            if not isinstance(a.shape, tuple) or len(a.shape) != len(idx):
                raise Undecided('N-d slicing of an array of unknown rank')
            dims = []
            for s, d in zip(idx, a.shape):
                dd = d if isinstance(d, SV) else lift(d)
                lo, hi = self.slice_bounds(I, s, dd.t)
                dims.append(SV(INT, z3.If(hi > lo, hi - lo, 0)))
            n2 = z3.Int(I.path.name('nsl'))
            r = SArr(lambda j: z3.Const('opaque!elem', th.Num), n2, a.dtype, a.buf, False, tuple(dims))
            r.sliced_from = (a, idx)
            return r
        if isinstance(idx, (int, SV)):
            i = idx if isinstance(idx, SV) else lift(idx)
            I.require(z3.And(-a.n <= i.t, i.t < a.n), 'IndexError', 'array index')
            j = z3.If(i.t < 0, i.t + a.n, i.t)
            return self.arr_item(I, a, j)
        raise Undecided(f'array subscript {idx!r}')

    def slice_bounds(self, I, s, n):
        '''slice.indices(n) for unit step: (lo, hi) with 0 <= lo, hi <= n'''
        f = I.heap[s.oid]['fields']
        step = f['step']
        if step is not None:
            st = step if isinstance(step, SV) else lift(step)
            if st.typ.kind == 'Opt':
                I.require(z3.Or(opt_is_none(st), opt_get(st).t == 1), 'ValueError', 'unit step only')
            else:
                I.require(st.t == 1, 'ValueError', 'unit step only')

        def norm(v, default):
            if v is None:
                return default
            v = v if isinstance(v, SV) else lift(v)
            if v.typ.kind == 'Opt':
                x = opt_get(v).t
                t = z3.If(x < 0, z3.If(x + n < 0, _Z0, x + n), z3.If(x > n, n, x))
                return z3.If(opt_is_none(v), default, t)
            x = v.t
            return z3.If(x < 0, z3.If(x + n < 0, _Z0, x + n), z3.If(x > n, n, x))
        return norm(f['start'], _Z0), norm(f['stop'], n)

    def arr_setitem(self, I, a, idx, v, tgt, scope):
        if 'array_write' in I.hooks:
            I.hooks['array_write'](I, a)
        if isinstance(idx, SArr) and idx.dtype == 'bool':
            self.use('numpy: a[mask] = scalar writes the scalar exactly where the mask is true (in place)')
            ev, dv = _elem_term(I, v)
            if a.dtype == 'num':
                ev = _to_num(ev, dv)
            old = a.elem
            a.elem = lambda i, old=old, m=idx.elem, ev=ev: z3.If(m(i), ev(i), old(i))
            return
        raise Undecided('array item store')

    # -------------------------------------------------------------- np.* functions
    def np_namespace(self):
        ns = SNamespace('np')
        L = self

        def ufunc1(f_num, out='num', name=''):
            def g(I, x):
                L.use(f'numpy.{name}: pointwise')
                if isinstance(x, SArr):
                    e = _to_num(x.elem, x.dtype)
                    return L._like(x, lambda i: f_num(e(i)), out)
                x = x if isinstance(x, SV) else lift(x)
                r = f_num(coerce(x, NUM).t)
                return L.scalar_arr(I, r, out)
            return g

        def ufunc2(f_num, out='bool', name=''):
            def g(I, x, y):
                L.use(f'numpy.{name}: pointwise')
                x = L.list_to_arr(I, x)
                y = L.list_to_arr(I, y)
                if not isinstance(x, SArr) and not isinstance(y, SArr):
                    x2 = coerce(x if isinstance(x, SV) else lift(x), NUM)
                    y2 = coerce(y if isinstance(y, SV) else lift(y), NUM)
                    return L.scalar_arr(I, f_num(x2.t, y2.t), out)
                carrier = L._pair(I, x, y)
                ex, dx = _elem_term(I, x)
                ey, dy = _elem_term(I, y)
                nx, ny = _to_num(ex, dx), _to_num(ey, dy)
                return L._like(carrier, lambda i: f_num(nx(i), ny(i)), out)
            return g

        def logical(f):
            def g(I, x, y):
                L.use('numpy.logical_*: pointwise')
                carrier = L._pair(I, x, y)
                ex, dx = _elem_term(I, x)
                ey, dy = _elem_term(I, y)
                if dx != 'bool' or dy != 'bool':
                    raise Undecided('logical op on non-bool arrays')
                return L._like(carrier, lambda i: f(ex(i), ey(i)), 'bool')
            return g

        m = ns.members
        m['sqrt'] = ufunc1(th.num_sqrt, name='sqrt')
        m['fabs'] = ufunc1(th.num_abs, name='fabs')
        m['abs'] = m['fabs']
        m['nan'] = SV(NUM, th.NaN)
        m['inf'] = SV(NUM, th.PInf)
        m['hypot'] = ufunc2(th.num_hypot, out='num', name='hypot')
        m['isnan'] = ufunc1(lambda x: th.is_nan(x), 'bool', name='isnan')
        m['isclose'] = ufunc2(th.num_isclose, name='isclose')      # default tolerances only: keywords make the model undecided (signature mismatch)
        m['less'] = ufunc2(th.num_lt, name='less')
        m['less_equal'] = ufunc2(th.num_le, name='less_equal')
        m['greater'] = ufunc2(lambda x, y: th.num_lt(y, x), name='greater')
        m['greater_equal'] = ufunc2(lambda x, y: th.num_le(y, x), name='greater_equal')
        def logical_not(I, x):
            L.use('numpy.logical_not: pointwise')
            if x.dtype != 'bool':
                raise Undecided('logical_not on a non-bool array')
            return L._like(x, lambda i, e=x.elem: z3.Not(e(i)), 'bool')
        m['logical_not'] = logical_not
        m['logical_or'] = logical(z3.Or)
        m['logical_and'] = logical(z3.And)

        def zeros_like(I, x):
            L.use('numpy.zeros_like: fresh array of zeros with the shape of the argument')
            if x.dtype == 'num':
                return L._like(x, lambda i: th.Fin(z3.RealVal(0)))
            if x.dtype == 'int':
                return L._like(x, lambda i: _Z0)
            return L._like(x, lambda i: z3.BoolVal(False))
        m['zeros_like'] = zeros_like

        class ShapeOf:
            '''np.shape(a): only usable to build another array of that shape'''
            def __init__(self, arr):
                self.arr = arr

        def np_shape(I, x):
            if isinstance(x, SArr):
                return ShapeOf(x)
            raise Undecided('np.shape of a non-array')
        m['shape'] = np_shape

        def np_zeros(I, shape, dtype=None):
            if not isinstance(shape, ShapeOf):
                raise Undecided('np.zeros of an explicit shape')
            L.use('numpy.zeros(np.shape(a), dtype): fresh array of zeros / False with the shape of a')
            dn = dtype.name if isinstance(dtype, (SClass, SNamespace)) else dtype
            if dn in ('bool', 'bool_'):
                return L._like(shape.arr, lambda i: z3.BoolVal(False), 'bool')
            if dn in (None, 'float', 'float64', 'float_'):
                return L._like(shape.arr, lambda i: th.Fin(z3.RealVal(0)), 'num')
            raise Undecided(f'np.zeros dtype {dtype!r}')
        m['zeros'] = np_zeros

        def full_like(I, x, val, dtype=None):
            L.use('numpy.full_like: fresh array filled with the value, shape of the argument')
            if val is True or val is False:
                return L._like(x, lambda i, v=z3.BoolVal(val): v, 'bool')
            ev, dv = _elem_term(I, val)
            return L._like(x, ev, dv)
        m['full_like'] = full_like

        def np_any(I, x):
            if isinstance(x, SArr):
                return L.arr_reduce_bool(I, x, False)
            if isinstance(x, (list, tuple)):
                ts = [_b(I.truth(np_any(I, y))) for y in x]
                return SV(BOOL, z3.Or(*ts)) if ts else False
            return L.b_any(I, x)
        m['any'] = np_any

        def np_all(I, x):
            if isinstance(x, SArr):
                return L.arr_reduce_bool(I, x, True)
            if isinstance(x, (list, tuple)):
                ts = [_b(I.truth(np_all(I, y))) for y in x]
                return SV(BOOL, z3.And(*ts)) if ts else True
            return L.b_all(I, x)
        m['all'] = np_all

        def count_nonzero(I, x):
            L.use('numpy.count_nonzero: number of true elements (ghost card over the index set)')
            c = z3.Int(I.path.name('count'))
            x.count_term = c
            i = z3.Int(I.path.name('i'))
            e = x.elem if x.dtype == 'bool' else (lambda j, ee=_to_num(x.elem, x.dtype): z3.Not(th.is_zero(ee(j))))
            rng = z3.And(0 <= i, i < x.n)
            I.path.assume(z3.And(c >= 0, c <= x.n))
            I.path.assume((c == 0) == z3.Not(z3.Exists([i], z3.And(rng, e(i)))))
            I.path.assume((c == x.n) == z3.ForAll([i], z3.Implies(rng, e(i))))
            return SV(INT, c)
        m['count_nonzero'] = count_nonzero

        def array_equal(I, x, y):
            L.use('numpy.array_equal: same shape and all elements equal')
            i = z3.Int(I.path.name('i'))
            ex, ey = _to_num(x.elem, x.dtype), _to_num(y.elem, y.dtype)
            return SV(BOOL, z3.And(x.n == y.n, z3.ForAll([i], z3.Implies(z3.And(0 <= i, i < x.n), th.num_eq(ex(i), ey(i))))))
        m['array_equal'] = array_equal

        def np_array(I, x):
            if isinstance(x, SArr):
                return L._like(x, x.elem)
            if isinstance(x, SV) and x.typ.kind == 'Seq':
                L.use('numpy.array(list): element j is list[j]')
                dt = {'Num': 'num', 'Bool': 'bool', 'Int': 'int'}[x.typ.args[0].kind]
                return SArr(lambda j, x=x: seq_arr(x)[j], seq_len(x), dt, L.new_buf(), False, (SV(INT, seq_len(x)),))
            if isinstance(x, list) and len(x) == 1 and isinstance(x[0], SArr) and x[0].scalar:
                a = x[0]
                return SArr(lambda j, a=a: a.elem(_Z0), z3.IntVal(1), a.dtype, L.new_buf(), False, (1,))
            if isinstance(x, list) and len(x) == 1 and isinstance(x[0], SV):
                ev, dv = _elem_term(I, x[0])
                return SArr(ev, z3.IntVal(1), dv, L.new_buf(), False, (1,))
            raise Undecided('np.array of this argument')
        m['array'] = np_array

        def argsort(I, x):
            L.use('numpy.argsort: a permutation of the indices that sorts the 1-d array increasingly, nan last '
                  '(assumed; ties in unspecified order)')
            n = x.n
            if getattr(x, 'perm_inverse', None) is not None and getattr(x, 'perm', None) is not None:
                # argsort of a permutation (itself the result of an argsort) is its inverse permutation
                L.use('numpy.argsort of a permutation: the inverse permutation (assumed)')
                Qx, Px = x.perm_inverse, x.perm
                r = SArr(lambda k, Qx=Qx: Qx[k], n, 'int', L.new_buf(), False, (SV(INT, n),))
                r.perm, r.perm_inverse = Qx, Px
                return r
            P = z3.Const(I.path.name('perm'), z3.ArraySort(z3.IntSort(), z3.IntSort()))
            Q = z3.Const(I.path.name('perm_inv'), z3.ArraySort(z3.IntSort(), z3.IntSort()))
            i, j = z3.Int(I.path.name('i')), z3.Int(I.path.name('j'))
            rng_i = z3.And(0 <= i, i < n)
            I.path.assume(z3.ForAll([i], z3.Implies(rng_i, z3.And(0 <= P[i], P[i] < n, Q[P[i]] == i))))
            I.path.assume(z3.ForAll([i], z3.Implies(rng_i, z3.And(0 <= Q[i], Q[i] < n, P[Q[i]] == i))))
            if x.dtype == 'int':
                # argsort of a permutation is its inverse: only the sortedness fact is needed
                I.path.assume(z3.ForAll([i, j], z3.Implies(z3.And(0 <= i, i < j, j < n), x.elem(P[i]) <= x.elem(P[j]))))
            else:
                e = _to_num(x.elem, x.dtype)
                le = lambda a, b: z3.Or(th.is_nan(b), th.num_le(a, b))
                I.path.assume(z3.ForAll([i, j], z3.Implies(z3.And(0 <= i, i < j, j < n), le(e(P[i]), e(P[j])))))
            r = SArr(lambda k, P=P: P[k], n, 'int', L.new_buf(), False, (SV(INT, n),))
            r.perm_inverse = Q
            r.perm = P
            return r
        m['argsort'] = argsort

        def np_sum(I, x):
            return L.np_sum(I, x)
        m['sum'] = np_sum

        def float64(I, x):
            v = coerce(x if isinstance(x, SV) else lift(x), NUM)
            return L.scalar_arr(I, v.t, 'num')
        m['float64'] = float64
        m['float_'] = float64

        def int64(I, x):
            v = coerce(x if isinstance(x, SV) else lift(x), INT)
            return L.scalar_arr(I, v.t, 'int')
        m['int64'] = int64
        m['ndarray'] = SClass('ndarray')
        m['generic'] = SClass('generic')
        ma = SNamespace('np.ma')

        def masked_array(I, x, mask=None):
            L.use('numpy.ma.masked_array: wraps a copy-free view with a mask (opaque)')
            r = SArr(x.elem, x.n, x.dtype, x.buf, x.scalar, x.shape)
            r.masked = mask
            return r
        ma.members['masked_array'] = masked_array
        m['ma'] = ma
        return ns

    def list_to_arr(self, I, x):
        '''a Python list of 0-d values as a 1-d array (np.asarray of a list of scalars)'''
        if not isinstance(x, list) or not x:
            return x
        elems = []
        for v in x:
            if isinstance(v, SArr) and v.scalar:
                elems.append((_to_num(v.elem, v.dtype)(_Z0)))
            elif isinstance(v, SV) and v.typ.kind in ('Num', 'Int'):
                elems.append(coerce(v, NUM).t)
            elif isinstance(v, (int, float)):
                elems.append(th.num_const(v))
            else:
                return x

        def elem(i, elems=elems):
            t = elems[-1]
            for k in range(len(elems) - 2, -1, -1):
                t = z3.If(i == k, elems[k], t)
            return t
        return SArr(elem, z3.IntVal(len(elems)), 'num', self.new_buf(), False, (len(elems),))

    def scalar_arr(self, I, term, dtype):
        return SArr(lambda i, t=term: t, z3.IntVal(1), dtype, self.new_buf(), True, ())

    def np_sum(self, I, x):
        '''np.sum over an array or a masked selection: an uninterpreted function SUM(elements, mask, n) -- assumed to depend only on the
        multiset of selected elements (order independence is an assumption, not a theorem here)'''
        if isinstance(x, MaskedSel):
            arr, mask = x.arr, x.mask.elem
        elif isinstance(x, SArr):
            arr, mask = x, (lambda i: z3.BoolVal(True))
        else:
            raise Undecided('np.sum of this argument')
        i = z3.Int('i!sum')
        e = _to_num(arr.elem, arr.dtype)
        A = z3.Lambda([i], e(i))
        M = z3.Lambda([i], mask(i))
        SUM = th.func('np_sum', z3.ArraySort(z3.IntSort(), th.Num), z3.ArraySort(z3.IntSort(), z3.BoolSort()), z3.IntSort(), th.Num)
        self.use('numpy.sum: uninterpreted SUM(elements, mask, n); depends only on the selected multiset (assumed)')
        return self.scalar_arr(I, SUM(A, M, arr.n), 'num')


class ShapeTok:
    '''opaque shape of an array whose rank is not modelled; equality = same carrier size'''
    def __init__(self, arr):
        self.arr = arr


class MaskedSel:
    '''a[mask]: the sub-multiset of masked elements (consumed by np.sum)'''
    def __init__(self, arr, mask):
        self.arr, self.mask = arr, mask


for _k, _v in list(NumpyMixin.__dict__.items()):
    if not _k.startswith('__'):
        setattr(Lib, _k, _v)
