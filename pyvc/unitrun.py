'''child entry point: run one unit of a property module and dump its JSON-able result'''
import importlib
import json
import os
import sys
import time
import traceback

VERIF = os.path.dirname(os.path.dirname(os.path.abspath(__file__)))
sys.path.insert(0, VERIF)
sys.path.insert(0, os.environ.get('REPO', '/repo'))


def main():
    modname, unit, tier, seed, known_path, out_path = sys.argv[1:7]
    t0 = time.time()
    try:
        known = json.load(open(known_path)) if known_path != '-' else []
        mod = importlib.import_module(modname)
        out = mod.run_unit(unit, tier, int(seed), known)
        out.setdefault('unit', unit)
    except Exception:     # noqa
        out = {'unit': unit, 'crash': traceback.format_exc(limit=12)}
    out['wall_s'] = round(time.time() - t0, 3)
    for rec in out.get('lemmas', []) or []:
        rec.pop('model', None)
    with open(out_path, 'w') as f:
        json.dump(out, f, default=repr)


if __name__ == '__main__':
    main()
