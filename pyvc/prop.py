'''Helpers shared by the per-property contract modules: discharge obligations, replay
refutations natively, aggregate by obligation name.'''
import json
import os
import time
import traceback
import z3

from . import solve
from .values import Undecided

VERIF = os.path.dirname(os.path.dirname(os.path.abspath(__file__)))


def _jsonable(x):
    if isinstance(x, float):
        if x != x:
            return 'nan'
        if x in (float('inf'), float('-inf')):
            return 'inf' if x > 0 else '-inf'
        return x
    if isinstance(x, dict):
        return {str(k): _jsonable(v) for k, v in x.items()}
    if isinstance(x, (list, tuple)):
        return [_jsonable(v) for v in x]
    if isinstance(x, (int, str, bool)) or x is None:
        return x
    return repr(x)


def discharge(res, tier, pid, concretise=None, replay=None, known=None, bounded_search=None):
    '''Solve every obligation instance of a FunctionResult; aggregate per obligation name.

    concretise(model, res) -> JSON-able input ; replay(obligation_name, input) -> dict with
    'reproduced': bool.  Returns a JSON-able unit record.'''
    unit = {'function': res.contract.name, 'describe': res.describe, 'paths': res.paths,
            'paths_ended': res.paths_ended, 'dropped': res.dropped, 'lib_used': res.lib_used,
            'symexec_seconds': round(res.seconds, 3), 'obligations': []}
    if res.undecided:
        unit['undecided'] = res.undecided
        if not res.obligations:
            return unit
        # some paths left the modelled subset: the function as a whole is undecided, but what the other paths prove or refute stands
    timeout = solve.tier_timeout(tier)
    by_name = {}
    vcdir = os.path.join(os.environ.get('PYVC_EVIDENCE_DIR') or os.path.join(VERIF, 'evidence'), 'vc', pid)
    os.makedirs(vcdir, exist_ok=True)
    for o in res.obligations:
        by_name.setdefault(o['name'], []).append(o)
    for name, insts in by_name.items():
        rec = {'name': name, 'kind': insts[0]['kind'], 'instances': len(insts), 'expr': insts[0]['meta'].get('expr'),
               'status': 'discharged', 'backend': None, 'seconds': 0.0}
        for k, o in enumerate(insts):
            dump = os.path.join(vcdir, _safe(name) + f'.{k}.smt2') if len(insts) <= 40 else None
            try:
                v = solve.check(o['pc'], o['goal'], timeout, dump=dump, second=(tier == 'thorough'))
            except z3.Z3Exception as e:
                v = {'status': 'undecided', 'reason': f'z3 exception {e}', 'backend': 'z3', 'seconds': 0}
            rec['seconds'] = round(rec['seconds'] + v['seconds'], 4)
            rec['backend'] = rec['backend'] or v['backend']
            if v['status'] == 'discharged':
                if v.get('second'):
                    rec['second_solver'] = v['second']
                continue
            if v['status'] == 'solver-disagreement':
                rec['status'] = 'checker-error'
                rec['reason'] = 'z3 says unsat, cvc5 says sat'
                break
            if v['status'] == 'undecided':
                if rec['status'] == 'discharged':
                    rec['status'] = 'undecided'
                    rec['reason'] = v.get('reason')
                continue
            # refuted
            rec['status'] = 'refuted'
            rec['backend'] = v['backend']
            rec['path_decisions'] = o['decisions']
            model = v['model']
            try:
                inp = concretise(model, res) if concretise else None
            except Exception as e:      # noqa
                inp = {'concretise_error': repr(e)}
            rec['model_input'] = _jsonable(inp)
            rec['model_text'] = _model_text(model)
            if replay is not None and inp is not None and 'concretise_error' not in (inp if isinstance(inp, dict) else {}):
                try:
                    rp = replay(name, inp)
                except Exception as e:  # noqa
                    rp = {'reproduced': False, 'error': traceback.format_exc(limit=4)}
                rec['replay'] = _jsonable(rp)
            break
        unit['obligations'].append(rec)
    return unit


def _model_text(model, limit=4000):
    try:
        s = str(model)
    except Exception:   # noqa
        s = '<model>'
    return s[:limit]


def _safe(name):
    return ''.join(c if c.isalnum() or c in '._-' else '_' for c in name)[-150:]


def lemma(name, pc, goal, tier, pid, expr=None, assumptions=()):
    '''a stand-alone lemma obligation over contracts (no code walked)'''
    timeout = solve.tier_timeout(tier)
    vcdir = os.path.join(os.environ.get('PYVC_EVIDENCE_DIR') or os.path.join(VERIF, 'evidence'), 'vc', pid)
    os.makedirs(vcdir, exist_ok=True)
    v = solve.check(list(pc), goal, timeout, dump=os.path.join(vcdir, _safe(name) + '.smt2'), second=(tier == 'thorough'))
    rec = {'name': name, 'kind': 'lemma', 'instances': 1, 'expr': expr, 'status': v['status'],
           'backend': v['backend'], 'seconds': v['seconds']}
    if v['status'] == 'refuted':
        rec['model_text'] = _model_text(v['model'])
        rec['model'] = v['model']
    if v['status'] == 'undecided':
        rec['reason'] = v.get('reason')
    return rec
