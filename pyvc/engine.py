'''Symbolic executor over the Python AST of the real functions (DESIGN.md sections 2.1-2.5).

Paths are enumerated by *decision replay*: the interpreter is an ordinary recursive
interpreter; the only forking primitive is Path.cond(b).  A run is driven by a prescribed
list of decisions; a new fork point checks the feasibility of both sides, follows one and
queues the other.  Calls to repository functions use their sidecar contract (never the
body); loops use sidecar invariants; calls that leave the repository use pyvc/libspec.
'''
import ast
import copy
import z3

from . import theory as th
from .values import (SV, SObj, SClass, SFunc, SPartial, SBound, SNamespace, SPyExc, T, INT, BOOL, NUM, STR,
                     Undecided, parse_type, zsort, fresh, lift, coerce, opt_is_none, opt_get,
                     seq_len, seq_arr, seq_mk, seq_eq, map_dom, map_val, map_mk, map_eq, elem_eq)


class PathEnd(Exception):
    '''this path stops here (infeasible, or an inductive step was completed)'''


class PyRaise(Exception):
    def __init__(self, exc):
        super().__init__(exc.cls)
        self.exc = exc


class _Return(Exception):
    def __init__(self, value):
        self.value = value


class _Break(Exception):
    pass


class _Continue(Exception):
    pass


EXC_PARENTS = {
    'BaseException': None, 'Exception': 'BaseException', 'ArithmeticError': 'Exception',
    'ZeroDivisionError': 'ArithmeticError', 'LookupError': 'Exception', 'KeyError': 'LookupError',
    'IndexError': 'LookupError', 'ValueError': 'Exception', 'TypeError': 'Exception',
    'AttributeError': 'Exception', 'OSError': 'Exception', 'IOError': 'Exception',
    'FileNotFoundError': 'OSError', 'EOFError': 'Exception', 'RuntimeError': 'Exception',
    'AssertionError': 'Exception', 'StopIteration': 'Exception', 'UnicodeDecodeError': 'ValueError',
    'NotImplementedError': 'RuntimeError', 'ImportError': 'Exception', 'MemoryError': 'Exception',
    'RecursionError': 'RuntimeError', 'UnpicklingError': 'Exception', 'PicklingError': 'Exception',
    'SystemExit': 'BaseException', 'KeyboardInterrupt': 'BaseException', 'GeneratorExit': 'BaseException',
}
# IOError is an alias of OSError in Python 3
EXC_ALIAS = {'IOError': 'OSError', 'EnvironmentError': 'OSError'}


def exc_is_subclass(cls, parent):
    cls = EXC_ALIAS.get(cls, cls)
    parent = EXC_ALIAS.get(parent, parent)
    seen = 0
    while cls is not None and seen < 50:
        if cls == parent:
            return True
        cls = EXC_PARENTS.get(cls, 'Exception' if cls not in ('BaseException',) and cls not in EXC_PARENTS else None)
        cls = EXC_ALIAS.get(cls, cls)
        seen += 1
    return False


# ---------------------------------------------------------------------------------------
class Path:
    feas_timeout_ms = 800

    def __init__(self, decisions):
        self.decisions = list(decisions)
        self.taken = []
        self.alts = []
        self.pc = []
        self.obls = []
        self.assumed = []
        self.counter = 0
        self.nofork = 0
        self.guards = []
        self.bound = []
        self.trace = []
        self._solver = z3.Solver()
        self._solver.set('timeout', self.feas_timeout_ms)

    def name(self, base):
        self.counter += 1
        return f'{base}!{self.counter}'

    def assume(self, b):
        b = _b(b)
        self.pc.append(b)
        self._solver.add(b)

    def feasible(self, extra):
        self._solver.push()
        self._solver.add(extra)
        r = self._solver.check()
        self._solver.pop()
        return r != z3.unsat

    def cond(self, b):
        '''decide the truth of b on this path (forking primitive)'''
        if isinstance(b, bool):
            return b
        b = z3.simplify(b)
        if z3.is_true(b):
            return True
        if z3.is_false(b):
            return False
        if self.nofork:
            raise Undecided('fork inside a quantified / specification context')
        k = len(self.taken)
        if k < len(self.decisions):
            choice = self.decisions[k]
        else:
            can_t = self.feasible(b)
            can_f = self.feasible(z3.Not(b))
            if can_t and can_f:
                choice = True
                self.alts.append(self.taken + [False])
            elif can_t:
                choice = True
            elif can_f:
                choice = False
            else:
                raise PathEnd('infeasible')
        self.taken.append(choice)
        self.assume(b if choice else z3.Not(b))
        return choice

    def choose(self, n, label=''):
        '''non-deterministic n-way choice (loop rule: step / exit)'''
        k = len(self.taken)
        if k < len(self.decisions):
            choice = self.decisions[k]
        else:
            choice = 0
            for alt in range(1, n):
                self.alts.append(self.taken + [alt])
        self.taken.append(choice)
        return choice

    def oblige(self, name, goal, kind='post', meta=None):
        goal = _b(goal)
        g = list(self.guards)
        self.obls.append({'name': name, 'kind': kind, 'pc': list(self.pc) + g, 'goal': goal,
                          'meta': meta or {}, 'decisions': list(self.taken)})


def _b(x):
    if isinstance(x, bool):
        return z3.BoolVal(x)
    if isinstance(x, SV):
        if x.typ.kind == 'Bool':
            return x.t
        raise Undecided(f'not a boolean: {x}')
    return x


def explore(run, max_paths=4000):
    '''run(path) for every feasible decision sequence; returns the list of finished paths.'''
    work = [[]]
    done = []
    while work:
        if len(done) > max_paths:
            raise Undecided('too many paths')
        dec = work.pop()
        p = Path(dec)
        try:
            run(p)
            p.end = 'ok'
        except PathEnd as e:
            p.end = str(e)
        except Undecided as e:
            # outside the modelled subset on THIS path: the path decides nothing further, the others are still explored (their obligations stand)
            p.end = 'undecided: ' + str(e)[:300]
        work.extend(p.alts)
        done.append(p)
    return done


# ---------------------------------------------------------------------------------------
class Scope:
    def __init__(self, parent=None, vars=None, bound=False):
        self.parent = parent
        self.vars = vars if vars is not None else {}
        self.bound = bound            # scope of quantifier-bound variables (comprehension targets)
        self.aliases = {}             # name -> path alias of a nested container (x = d[k]; x.append(v) writes through to d[k])

    def find_alias(self, name):
        s = self
        while s is not None:
            if name in s.vars:
                return s.aliases.get(name)
            s = s.parent
        return None

    def lookup(self, name):
        s = self
        while s is not None:
            if name in s.vars:
                return s.vars[name]
            s = s.parent
        raise KeyError(name)

    def has(self, name):
        s = self
        while s is not None:
            if name in s.vars:
                return True
            s = s.parent
        return False

    def set(self, name, value):
        self.vars[name] = value


class Contract:
    '''Sidecar contract of one real function.'''
    def __init__(self, file, qual, params, returns=None, requires=(), ensures=(), signals=None,
                 signals_post=None, modifies=(), loops=None, attrs=None, kind='function', pure=False,
                 notes='', ghost=None, frame=(), body_hooks=None, self_type=None, variant=None, lemmas=()):
        self.file, self.qual = file, qual
        self.params = params            # ordered {name: type string}
        self.returns = returns
        self.requires = list(requires)
        self.ensures = list(ensures)    # [(label, expr)] or [expr]
        self.signals = signals          # {ExcName: condition expr or True} ; None = unconstrained
        self.signals_post = signals_post or {}
        self.modifies = list(modifies)
        self.loops = loops or {}
        self.kind = kind
        self.pure = pure
        self.notes = notes
        self.frame = list(frame)
        self.variant = variant
        self.lemmas = list(lemmas)    # [(label, expr)]: proved at the end of a normal path, then usable by the postconditions (cut)

    @property
    def name(self):
        if self.variant:
            return f'{self.file}::{self.qual}[{self.variant}]'
        return f'{self.file}::{self.qual}'


class LoopSpec:
    def __init__(self, header, invariant, vars=None, ghost='done', kind=None, ghost_init=(), ghost_step=(), ghost_names=()):
        self.header = header          # normalised text of the loop header (fingerprint)
        self.invariant = list(invariant)
        self.vars = vars or {}        # types of the variables the loop writes (havoc)
        self.ghost = ghost
        self.kind = kind
        # ghost code (Python statements as text): runs before the loop / at the end of every iteration; it may assign
        # ghost_names only (checked), so it cannot influence the program
        self.ghost_init = list(ghost_init)
        self.ghost_step = list(ghost_step)
        self.ghost_names = set(ghost_names)


class Interp:
    def __init__(self, path, world):
        self.path = path
        self.world = world            # World: contracts, class models, globals, spec defs
        self.heap = {}
        self.next_oid = 1
        self.entry_heap = None
        self.entry_scope = None
        self.fn_label = ''
        self.loop_ordinal = 0
        self.hooks = {}
        self.dropped = []
        self.in_spec = 0

    # ------------------------------------------------------------------ heap
    def alloc(self, cls, fields, fresh_obj=True):
        oid = self.next_oid
        self.next_oid += 1
        self.heap[oid] = {'cls': cls, 'fields': dict(fields), 'fresh': fresh_obj}
        return SObj(oid, cls)

    def snapshot_heap(self):
        return {oid: {'cls': o['cls'], 'fields': dict(o['fields']), 'fresh': o['fresh']}
                for oid, o in self.heap.items()}

    def getfield(self, obj, name):
        return self.heap[obj.oid]['fields'][name]

    def setfield(self, obj, name, value):
        self.heap[obj.oid]['fields'][name] = value

    def fresh(self, typ, base):
        v = fresh(typ, self.path.name(base))
        if v.typ.kind == 'Seq':
            self.path.assume(seq_len(v) >= 0)       # len() of a Python sequence is never negative
        if v.typ.kind == 'Map' and v.typ.args[1].kind == 'Seq':
            k = z3.Const('k!ln', zsort(v.typ.args[0]))
            inner = SV(v.typ.args[1], map_val(v)[k])
            self.path.assume(z3.ForAll([k], seq_len(inner) >= 0))     # lists stored in a dict have non-negative lengths too
        if v.typ.kind == 'Seq' and v.typ.args[0].kind == 'Seq':
            i = z3.Int('i!ln')
            inner = SV(v.typ.args[0], seq_arr(v)[i])
            self.path.assume(z3.ForAll([i], seq_len(inner) >= 0))
        if v.typ.kind == 'Map' and v.typ.default:
            # normal form of defaultdict-typed maps: missing keys carry the factory value
            k = z3.Const('k!dm', zsort(v.typ.args[0]))
            self.path.assume(z3.ForAll([k], z3.Implies(z3.Not(map_dom(v)[k]), map_val(v)[k] == self.world.lib.empty_of(self, v.typ.args[1]).t)))
        return v

    # ------------------------------------------------------------------ truthiness
    def truth(self, v):
        '''value -> python bool or z3 Bool'''
        if isinstance(v, bool):
            return v
        if v is None:
            return False
        if isinstance(v, z3.BoolRef):
            return v
        if isinstance(v, (int, float, str, tuple, list, dict, set, frozenset)):
            return bool(v)
        if isinstance(v, SV):
            k = v.typ.kind
            if k == 'Bool':
                return v.t
            if k == 'Int':
                return v.t != 0
            if k == 'Num':
                return z3.Not(th.is_zero(v.t))
            if k == 'Opt':
                inner = self.truth(opt_get(v))
                return z3.And(z3.Not(opt_is_none(v)), _b(inner))
            if k == 'Seq':
                return seq_len(v) > 0
            if k == 'Str':
                return z3.Length(v.t) > 0
            if k == 'Set':
                return v.t != z3.K(zsort(v.typ.args[0]), z3.BoolVal(False))
            if k == 'Map':
                return map_dom(v) != z3.K(zsort(v.typ.args[0]), z3.BoolVal(False))
            if k == 'Ref':
                f = getattr(self.world, 'ref_truth', {}).get(v.typ.args[0])
                return f(v.t) if f is not None else True
            if k == 'Enum':
                return True
            if k == 'Tuple':
                return len(v.typ.args) > 0
        if isinstance(v, SObj):
            model = self.world.class_model(v.cls)
            if model is not None and hasattr(model, 'm___bool__'):
                return self.truth(model.m___bool__(self, v))
            if model is not None and hasattr(model, 'm___len__'):
                n = model.m___len__(self, v)
                return self.truth(n)
            return True
        if isinstance(v, (SFunc, SClass, SNamespace, SPartial, SBound)):
            return True
        lib = self.world.lib_truth(self, v)
        if lib is not None:
            return lib
        raise Undecided(f'truth of {v!r}')

    def decide(self, v):
        '''python bool for control flow (forks)'''
        t = self.truth(v)
        if isinstance(t, bool):
            return t
        return self.path.cond(t)

    # ------------------------------------------------------------------ raising
    def raise_(self, cls, *args):
        raise PyRaise(SPyExc(cls, args))

    def require(self, condition, exc, label=''):
        '''In code mode: fork, raising exc when the condition fails.  In no-fork mode the
        operation is total and a definedness obligation is recorded.'''
        condition = _b(condition)
        if self.path.nofork:
            if not self.in_spec:
                self.path.oblige(f'{self.fn_label}::defined::{label or exc}', condition, kind='defined')
            return
        if not self.path.cond(condition):
            self.raise_(exc)

    # ------------------------------------------------------------------ merge (no-fork ite)
    def merge(self, c, a, b):
        if isinstance(c, bool):
            return a if c else b
        if a is b:
            return a
        if not isinstance(a, SV) and not isinstance(b, SV):
            if type(a) is type(b) and a == b and not isinstance(a, (SObj,)):
                return a
        if a is None or b is None:
            other = b if a is None else a
            if other is None:
                return None
            o = other if isinstance(other, SV) else lift(other)
            typ = o.typ if o.typ.kind == 'Opt' else T('Opt', o.typ)
            return SV(typ, z3.If(c, lift(a, typ).t if a is None else coerce(lift(a), typ).t,
                                 lift(b, typ).t if b is None else coerce(lift(b), typ).t))
        if isinstance(a, tuple) and isinstance(b, tuple) and len(a) == len(b):
            return tuple(self.merge(c, x, y) for x, y in zip(a, b))
        if isinstance(a, SV) and a.typ.kind in ('Seq', 'Set') and isinstance(b, (tuple, list, set, frozenset)):
            b = lift(b, a.typ)
        if isinstance(b, SV) and b.typ.kind in ('Seq', 'Set') and isinstance(a, (tuple, list, set, frozenset)):
            a = lift(a, b.typ)
        a2 = a if isinstance(a, SV) else lift(a)
        b2 = b if isinstance(b, SV) else lift(b)
        if a2.typ != b2.typ:
            if a2.typ.kind == 'Opt' and b2.typ == a2.typ.args[0]:
                b2 = coerce(b2, a2.typ)
            elif b2.typ.kind == 'Opt' and a2.typ == b2.typ.args[0]:
                a2 = coerce(a2, b2.typ)
            elif NUM in (a2.typ, b2.typ):
                a2, b2 = coerce(a2, NUM), coerce(b2, NUM)
            elif INT in (a2.typ, b2.typ) and BOOL in (a2.typ, b2.typ):
                a2, b2 = coerce(a2, INT), coerce(b2, INT)
            else:
                raise Undecided(f'merge of {a2.typ} and {b2.typ}')
        return SV(a2.typ, z3.If(c, a2.t, b2.t))

    # ------------------------------------------------------------------ expressions
    def eval(self, node, scope):
        m = getattr(self, 'e_' + type(node).__name__, None)
        if m is None:
            raise Undecided(f'expression {type(node).__name__} outside the subset (line {getattr(node, "lineno", "?")})')
        return m(node, scope)

    def e_Constant(self, node, scope):
        return node.value

    def e_Name(self, node, scope):
        try:
            v = scope.lookup(node.id)
            al = scope.find_alias(node.id)
            if al is not None and al['stale']:
                raise Undecided(f'{node.id} aliases {al["base_txt"]}[...] which was modified through another path')
            if type(v).__name__ == 'DeadAfterLoop':
                raise Undecided(f'{node.id} is read after the loop that assigns it (value not tracked by the loop contract)')
            return v
        except KeyError:
            pass
        g = self.world.global_name(self, node.id)
        if g is not None:
            return g
        raise Undecided(f'unknown name {node.id}')

    def e_Tuple(self, node, scope):
        return tuple(self.eval(e, scope) for e in node.elts)

    def e_List(self, node, scope):
        items = [self.eval(e, scope) for e in node.elts]
        return self.world.lib.make_list(self, items)

    def e_Set(self, node, scope):
        items = [self.eval(e, scope) for e in node.elts]
        return self.world.lib.make_set(self, items)

    def e_Dict(self, node, scope):
        if any(k is None for k in node.keys):
            return self._dict_display_with_unpacking(node, scope)
        keys = [self.eval(k, scope) for k in node.keys]
        vals = [self.eval(v, scope) for v in node.values]
        return self.world.lib.make_dict(self, keys, vals)

    def _dict_display_with_unpacking(self, node, scope):
        '''{k: v, **m, ...}: entries are applied from left to right, a later entry replaces an earlier one with the same key'''
        from .values import map_mk, map_dom, map_val
        parts = [(None if k is None else self.eval(k, scope), self.eval(v, scope)) for k, v in zip(node.keys, node.values)]
        maps = [v for k, v in parts if k is None]
        if all(isinstance(m, dict) for m in maps):
            out = {}
            for k, v in parts:
                if k is None:
                    out.update(v)
                else:
                    out[k] = v
            return out
        typ = next((m.typ for m in maps if isinstance(m, SV) and m.typ.kind == 'Map'), None)
        if typ is None or not all(isinstance(m, SV) and m.typ == typ for m in maps):
            raise Undecided('dictionary display unpacking values of different kinds')
        kt, vt = typ.args
        cur = self.world.lib.empty_of(self, typ)
        for k, v in parts:
            if k is None:
                q = z3.Const(self.path.name('k!unpack'), zsort(kt))
                dom = z3.Lambda([q], z3.Or(map_dom(cur)[q], map_dom(v)[q]))
                val = z3.Lambda([q], z3.If(map_dom(v)[q], map_val(v)[q], map_val(cur)[q]))
                cur = map_mk(typ, dom, val)
            else:
                kk = coerce(k if isinstance(k, SV) else lift(k, kt), kt)
                vv = coerce(v if isinstance(v, SV) else lift(v, vt), vt)
                cur = map_mk(typ, z3.Store(map_dom(cur), kk.t, True), z3.Store(map_val(cur), kk.t, vv.t))
        return cur

    def e_JoinedStr(self, node, scope):
        return self.world.lib.fstring(self, node, scope)

    def e_Lambda(self, node, scope):
        return SFunc(node, scope)

    def e_IfExp(self, node, scope):
        c = self.truth(self.eval(node.test, scope))
        if isinstance(c, bool):
            return self.eval(node.body if c else node.orelse, scope)
        if self.path.nofork:
            self.path.guards.append(c)
            try:
                a = self.eval(node.body, scope)
            finally:
                self.path.guards.pop()
            self.path.guards.append(z3.Not(c))
            try:
                b = self.eval(node.orelse, scope)
            finally:
                self.path.guards.pop()
            return self.merge(c, a, b)
        if self.path.cond(c):
            return self.eval(node.body, scope)
        return self.eval(node.orelse, scope)

    def e_BoolOp(self, node, scope):
        is_and = isinstance(node.op, ast.And)
        if self.path.nofork:
            terms = []
            pushed = 0
            try:
                for v in node.values:
                    t = self.truth(self.eval(v, scope))
                    if isinstance(t, bool):
                        if t != is_and:          # absorbing element
                            return t
                        continue
                    terms.append(t)
                    self.path.guards.append(t if is_and else z3.Not(t))
                    pushed += 1
            finally:
                for _ in range(pushed):
                    self.path.guards.pop()
            if not terms:
                return is_and
            return SV(BOOL, z3.And(*terms) if is_and else z3.Or(*terms))
        # code mode: Python's value-returning short circuit
        val = None
        for i, v in enumerate(node.values):
            val = self.eval(v, scope)
            if i == len(node.values) - 1:
                return val
            d = self.decide(val)
            if d != is_and:
                return val
        return val

    def e_UnaryOp(self, node, scope):
        v = self.eval(node.operand, scope)
        if isinstance(node.op, ast.Not):
            t = self.truth(v)
            if isinstance(t, bool):
                return not t
            return SV(BOOL, z3.Not(t))
        if isinstance(node.op, ast.USub):
            return self.binop(ast.Sub(), 0, v)
        if isinstance(node.op, ast.UAdd):
            return v
        if isinstance(node.op, ast.Invert):
            return self.world.lib.invert(self, v)
        raise Undecided('unary op')

    def e_BinOp(self, node, scope):
        a = self.eval(node.left, scope)
        b = self.eval(node.right, scope)
        return self.binop(node.op, a, b)

    def e_Compare(self, node, scope):
        left = self.eval(node.left, scope)
        result = None
        for op, rn in zip(node.ops, node.comparators):
            right = self.eval(rn, scope)
            r = self.compare(op, left, right)
            if result is None:
                result = r
            else:
                ta, tb = self.truth(result), self.truth(r)
                if isinstance(ta, bool) and isinstance(tb, bool):
                    result = ta and tb
                else:
                    result = SV(BOOL, z3.And(_b(ta), _b(tb)))
            left = right
        return result

    def e_Attribute(self, node, scope):
        recv = self.eval(node.value, scope)
        return self.getattr(recv, node.attr)

    def e_Subscript(self, node, scope):
        recv = self.eval(node.value, scope)
        idx = self.eval(node.slice, scope)
        if isinstance(recv, SV) and recv.typ.kind == 'Map' and recv.typ.default and not self.in_spec:
            new, val = self.world.lib.dmap_get(self, recv, idx)
            self.world.lib.write_back(self, node.value, new, scope)
            return val
        if isinstance(recv, SV) and recv.typ.kind == 'Map' and recv.typ.default and self.in_spec:
            # specification reading of a defaultdict: the entry, or the empty value when missing (no insertion)
            _, val = self.world.lib.dmap_get(self, recv, idx)
            return val
        return self.world.lib.getitem(self, recv, idx)

    def e_Slice(self, node, scope):
        lo = self.eval(node.lower, scope) if node.lower else None
        hi = self.eval(node.upper, scope) if node.upper else None
        st = self.eval(node.step, scope) if node.step else None
        return self.alloc('slice', {'start': lo, 'stop': hi, 'step': st})

    def e_Starred(self, node, scope):
        raise Undecided('starred expression')

    def e_ListComp(self, node, scope):
        return self.world.lib.comprehension(self, node, scope, 'list')

    def e_SetComp(self, node, scope):
        return self.world.lib.comprehension(self, node, scope, 'set')

    def e_DictComp(self, node, scope):
        return self.world.lib.comprehension(self, node, scope, 'dict')

    def e_GeneratorExp(self, node, scope):
        return GenExp(node, scope)

    def e_Call(self, node, scope):
        # spec vocabulary and dropped calls first
        f = node.func
        if isinstance(f, ast.Name):
            if f.id == 'old' and self.in_spec:
                return self.eval_old(node.args[0], scope)
            if f.id in ('same', 'same_content') and self.in_spec:
                a = self.eval(node.args[0], scope)
                b = self.eval(node.args[1], scope)
                if not isinstance(a, SV) and isinstance(b, SV):
                    a = lift(a, b.typ)
                a = a if isinstance(a, SV) else lift(a)
                b = b if isinstance(b, SV) else lift(b, a.typ)
                if a.typ != b.typ:
                    b = coerce(b, a.typ)
                if f.id == 'same_content' and a.typ.kind == 'Seq':
                    return SV(BOOL, seq_eq(a, b))          # same content (positions beyond the length are irrelevant)
                if f.id == 'same_content' and a.typ.kind == 'Map':
                    return SV(BOOL, map_eq(a, b))
                return SV(BOOL, a.t == b.t)
            if f.id in ('implies', 'iff') and self.in_spec:
                a = self.truth(self.eval(node.args[0], scope))
                if f.id == 'implies' and isinstance(a, bool):
                    if not a:
                        return True
                    return self.eval(node.args[1], scope)
                a = _b(a)
                self.path.guards.append(a)
                try:
                    b = _b(self.truth(self.eval(node.args[1], scope)))
                finally:
                    self.path.guards.pop()
                return SV(BOOL, z3.Implies(a, b) if f.id == 'implies' else (a == b))
        if isinstance(f, ast.Name) and f.id in getattr(self.world, 'dropped_names', ()):
            self.dropped.append(f'{f.id}(...) line {node.lineno}')
            return None
        if isinstance(f, ast.Attribute) and isinstance(f.value, ast.Name):
            ns = None
            try:
                ns = self.e_Name(f.value, scope)
            except Undecided:
                ns = None
            if isinstance(ns, SNamespace) and ns.dropped:
                self.dropped.append(f'{ns.name}.{f.attr}(...) line {node.lineno}')
                # the arguments of a dropped call are not evaluated, except for one effect that outlives the call: a generator bound to a name and unrolled
                # there (list(gen), sorted(gen), ', '.join(gen) ...) is exhausted afterwards
                if not self.in_spec:
                    for sub in [n for a in list(node.args) + [k.value for k in node.keywords] for n in ast.walk(a)]:
                        if isinstance(sub, ast.Call) and ((isinstance(sub.func, ast.Name) and sub.func.id in ('list', 'tuple', 'sorted', 'set', 'frozenset', 'sum', 'any', 'all',
                                                                                                               'max', 'min', 'dict', 'len'))
                                                          or (isinstance(sub.func, ast.Attribute) and sub.func.attr in ('join', 'extend'))):
                            for a2 in sub.args:
                                if isinstance(a2, ast.Name) and scope.has(a2.id) and isinstance(scope.lookup(a2.id), GenExp):
                                    scope.lookup(a2.id).consumed = True
                if f.attr == 'isEnabledFor':
                    # the level of a logger is not part of the program state under contract: both answers are explored (False inside specifications)
                    if self.path.nofork or self.in_spec:
                        return False
                    return self.path.choose(2, 'logger-level') == 1
                return None
        if (isinstance(f, ast.Attribute) and isinstance(f.value, ast.Call) and isinstance(f.value.func, ast.Name) and f.value.func.id == 'super'
                and not f.value.args and not self.in_spec):
            # super().m(...): the parent's method through its (assumed or verified) contract, supplied by the world
            hook = getattr(self.world, 'super_call', None)
            if hook is None:
                raise Undecided(f'super().{f.attr}(...) without a contract of the parent class')
            me = scope.lookup('self') if scope.has('self') else None
            sargs = [self.eval(a, scope) for a in node.args]
            skw = {k.arg: self.eval(k.value, scope) for k in node.keywords}
            return hook(self, me, f.attr, sargs, skw)
        if isinstance(f, ast.Attribute) and f.attr in MUTATORS:
            recv = self.eval(f.value, scope)
            if isinstance(recv, SV) and recv.typ.kind in ('Seq', 'Set', 'Map'):
                margs = [self.eval(a, scope) for a in node.args]
                new, result = self.world.lib.mutate(self, recv, f.attr, margs)
                self.world.lib.write_back(self, f.value, new, scope)
                return result
            func = SBound(recv, f.attr) if not isinstance(recv, (SObj, SNamespace, SClass)) else self.getattr(recv, f.attr)
        else:
            func = self.eval(f, scope)
        args = []
        for a in node.args:
            if isinstance(a, ast.Starred):
                v = self.eval(a.value, scope)
                if isinstance(v, (tuple, list)):
                    args.extend(v)
                else:
                    raise Undecided('*args of symbolic length')
            else:
                args.append(self.eval(a, scope))
        kwargs = {}
        for kw in node.keywords:
            if kw.arg is None:
                kwargs['**'] = self.eval(kw.value, scope)
                continue
            kwargs[kw.arg] = self.eval(kw.value, scope)
        if isinstance(kwargs.get('**'), dict):
            extra = kwargs.pop('**')
            kwargs.update(extra)
        return self.call(func, args, kwargs, node)

    def eval_old(self, expr, scope):
        saved_heap = self.heap
        self.heap = self.entry_heap
        base = self.entry_scope if self.entry_scope is not None else scope
        # quantifier-bound variables of the enclosing specification stay visible inside old(...)
        bound = {}
        s = scope
        while s is not None and s.bound:
            for k, v in s.vars.items():
                bound.setdefault(k, v)
            s = s.parent
        if bound:
            base = Scope(base, bound)
        try:
            return self.eval(expr, base)
        finally:
            self.heap = saved_heap

    # ------------------------------------------------------------------ calls
    def call(self, func, args, kwargs, node=None):
        if isinstance(func, SPartial):
            kw = dict(func.kwargs)
            kw.update(kwargs)
            return self.call(func.func, list(func.args) + list(args), kw, node)
        if isinstance(func, SFunc):
            return self.inline(func, args, kwargs)
        if isinstance(func, SBound):
            return self.call_method(func.recv, func.name, args, kwargs, node)
        if isinstance(func, SClass):
            return self.world.construct(self, func, args, kwargs, node)
        if isinstance(func, SNamespace) and func.name in self.world.construct_hooks:
            return self.world.construct_hooks[func.name](self, args, kwargs)
        if callable(func):
            try:
                return func(self, *args, **kwargs)
            except TypeError as e:
                # a library model called with a signature it does not describe (extra keyword, other arity): outside the modelled subset, not a crash
                msg = str(e)
                if 'unexpected keyword argument' in msg or 'positional argument' in msg or 'required keyword-only' in msg or 'multiple values for argument' in msg:
                    raise Undecided(f'library model does not describe this call: {msg[:160]}') from None
                raise
        raise Undecided(f'call of {func!r}')

    def call_method(self, recv, name, args, kwargs, node=None):
        if isinstance(recv, SClass):
            c = self.world.contract_for(recv.name, name)
            if c is not None:
                return self.apply_contract(c, args, kwargs, recv=recv, node=node)
            raise Undecided(f'no contract for {recv.name}.{name}')
        if isinstance(recv, SObj) and recv.cls == 'slice':
            return self.world.lib.slice_method(self, recv, name, args, kwargs)
        if isinstance(recv, SObj):
            if 'call' in self.hooks:
                self.hooks['call'](self, recv, name, args, kwargs, 'before')
            c = self.world.contract_for(recv.cls, name)
            if c is not None:
                r = self.apply_contract(c, args, kwargs, recv=recv, node=node)
            else:
                model = self.world.class_model(recv.cls)
                m = getattr(model, 'm_' + name, None) if model is not None else None
                if m is None:
                    raise Undecided(f'no contract or model for {recv.cls}.{name}')
                r = m(self, recv, *args, **kwargs)
            if 'call' in self.hooks:
                self.hooks['call'](self, recv, name, args, kwargs, 'after')
            return r
        return self.world.lib.method(self, recv, name, args, kwargs, node)

    def bind_params(self, fnode, args, kwargs, scope, self_value=None):
        a = fnode.args
        names = [x.arg for x in a.posonlyargs + a.args]
        defaults = a.defaults
        new = Scope(scope)
        pos = list(args)
        star = kwargs.pop('**', None)
        if star is not None:
            if isinstance(star, dict):
                kwargs.update(star)
            elif a.kwarg is not None and not kwargs:
                kwargs = {}
                new.set(a.kwarg.arg, star)
            else:
                raise Undecided('** of a symbolic mapping into named parameters')
        if self_value is not None:
            pos = [self_value] + pos
        if len(pos) > len(names) and a.vararg is None:
            raise Undecided('too many positional arguments')
        for n, v in zip(names, pos):
            new.set(n, v)
        if a.vararg is not None:
            new.set(a.vararg.arg, tuple(pos[len(names):]))
        ndef = len(defaults)
        for i, n in enumerate(names):
            if i < len(pos):
                continue
            if n in kwargs:
                new.set(n, kwargs.pop(n))
            else:
                j = i - (len(names) - ndef)
                if j < 0:
                    raise Undecided(f'missing argument {n}')
                new.set(n, self.eval(defaults[j], scope))
        for kwo, d in zip(a.kwonlyargs, a.kw_defaults):
            if kwo.arg in kwargs:
                new.set(kwo.arg, kwargs.pop(kwo.arg))
            elif d is not None:
                new.set(kwo.arg, self.eval(d, scope))
            else:
                raise Undecided(f'missing keyword argument {kwo.arg}')
        if kwargs:
            if a.kwarg is not None:
                new.set(a.kwarg.arg, dict(kwargs))
            else:
                raise Undecided(f'unexpected keyword arguments {list(kwargs)}')
        elif a.kwarg is not None and not new.has(a.kwarg.arg):
            new.set(a.kwarg.arg, {})
        return new

    def inline(self, func, args, kwargs):
        node = func.node
        new = self.bind_params(node, args, dict(kwargs), func.scope)
        if isinstance(node, ast.Lambda):
            return self.eval(node.body, new)
        if self.path.nofork:
            return self.inline_nofork(node, new)
        # a container handed to an inlined function is the caller's: an in-place change made by the callee would be lost by the value semantics -> undecided
        for pname, pval in list(new.vars.items()):
            if isinstance(pval, SV) and pval.typ.kind in ('Seq', 'Set', 'Map'):
                new.aliases[pname] = {'unknown': 'an argument of an inlined call', 'base_txt': '?', 'key': None, 'stale': False}
        try:
            self.exec_block(_strip_doc(node.body), new)
        except _Return as r:
            return r.value
        return None

    def inline_nofork(self, node, scope):
        '''function body as an expression: if/return chains only (spec functions, _swapper)'''
        def block(stmts):
            for i, st in enumerate(stmts):
                if isinstance(st, ast.Return):
                    return self.eval(st.value, scope) if st.value else None
                if isinstance(st, ast.If):
                    c = self.truth(self.eval(st.test, scope))
                    rest = stmts[i + 1:]
                    if isinstance(c, bool):
                        return block((st.body if c else st.orelse) + rest)
                    self.path.guards.append(c)
                    try:
                        a = block(st.body + rest)
                    finally:
                        self.path.guards.pop()
                    self.path.guards.append(z3.Not(c))
                    try:
                        b = block(st.orelse + rest)
                    finally:
                        self.path.guards.pop()
                    return self.merge(c, a, b)
                if isinstance(st, ast.Assign) and len(st.targets) == 1 and isinstance(st.targets[0], ast.Name):
                    scope.set(st.targets[0].id, self.eval(st.value, scope))
                    continue
                if isinstance(st, ast.Expr) and isinstance(st.value, ast.Constant):
                    continue
                raise Undecided(f'statement {type(st).__name__} in a function used inside a quantifier')
            return None
        return block(_strip_doc(node.body))

    # ------------------------------------------------------------------ contracts at call sites
    def apply_contract(self, c, args, kwargs, recv=None, node=None):
        fn = self.world.fn_ast(c)
        selfv = None
        if fn.args.args and fn.args.args[0].arg in ('self', 'cls') and not _is_static(fn):
            selfv = recv
        scope = self.bind_params(fn, args, dict(kwargs), Scope(None, {}), self_value=selfv)
        label = f'{self.fn_label}::pre@call::{c.qual}'
        saved = (self.entry_heap, self.entry_scope)
        # preconditions
        self.path.nofork += 1
        self.in_spec += 1
        try:
            for i, r in enumerate(c.requires):
                t = self.truth(self.eval(_parse(r), scope))
                self.path.oblige(f'{label}::{i}', t, kind='pre@call', meta={'expr': r})
                self.path.assume(_b(t))
        finally:
            self.in_spec -= 1
            self.path.nofork -= 1
        # havoc + assume post
        call_heap = self.snapshot_heap()
        call_scope = Scope(None, dict(scope.vars))
        for m in c.modifies:
            self.havoc_path(m, scope)
        if c.returns is None:
            result = None
        elif c.returns == '=self':
            result = recv
        else:
            result = self.world.fresh_value(self, c.returns, 'ret_' + c.qual.split('.')[-1])
        scope.set('returned', result)
        if 'result' not in c.params:
            scope.set('result', result)
        # exceptional outcomes
        if c.signals:
            for exc, condition in c.signals.items():
                if condition is True:
                    flag = z3.Bool(self.path.name('raises_' + exc))
                else:
                    self.path.nofork += 1
                    self.in_spec += 1
                    self.entry_heap, self.entry_scope = call_heap, call_scope
                    try:
                        flag = _b(self.truth(self.eval(_parse(condition), scope)))
                    finally:
                        self.entry_heap, self.entry_scope = saved
                        self.in_spec -= 1
                        self.path.nofork -= 1
                if self.path.nofork:
                    self.path.oblige(f'{self.fn_label}::defined::{c.qual}-raises-{exc}', z3.Not(flag), kind='defined')
                    continue
                if self.path.cond(flag):
                    self.raise_(exc)
        self.path.nofork += 1
        self.in_spec += 1
        self.entry_heap, self.entry_scope = call_heap, call_scope
        try:
            for e in c.ensures:
                expr = e[1] if isinstance(e, tuple) else e
                self.path.assume(_b(self.truth(self.eval(_parse(expr), scope))))
        finally:
            self.entry_heap, self.entry_scope = saved
            self.in_spec -= 1
            self.path.nofork -= 1
        return result

    def havoc_path(self, pathexpr, scope):
        '''havoc "obj.field" (one level) or a bare name bound to a heap object field'''
        node = _parse(pathexpr)
        if isinstance(node, ast.Attribute):
            obj = self.eval(node.value, scope)
            if not isinstance(obj, SObj):
                raise Undecided(f'cannot havoc {pathexpr}')
            old = self.getfield(obj, node.attr)
            self.setfield(obj, node.attr, self.world.havoc_like(self, old, node.attr))
            return
        raise Undecided(f'cannot havoc {pathexpr}')

    # ------------------------------------------------------------------ attributes
    def getattr(self, recv, name):
        if isinstance(recv, SNamespace):
            if name in recv.members:
                return recv.members[name]
            g = self.world.lib.namespace_attr(self, recv, name)
            if g is not None:
                return g
            raise Undecided(f'{recv.name}.{name} unknown')
        if isinstance(recv, SObj):
            o = self.heap[recv.oid]
            if name in o['fields']:
                return o['fields'][name]
            model = self.world.class_model(recv.cls)
            if model is not None and hasattr(model, 'p_' + name):
                return getattr(model, 'p_' + name)(self, recv)
            if name == '__class__':
                return SClass(recv.cls)
            prop = self._real_property(recv.cls, name)
            if prop is not None:
                # a @property of the receiver's own class, defined in the file under verification: its real body is inlined
                return self.inline(SFunc(prop, Scope(None, {}), name), [recv], {})
            return SBound(recv, name)
        if isinstance(recv, SClass):
            v = self.world.class_attr(self, recv, name)
            if v is not None:
                return v
            return SBound(recv, name)
        if isinstance(recv, SV) and recv.typ.kind == 'Ref':
            ft = self.world.ref_attr_type(recv.typ.args[0], name)
            if ft is not None:
                f = th.func(f'{recv.typ.args[0]}.{name}', zsort(recv.typ), zsort(ft))
                return SV(ft, f(recv.t))
            return SBound(recv, name)
        if isinstance(recv, SV) and recv.typ.kind == 'Opt':
            self.require(z3.Not(opt_is_none(recv)), 'AttributeError', 'None.' + name)
            return self.getattr(opt_get(recv), name)
        if isinstance(recv, SV) and recv.typ.kind == 'Enum' and name == 'value' and recv.typ.args[0] in getattr(self.world, 'enum_values', {}):
            return SV(INT, self.world.enum_values[recv.typ.args[0]](recv.t))
        if isinstance(recv, SV) and recv.typ.kind == 'Enum' and name == '__class__':
            return self.world.globals[recv.typ.args[0]]
        if recv is None:
            self.raise_('AttributeError')
        a = self.world.lib.attr(self, recv, name)
        if a is not NotImplemented:
            return a
        return SBound(recv, name)

    def _real_property(self, cls, name):
        c = getattr(self.world, 'current', None)
        if c is None or not getattr(self.world, 'inline_properties', False):
            return None
        from . import extract
        try:
            fn = extract.find(c.file, f'{cls}.{name}')
        except extract.Missing:
            return None
        if isinstance(fn, ast.FunctionDef) and any(isinstance(d, ast.Name) and d.id == 'property' for d in fn.decorator_list):
            return fn
        return None

    def setattr(self, recv, name, value):
        if isinstance(recv, SObj):
            if 'write' in self.hooks:
                self.hooks['write'](self, recv, name, value)
            self.setfield(recv, name, value)
            return
        raise Undecided(f'attribute store on {recv!r}')

    # ------------------------------------------------------------------ operators
    def unwrap_opt(self, v, what='operand'):
        if isinstance(v, SV) and v.typ.kind == 'Opt':
            self.require(z3.Not(opt_is_none(v)), 'TypeError', 'None ' + what)
            return opt_get(v)
        if v is None:
            if self.path.nofork:
                raise Undecided('None operand in specification')
            self.raise_('TypeError')
        return v

    def binop(self, op, a, b):
        r = self.world.lib.binop(self, op, a, b)
        if r is not NotImplemented:
            return r
        a = self.unwrap_opt(a)
        b = self.unwrap_opt(b)
        if not isinstance(a, SV) and not isinstance(b, SV):
            if isinstance(a, (int, float, str, tuple, list)) and isinstance(b, (int, float, str, tuple, list)):
                try:
                    return _pyop(op, a, b)
                except ZeroDivisionError:
                    self.raise_('ZeroDivisionError')
                except TypeError:
                    self.raise_('TypeError')
            raise Undecided(f'binop on {a!r}, {b!r}')
        a = a if isinstance(a, SV) else lift(a)
        b = b if isinstance(b, SV) else lift(b)
        ka, kb = a.typ.kind, b.typ.kind
        if ka == 'Bool':
            a, ka = coerce(a, INT), 'Int'
        if kb == 'Bool':
            b, kb = coerce(b, INT), 'Int'
        if ka == 'Int' and kb == 'Int':
            x, y = a.t, b.t
            if isinstance(op, ast.Add):
                return SV(INT, x + y)
            if isinstance(op, ast.Sub):
                return SV(INT, x - y)
            if isinstance(op, ast.Mult):
                return SV(INT, x * y)
            if isinstance(op, ast.FloorDiv):
                self.require(y != 0, 'ZeroDivisionError')
                # Python floors; SMT-LIB div keeps the remainder non-negative: the two agree for a positive divisor and for an exact division, and differ by one
                # for a negative divisor with a remainder (7 // -2 == -4, (div 7 (- 2)) == -3)
                return SV(INT, z3.If(y > 0, x / y, z3.If(x % y == 0, x / y, x / y - 1)))
            if isinstance(op, ast.Mod):
                self.require(y != 0, 'ZeroDivisionError')
                return SV(INT, z3.If(y > 0, x % y, -((-x) % (-y))))
            if isinstance(op, ast.Div):
                self.require(y != 0, 'ZeroDivisionError')
                return SV(NUM, th.Fin(z3.ToReal(x) / z3.ToReal(y)))
            raise Undecided(f'int op {type(op).__name__}')
        if ka in ('Int', 'Num') and kb in ('Int', 'Num'):
            was_int_div = (kb == 'Int')
            a, b = coerce(a, NUM), coerce(b, NUM)
            x, y = a.t, b.t
            if isinstance(op, ast.Add):
                return SV(NUM, th.num_add(x, y))
            if isinstance(op, ast.Sub):
                return SV(NUM, th.num_sub(x, y))
            if isinstance(op, ast.Mult):
                return SV(NUM, th.num_mul(x, y))
            if isinstance(op, ast.Div):
                if self.world.float_div_raises:
                    self.require(z3.Not(th.is_zero(y)), 'ZeroDivisionError')
                return SV(NUM, th.num_div(x, y))
            if isinstance(op, ast.Pow):
                raise Undecided('pow on symbolic numbers')
            raise Undecided(f'num op {type(op).__name__}')
        if ka == 'Str' and kb == 'Str' and isinstance(op, ast.Add):
            return SV(STR, z3.Concat(a.t, b.t))
        if ka == 'Set' and kb == 'Set':
            return self.world.lib.set_binop(self, op, a, b)
        if ka == 'Seq' and kb == 'Seq' and isinstance(op, ast.Add):
            return self.world.lib.seq_concat(self, a, b)
        raise Undecided(f'binop {type(op).__name__} on {a.typ}, {b.typ}')

    def compare(self, op, a, b):
        if isinstance(op, (ast.Is, ast.IsNot)):
            r = self.identical(a, b)
            if isinstance(op, ast.IsNot):
                r = (not r) if isinstance(r, bool) else SV(BOOL, z3.Not(_b(r)))
            return r
        if isinstance(op, (ast.In, ast.NotIn)):
            r = self.world.lib.contains(self, b, a)
            if isinstance(op, ast.NotIn):
                t = self.truth(r)
                r = (not t) if isinstance(t, bool) else SV(BOOL, z3.Not(t))
            return r
        r = self.world.lib.compare(self, op, a, b)
        if r is not NotImplemented:
            return r
        if isinstance(op, (ast.Eq, ast.NotEq)):
            r = self.equal(a, b)
            if isinstance(op, ast.NotEq):
                r = (not r) if isinstance(r, bool) else SV(BOOL, z3.Not(_b(r)))
            return r
        a = self.unwrap_opt(a, 'in comparison')
        b = self.unwrap_opt(b, 'in comparison')
        if not isinstance(a, SV) and not isinstance(b, SV):
            try:
                return _pycmp(op, a, b)
            except TypeError:
                self.raise_('TypeError')
        # a Python set display compared with a symbolic set takes the type of the symbolic side
        if isinstance(a, SV) and a.typ.kind == 'Set' and isinstance(b, (set, frozenset)):
            b = lift(b, a.typ)
        if isinstance(b, SV) and b.typ.kind == 'Set' and isinstance(a, (set, frozenset)):
            a = lift(a, b.typ)
        a = a if isinstance(a, SV) else lift(a)
        b = b if isinstance(b, SV) else lift(b)
        if a.typ.kind == 'Bool':
            a = coerce(a, INT)
        if b.typ.kind == 'Bool':
            b = coerce(b, INT)
        if a.typ.kind == 'Int' and b.typ.kind == 'Int':
            x, y = a.t, b.t
            return SV(BOOL, {ast.Lt: x < y, ast.LtE: x <= y, ast.Gt: x > y, ast.GtE: x >= y}[type(op)])
        if a.typ.kind in ('Int', 'Num') and b.typ.kind in ('Int', 'Num'):
            x, y = coerce(a, NUM).t, coerce(b, NUM).t
            return SV(BOOL, {ast.Lt: th.num_lt(x, y), ast.LtE: th.num_le(x, y),
                             ast.Gt: th.num_lt(y, x), ast.GtE: th.num_le(y, x)}[type(op)])
        if a.typ.kind == 'Enum' and b.typ.kind == 'Enum' and a.typ == b.typ:
            order = self.world.enum_order(a.typ.args[0])
            if order is not None:
                x, y = order(a.t), order(b.t)
                return SV(BOOL, {ast.Lt: x < y, ast.LtE: x <= y, ast.Gt: x > y, ast.GtE: x >= y}[type(op)])
        if a.typ.kind == 'Set' and b.typ.kind == 'Set':
            return self.world.lib.set_compare(self, op, a, b)
        raise Undecided(f'compare {type(op).__name__} on {a.typ}, {b.typ}')

    def identical(self, a, b):
        if a is None or b is None:
            other = b if a is None else a
            if other is None:
                return True
            if isinstance(other, SV) and other.typ.kind == 'Opt':
                return SV(BOOL, opt_is_none(other))
            return False
        if isinstance(a, SObj) and isinstance(b, SObj):
            return a.oid == b.oid
        if isinstance(a, bool) and isinstance(b, bool):
            return a is b
        if isinstance(a, SV) and isinstance(b, SV) and a.typ == b.typ and a.typ.kind in ('Ref', 'Enum', 'Bool'):
            return SV(BOOL, a.t == b.t)
        if isinstance(a, SV) and a.typ.kind == 'Bool' and isinstance(b, bool):
            return SV(BOOL, a.t == b)
        if isinstance(b, SV) and b.typ.kind == 'Bool' and isinstance(a, bool):
            return SV(BOOL, b.t == a)
        r = self.world.lib.identical(self, a, b)
        if r is not NotImplemented:
            return r
        # `is` between integers: never true for different values; for equal values CPython answers True for the cached small integers (-5 .. 256) and anything
        # otherwise (two computations of the same value are in general two objects): an unconstrained boolean stands for that answer
        ai = a if isinstance(a, SV) else (lift(a) if isinstance(a, int) and not isinstance(a, bool) else None)
        bi = b if isinstance(b, SV) else (lift(b) if isinstance(b, int) and not isinstance(b, bool) else None)
        if isinstance(ai, SV) and isinstance(bi, SV) and ai.typ.kind == 'Int' and bi.typ.kind == 'Int' and (isinstance(a, SV) or isinstance(b, SV)):
            whatever = z3.Bool(self.path.name('same_int_object'))
            small = z3.And(ai.t >= -5, ai.t <= 256)
            self.world.lib.use('`is` between integers: equal values are the same object for -5..256, unspecified otherwise')
            return SV(BOOL, z3.And(ai.t == bi.t, z3.Or(small, whatever)))
        raise Undecided(f'identity of {a!r} and {b!r}')

    def equal(self, a, b):
        if a is None or b is None:
            return self.identical(a, b)
        if not isinstance(a, SV) and not isinstance(b, SV):
            if isinstance(a, SObj) and isinstance(b, SObj):
                if a.oid == b.oid:
                    return True
                return self.world.lib.obj_equal(self, a, b)
            if isinstance(a, tuple) and isinstance(b, tuple):
                if len(a) != len(b):
                    return False
                parts = [self.truth(self.equal(x, y)) for x, y in zip(a, b)]
                if all(isinstance(p, bool) for p in parts):
                    return all(parts)
                return SV(BOOL, z3.And(*[_b(p) for p in parts]))
            if isinstance(a, (int, float, str, bool, tuple)) and isinstance(b, (int, float, str, bool, tuple)):
                return a == b
            r = self.world.lib.obj_equal(self, a, b)
            return r
        if isinstance(a, SObj) or isinstance(b, SObj):
            return self.world.lib.obj_equal(self, a, b)
        if isinstance(a, tuple) or isinstance(b, tuple):
            raise Undecided('tuple compared with symbolic value')
        a = a if isinstance(a, SV) else lift(a, b.typ if b.typ.kind in ('Num', 'Opt') else None)
        b = b if isinstance(b, SV) else lift(b, a.typ if a.typ.kind in ('Num', 'Opt') else None)
        if a.typ != b.typ:
            if a.typ.kind == 'Opt' and b.typ.kind != 'Opt':
                inner = self.equal(opt_get(a), b)
                return SV(BOOL, z3.And(z3.Not(opt_is_none(a)), _b(self.truth(inner))))
            if b.typ.kind == 'Opt' and a.typ.kind != 'Opt':
                return self.equal(b, a)
            if {a.typ.kind, b.typ.kind} <= {'Int', 'Num', 'Bool'}:
                if NUM in (a.typ, b.typ):
                    return SV(BOOL, th.num_eq(coerce(a, NUM).t, coerce(b, NUM).t))
                return SV(BOOL, coerce(a, INT).t == coerce(b, INT).t)
            if a.typ.kind == 'Enum' and b.typ.kind == 'Int' or a.typ.kind == 'Int' and b.typ.kind == 'Enum':
                raise Undecided('enum compared with int')
            return False
        k = a.typ.kind
        if k == 'Num':
            return SV(BOOL, th.num_eq(a.t, b.t))
        if k == 'Seq':
            return SV(BOOL, seq_eq(a, b))
        if k == 'Map':
            return SV(BOOL, map_eq(a, b))
        if k == 'Opt' and a.typ.args[0].kind == 'Num':
            return SV(BOOL, z3.Or(z3.And(opt_is_none(a), opt_is_none(b)),
                                  z3.And(z3.Not(opt_is_none(a)), z3.Not(opt_is_none(b)),
                                         th.num_eq(opt_get(a).t, opt_get(b).t))))
        return SV(BOOL, a.t == b.t)

    # ------------------------------------------------------------------ statements
    def exec_block(self, stmts, scope):
        for st in stmts:
            self.exec(st, scope)

    def exec(self, st, scope):
        m = getattr(self, 's_' + type(st).__name__, None)
        if m is None:
            raise Undecided(f'statement {type(st).__name__} outside the subset (line {st.lineno})')
        if 'stmt' in self.hooks:
            self.hooks['stmt'](self, st, scope)
        r = m(st, scope)
        if 'after-stmt' in self.hooks:
            self.hooks['after-stmt'](self, st, scope)
        return r

    def s_Expr(self, st, scope):
        if isinstance(st.value, ast.Constant):
            return
        self.eval(st.value, scope)

    def s_Pass(self, st, scope):
        return

    def s_Assign(self, st, scope):
        v = self.eval(st.value, scope)
        for tgt in st.targets:
            self.assign(tgt, v, scope)
            if isinstance(tgt, ast.Name):
                self._note_alias(tgt.id, st.value, v, scope)
            elif isinstance(tgt, (ast.Tuple, ast.List)) and isinstance(st.value, (ast.Tuple, ast.List)) and len(tgt.elts) == len(st.value.elts):
                # a, b = x.p, y.q : each name is bound like in a simple assignment
                vals = v if isinstance(v, (tuple, list)) and len(v) == len(tgt.elts) else [None] * len(tgt.elts)
                for t, e, x in zip(tgt.elts, st.value.elts, vals):
                    if isinstance(t, ast.Name):
                        self._note_alias(t.id, e, x, scope)
            elif isinstance(tgt, (ast.Tuple, ast.List)) and not isinstance(st.value, ast.Call):      # (the results of a call are the callee's to describe)
                for t in tgt.elts:
                    if isinstance(t, ast.Name):
                        x = scope.lookup(t.id) if scope.has(t.id) else None
                        if isinstance(x, SV) and x.typ.kind in ('Seq', 'Set', 'Map'):
                            scope.aliases[t.id] = {'unknown': f'unpacked from {ast.unparse(st.value)[:40]}', 'base_txt': '?', 'key': None, 'stale': False}

    FRESH_VALUE_NODES = (ast.List, ast.ListComp, ast.Dict, ast.DictComp, ast.Set, ast.SetComp, ast.BinOp, ast.Constant, ast.Tuple, ast.JoinedStr)

    def _note_alias(self, name, value_node, v, scope):
        '''value-semantics containers vs Python references: remember through which path a freshly bound name reaches a mutable container, so that in-place
        changes made through the name are written back -- or refuse to go on when the path is not one the engine tracks'''
        scope.aliases.pop(name, None)
        if not (isinstance(v, SV) and v.typ.kind in ('Seq', 'Set', 'Map')):
            return
        if isinstance(value_node, ast.Subscript):
            # path alias: the name denotes the container stored at base[key]; mutations write through
            key = self.eval(value_node.slice, scope)
            scope.aliases[name] = {'base': value_node.value, 'base_txt': ast.unparse(value_node.value), 'key': key, 'stale': False}
        elif isinstance(value_node, ast.Attribute):
            # the name denotes the container held by an object's attribute: in-place changes are seen through the attribute
            scope.aliases[name] = {'attr': value_node, 'base_txt': ast.unparse(value_node), 'key': None, 'stale': False}
        elif isinstance(value_node, ast.Name):
            # y = x : two names for one container; a change through one of them must not be lost for the other
            src = scope.find_alias(value_node.id)
            if src is not None:
                scope.aliases[name] = dict(src)
            else:
                scope.aliases[name] = {'unknown': f'another name of {value_node.id}', 'base_txt': '?', 'key': None, 'stale': False}
                scope.aliases.setdefault(value_node.id, {'unknown': f'another name of {name}', 'base_txt': '?', 'key': None, 'stale': False})
        elif isinstance(value_node, self.FRESH_VALUE_NODES) or isinstance(value_node, ast.Call):
            return          # a new object (literal, comprehension, operator result) or the result of a call (callee contracts return values)
        else:
            scope.aliases[name] = {'unknown': f'bound by {type(value_node).__name__}', 'base_txt': '?', 'key': None, 'stale': False}

    def s_AnnAssign(self, st, scope):
        if st.value is not None:
            self.assign(st.target, self.eval(st.value, scope), scope)

    def s_AugAssign(self, st, scope):
        if isinstance(st.target, ast.Name):
            cur = self.eval(ast.Name(id=st.target.id, ctx=ast.Load()), scope)
        elif isinstance(st.target, ast.Attribute):
            cur = self.eval(ast.Attribute(value=st.target.value, attr=st.target.attr, ctx=ast.Load()), scope)
        elif isinstance(st.target, ast.Subscript):
            cur = self.eval(ast.Subscript(value=st.target.value, slice=st.target.slice, ctx=ast.Load()), scope)
        else:
            raise Undecided('augmented assignment target')
        rhs = self.eval(st.value, scope)
        r = self.world.lib.inplace(self, st.op, cur, rhs)
        if r is NotImplemented:
            r = self.binop(st.op, cur, rhs)
        if isinstance(cur, SV) and cur.typ.kind in ('Seq', 'Set', 'Map') and isinstance(st.target, (ast.Name, ast.Attribute, ast.Subscript)):
            # += on a list, &= |= -= on a set ... mutate the object in place: every alias sees the change
            self.world.lib.write_back(self, st.target, r, scope)
            return
        self.assign(st.target, r, scope)

    def assign(self, tgt, v, scope):
        if isinstance(tgt, ast.Name):
            scope.set(tgt.id, v)
        elif isinstance(tgt, (ast.Tuple, ast.List)):
            items = self.world.lib.unpack(self, v, len(tgt.elts))
            for t, x in zip(tgt.elts, items):
                self.assign(t, x, scope)
        elif isinstance(tgt, ast.Attribute):
            self.setattr(self.eval(tgt.value, scope), tgt.attr, v)
        elif isinstance(tgt, ast.Subscript):
            self.world.lib.setitem(self, tgt, v, scope)
        else:
            raise Undecided('assignment target')

    def s_Delete(self, st, scope):
        for tgt in st.targets:
            if isinstance(tgt, ast.Subscript):
                self.world.lib.delitem(self, tgt, scope)
            else:
                raise Undecided('del of a name')

    def s_Return(self, st, scope):
        raise _Return(self.eval(st.value, scope) if st.value is not None else None)

    def s_If(self, st, scope):
        if self.decide(self.eval(st.test, scope)):
            self.exec_block(st.body, scope)
        else:
            self.exec_block(st.orelse, scope)

    def s_Assert(self, st, scope):
        if not self.decide(self.eval(st.test, scope)):
            self.raise_('AssertionError')

    def s_Raise(self, st, scope):
        if st.exc is None:
            cur = getattr(self, 'current_exc', None)
            if cur is None:
                raise Undecided('bare raise outside handler')
            raise PyRaise(cur)
        e = st.exc
        if isinstance(e, ast.Call):
            cls = e.func
            name = cls.id if isinstance(cls, ast.Name) else cls.attr if isinstance(cls, ast.Attribute) else None
            if name is None:
                raise Undecided('raise of a computed class')
            raise PyRaise(SPyExc(name, ()))
        if isinstance(e, ast.Name):
            v = None
            try:
                v = scope.lookup(e.id)
            except KeyError:
                pass
            if isinstance(v, SPyExc):
                raise PyRaise(v)
            raise PyRaise(SPyExc(e.id, ()))
        raise Undecided('raise expression')

    def s_Break(self, st, scope):
        raise _Break()

    def s_Continue(self, st, scope):
        raise _Continue()

    def s_FunctionDef(self, st, scope):
        scope.set(st.name, SFunc(st, scope, st.name))

    def s_Import(self, st, scope):
        for a in st.names:
            if (a.asname or a.name.split('.')[0]) not in self.world.globals:
                raise Undecided(f'import of {a.name} inside a function')

    def s_ImportFrom(self, st, scope):
        # a local import of names the world already provides (library contracts) is a no-op
        for a in st.names:
            if (a.asname or a.name) not in self.world.globals:
                raise Undecided(f'import of {a.name} inside a function')

    def s_Try(self, st, scope):
        # the finally block runs for Python-level exits only (normal, raise, return, break, continue);
        # engine exits (PathEnd, Undecided) abandon the path without executing program text
        pending = None
        try:
            try:
                self.exec_block(st.body, scope)
            except PyRaise as r:
                for h in st.handlers:
                    if self.handler_matches(h, r.exc, scope):
                        if h.name:
                            scope.set(h.name, r.exc)
                        saved = getattr(self, 'current_exc', None)
                        self.current_exc = r.exc
                        try:
                            self.exec_block(h.body, scope)
                        finally:
                            self.current_exc = saved
                        break
                else:
                    raise
            else:
                self.exec_block(st.orelse, scope)
        except (PyRaise, _Return, _Break, _Continue) as e:
            pending = e
        if st.finalbody:
            self.exec_block(st.finalbody, scope)
        if pending is not None:
            raise pending

    def handler_matches(self, h, exc, scope):
        if h.type is None:
            return True
        names = []
        t = h.type
        for e in (t.elts if isinstance(t, ast.Tuple) else [t]):
            if isinstance(e, ast.Name):
                names.append(e.id)
            elif isinstance(e, ast.Attribute):
                names.append(e.attr)
            else:
                raise Undecided('except clause')
        return any(self.world.exc_subclass(exc.cls, n) for n in names)

    def s_With(self, st, scope):
        entered = []
        for item in st.items:
            cm = item.context_expr
            val = self.world.lib.with_enter(self, cm, scope)
            entered.append((cm, val))
            if item.optional_vars is not None:
                self.assign(item.optional_vars, val[1], scope)
        pending = None
        try:
            self.exec_block(st.body, scope)
        except (PyRaise, _Return, _Break, _Continue) as e:
            pending = e
        for cm, val in reversed(entered):
            self.world.lib.with_exit(self, cm, val, scope)
        if pending is not None:
            raise pending

    def s_While(self, st, scope):
        self.loop(st, scope)

    def s_For(self, st, scope):
        self.loop(st, scope)

    # ------------------------------------------------------------------ loops
    def loop(self, st, scope):
        ordinal = self.loop_ordinal
        self.loop_ordinal += 1
        return self.world.lib.loop(self, st, scope, ordinal)

    # ------------------------------------------------------------------ spec evaluation
    def spec(self, expr, scope):
        '''evaluate a specification expression (string) to a z3 Bool, no forks'''
        self.path.nofork += 1
        self.in_spec += 1
        try:
            return _b(self.truth(self.eval(_parse(expr), scope)))
        finally:
            self.in_spec -= 1
            self.path.nofork -= 1


MUTATORS = {'append', 'extend', 'insert', 'add', 'discard', 'remove', 'pop', 'update', 'clear', 'setdefault',
            'intersection_update', 'difference_update', 'sort', 'reverse'}


class GenExp:
    '''an unevaluated generator expression (consumed by any/all/set/list/sum/...)'''
    def __init__(self, node, scope):
        self.node = node
        self.scope = scope


_parse_cache = {}


def _parse(expr):
    if isinstance(expr, ast.AST):
        return expr
    if expr not in _parse_cache:
        _parse_cache[expr] = ast.parse(expr.strip(), mode='eval').body
    return _parse_cache[expr]


def _strip_doc(body):
    if body and isinstance(body[0], ast.Expr) and isinstance(body[0].value, ast.Constant) \
            and isinstance(body[0].value.value, str):
        return body[1:]
    return body


def _is_static(fn):
    return any(isinstance(d, ast.Name) and d.id == 'staticmethod' for d in fn.decorator_list)


def _pyop(op, a, b):
    import operator
    table = {ast.Add: operator.add, ast.Sub: operator.sub, ast.Mult: operator.mul, ast.Div: operator.truediv,
             ast.FloorDiv: operator.floordiv, ast.Mod: operator.mod, ast.Pow: operator.pow}
    return table[type(op)](a, b)


def _pycmp(op, a, b):
    import operator
    table = {ast.Lt: operator.lt, ast.LtE: operator.le, ast.Gt: operator.gt, ast.GtE: operator.ge,
             ast.Eq: operator.eq, ast.NotEq: operator.ne}
    return table[type(op)](a, b)
