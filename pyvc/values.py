'''Typed symbolic values.  Every symbolic value is SV(typ, term) with a z3 term whose sort is
zsort(typ); containers are value-semantics records so they nest (Map[Key, Seq[Int]]).'''
import z3
from . import theory as th


class Undecided(Exception):
    '''The engine cannot translate / decide: never a violation.'''


# ---------------------------------------------------------------------------------------
# types
class T:
    __slots__ = ('kind', 'args', 'default')

    def __init__(self, kind, *args, default=None):
        self.kind = kind
        self.args = args
        self.default = default      # Map only: collections.defaultdict semantics (d[k] on a missing key inserts the empty value)

    def __eq__(self, other):
        return isinstance(other, T) and self.kind == other.kind and self.args == other.args

    def __hash__(self):
        return hash((self.kind, self.args))

    def __repr__(self):
        if not self.args:
            return self.kind
        return f'{self.kind}[{", ".join(map(str, self.args))}]'


INT, BOOL, NUM, STR, REAL = T('Int'), T('Bool'), T('Num'), T('Str'), T('Real')


def parse_type(s):
    if isinstance(s, T):
        return s
    s = s.strip()
    if '[' in s and s.endswith(']'):
        head, rest = s.split('[', 1)
        rest = rest[:-1]
        parts, depth, cur = [], 0, ''
        for ch in rest:
            if ch == '[':
                depth += 1
            elif ch == ']':
                depth -= 1
            if ch == ',' and depth == 0:
                parts.append(cur)
                cur = ''
            else:
                cur += ch
        parts.append(cur)
        if head.strip() == 'DMap':
            return T('Map', *[parse_type(p) for p in parts], default=True)
        return T(head.strip(), *[parse_type(p) for p in parts])
    if ':' in s:
        head, name = s.split(':', 1)
        return T(head.strip(), name.strip())
    return T(s)


_seq_sorts = {}
_map_sorts = {}
_tuple_sorts = {}


def zsort(t):
    k = t.kind
    if k == 'Int':
        return z3.IntSort()
    if k == 'Bool':
        return z3.BoolSort()
    if k == 'Num':
        return th.Num
    if k == 'Real':
        return z3.RealSort()
    if k == 'Str':
        return z3.StringSort()
    if k == 'Ref':
        return th.usort(t.args[0])
    if k == 'Enum':
        return th.enum_sort(t.args[0])[0]
    if k == 'Opt':
        return th.opt_sort(str(t.args[0]), zsort(t.args[0]))
    if k == 'Set':
        return z3.ArraySort(zsort(t.args[0]), z3.BoolSort())
    if k == 'Fun':
        return z3.ArraySort(zsort(t.args[0]), zsort(t.args[1]))
    if k == 'Seq':
        key = str(t)
        if key not in _seq_sorts:
            d = z3.Datatype('Seq_' + _mangle(str(t.args[0])))
            d.declare('mk', ('arr', z3.ArraySort(z3.IntSort(), zsort(t.args[0]))), ('len', z3.IntSort()))
            _seq_sorts[key] = d.create()
        return _seq_sorts[key]
    if k == 'Map':
        key = str(t)
        if key not in _map_sorts:
            d = z3.Datatype('Map_' + _mangle(str(t.args[0])) + '_' + _mangle(str(t.args[1])))
            d.declare('mk', ('dom', z3.ArraySort(zsort(t.args[0]), z3.BoolSort())),
                      ('val', z3.ArraySort(zsort(t.args[0]), zsort(t.args[1]))))
            _map_sorts[key] = d.create()
        return _map_sorts[key]
    if k == 'Tuple':
        key = str(t)
        if key not in _tuple_sorts:
            d = z3.Datatype('Tup_' + _mangle(key))
            d.declare('mk', *[(f'f{i}', zsort(a)) for i, a in enumerate(t.args)])
            _tuple_sorts[key] = d.create()
        return _tuple_sorts[key]
    raise Undecided(f'no sort for type {t}')


def _mangle(s):
    return ''.join(c if c.isalnum() else '_' for c in s)


# ---------------------------------------------------------------------------------------
class SV:
    '''symbolic value'''
    __slots__ = ('typ', 't')

    def __init__(self, typ, t):
        self.typ = typ
        self.t = t

    def __repr__(self):
        return f'<{self.typ}: {self.t}>'

    # conveniences
    @property
    def kind(self):
        return self.typ.kind


class SObj:
    '''reference to a heap object'''
    __slots__ = ('oid', 'cls')

    def __init__(self, oid, cls):
        self.oid = oid
        self.cls = cls

    def __repr__(self):
        return f'<obj {self.cls}#{self.oid}>'


class SClass:
    '''a class object (receiver of classmethod / staticmethod calls, constructor)'''
    def __init__(self, name):
        self.name = name

    def __repr__(self):
        return f'<class {self.name}>'


class SFunc:
    '''closure: nested def / lambda, inlined at the call site (late binding)'''
    def __init__(self, node, scope, name='<lambda>'):
        self.node = node
        self.scope = scope
        self.name = name


class SPartial:
    def __init__(self, func, args, kwargs):
        self.func, self.args, self.kwargs = func, args, kwargs


class SBound:
    '''bound method: receiver + name (resolved at call time)'''
    def __init__(self, recv, name):
        self.recv, self.name = recv, name


class SNamespace:
    '''module-like namespace (np, TaskStatus, LOGGER ...)'''
    def __init__(self, name, members=None, dropped=False):
        self.name = name
        self.members = members or {}
        self.dropped = dropped


class SPyExc:
    '''an exception instance'''
    def __init__(self, cls, args=()):
        self.cls = cls
        self.args = args


def fresh(typ, name):
    typ = parse_type(typ)
    return SV(typ, z3.Const(name, zsort(typ)))


def lift(v, typ=None):
    '''Python constant -> SV of the wanted type.'''
    if isinstance(v, SV):
        if typ is not None and v.typ != typ:
            return coerce(v, typ)
        return v
    if typ is None:
        if isinstance(v, bool):
            typ = BOOL
        elif isinstance(v, int):
            typ = INT
        elif isinstance(v, float):
            typ = NUM
        elif isinstance(v, str):
            typ = STR
        else:
            raise Undecided(f'cannot lift {v!r}')
    k = typ.kind
    if k == 'Set' and isinstance(v, (set, frozenset, list, tuple)):
        t = z3.K(zsort(typ.args[0]), z3.BoolVal(False))
        for x in v:
            t = z3.Store(t, lift(x, typ.args[0]).t, z3.BoolVal(True))
        return SV(typ, t)
    if k == 'Map' and isinstance(v, dict):
        kt, vt = typ.args
        dom = z3.K(zsort(kt), z3.BoolVal(False))
        val = z3.K(zsort(kt), lift_default(vt))
        for kk, vv in v.items():
            kx = lift(kk, kt) if not isinstance(kk, SV) else coerce(kk, kt)
            vx = lift(vv, vt) if not isinstance(vv, SV) else coerce(vv, vt)
            dom = z3.Store(dom, kx.t, z3.BoolVal(True))
            val = z3.Store(val, kx.t, vx.t)
        return map_mk(typ, dom, val)
    if k == 'Seq' and isinstance(v, (list, tuple)):
        arr = z3.K(z3.IntSort(), lift_default(typ.args[0]))
        for i, x in enumerate(v):
            arr = z3.Store(arr, i, lift(x, typ.args[0]).t)
        return seq_mk(typ, arr, z3.IntVal(len(v)))
    if k == 'Tuple' and isinstance(v, tuple) and len(v) == len(typ.args):
        parts = [lift(x, t) if not isinstance(x, SV) else coerce(x, t) for x, t in zip(v, typ.args)]
        return SV(typ, zsort(typ).mk(*[p.t for p in parts]))
    if k == 'Int':
        return SV(INT, z3.IntVal(int(v)))
    if k == 'Bool':
        return SV(BOOL, z3.BoolVal(bool(v)))
    if k == 'Num':
        return SV(NUM, th.num_const(v))
    if k == 'Str':
        return SV(STR, z3.StringVal(v))
    if k == 'Opt':
        s = zsort(typ)
        if v is None:
            return SV(typ, s.none)
        return SV(typ, s.some(lift(v, typ.args[0]).t))
    raise Undecided(f'cannot lift {v!r} to {typ}')


def lift_default(typ):
    '''some term of the sort (padding of constant arrays)'''
    return z3.Const('pad!' + _mangle(str(typ)), zsort(typ))


def coerce(v, typ):
    if v.typ == typ:
        return v
    if typ.kind == 'Num' and v.typ.kind == 'Int':
        return SV(NUM, th.Fin(z3.ToReal(v.t)))
    if typ.kind == 'Num' and v.typ.kind == 'Bool':
        return SV(NUM, th.Fin(z3.If(v.t, z3.RealVal(1), z3.RealVal(0))))
    if typ.kind == 'Int' and v.typ.kind == 'Bool':
        return SV(INT, z3.If(v.t, z3.IntVal(1), z3.IntVal(0)))
    if typ.kind == 'Opt' and v.typ == typ.args[0]:
        return SV(typ, zsort(typ).some(v.t))
    if typ.kind == 'Opt' and typ.args[0].kind == 'Num' and v.typ.kind == 'Int':
        return SV(typ, zsort(typ).some(coerce(v, NUM).t))
    raise Undecided(f'cannot coerce {v.typ} to {typ}')


# ----- Opt
def opt_is_none(v):
    return zsort(v.typ).is_none(v.t)


def opt_get(v):
    return SV(v.typ.args[0], zsort(v.typ).get(v.t))


# ----- Seq
def seq_len(v):
    return zsort(v.typ).len(v.t)


def seq_arr(v):
    return zsort(v.typ).arr(v.t)


def seq_mk(typ, arr, n):
    return SV(typ, zsort(typ).mk(arr, n))


def seq_eq(a, b):
    '''extensional equality of sequences on [0, len)'''
    i = z3.Int('i!seq_eq')
    ea, eb = seq_arr(a)[i], seq_arr(b)[i]
    return z3.And(seq_len(a) == seq_len(b),
                  z3.ForAll([i], z3.Implies(z3.And(0 <= i, i < seq_len(a)),
                                            elem_eq(a.typ.args[0], ea, eb))))


def elem_eq(typ, x, y):
    '''Python == on two terms of element type typ (IEEE for Num)'''
    if typ.kind == 'Num':
        return th.num_eq(x, y)
    return x == y


# ----- Map
def map_dom(v):
    return zsort(v.typ).dom(v.t)


def map_val(v):
    return zsort(v.typ).val(v.t)


def map_mk(typ, dom, val):
    return SV(typ, zsort(typ).mk(dom, val))


def map_eq(a, b):
    k = z3.Const('k!map_eq', zsort(a.typ.args[0]))
    return z3.And(map_dom(a) == map_dom(b),
                  z3.ForAll([k], z3.Implies(map_dom(a)[k], map_val(a)[k] == map_val(b)[k])))


def set_empty(typ):
    return SV(typ, z3.K(zsort(typ.args[0]), z3.BoolVal(False)))
