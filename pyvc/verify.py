'''World (contracts, class models, globals of one property) and the function verifier.'''
import ast
import time
import z3

from . import extract, theory as th
from .values import (SV, SObj, SClass, SFunc, SNamespace, SPyExc, T, INT, BOOL, NUM, STR, Undecided,
                     parse_type, zsort, fresh, lift, coerce)
from .engine import (Interp, Path, PathEnd, PyRaise, _Return, _Break, _Continue, _b, _parse, _strip_doc, Scope, Contract,
                     LoopSpec, explore, exc_is_subclass, EXC_PARENTS)
from .libspec import Lib, SArr


def _norm_header(st):
    if isinstance(st, ast.For):
        return 'for ' + ast.unparse(st.target) + ' in ' + ast.unparse(st.iter)
    return 'while ' + ast.unparse(st.test)


TYPE_NAMES = ('slice', 'tuple', 'int', 'float', 'str', 'bool', 'list', 'set', 'dict')


class World:
    def __init__(self):
        self.contracts = {}
        self.class_models = {}
        self.globals = {}
        self.ref_attrs = {}
        self.enum_orders = {}
        self.enum_values = {}
        self.lib = Lib(self)
        self.float_div_raises = True
        self.exc_parents = {}
        self.current = None
        self.isinstance_hook = None
        self.construct_hooks = {}
        self.type_factories = {}
        self.ref_methods = {}
        self.dropped_names = set()

    # ---------------- registration
    def add(self, c):
        self.contracts[c.qual] = c
        return c

    def enum(self, name, relpath, clsname=None, ordered=False):
        members = extract.enum_members(relpath, clsname or name)
        sort, consts = th.enum_sort(name, members)
        ns = SNamespace(name, {m: SV(T('Enum', name), c) for m, c in consts.items()})
        self.globals[name] = ns
        vals = extract.enum_int_values(relpath, clsname or name)
        if vals is not None:
            # member.value for integer-valued enumerations, read from the source
            fv = th.func('value_' + name, sort, z3.IntSort())
            self.enum_values[name] = fv
            self.enum_orders['value:' + name] = (fv, [fv(consts[m]) == v for m, v in vals.items()])
        if ordered:
            f = th.func('ord_' + name, sort, z3.IntSort())
            self.enum_orders[name] = (f, [f(consts[m]) == i for i, m in enumerate(members)])
        return ns

    def enum_const(self, name, member):
        return self.globals[name].members[member]

    def add_function(self, c, name=None):
        '''a module-level function of the repository, called through its contract'''
        self.contracts[c.qual] = c
        self.globals[name or c.qual] = lambda I, *a, **k: I.apply_contract(c, list(a), dict(k))
        return c

    # ---------------- lookups used by the interpreter
    def global_name(self, I, name):
        if name in self.globals:
            return self.globals[name]
        if name in TYPE_NAMES:
            return SClass(name)
        b = self.lib.builtin(I, name)
        if b is not None:
            return lambda I2, *a, **k: b(I2, *a, **k)
        if name in EXC_PARENTS or name in self.exc_parents:
            return SClass(name)
        # a module-level constant of the file the function under verification lives in (bound once to a literal)
        cur = getattr(self, 'current', None)
        if cur is not None:
            try:
                consts = extract.module_constants(cur.file)
            except Exception:      # noqa
                consts = {}
            if name in consts:
                self.lib.use(f'module-level constant {name} = {consts[name]!r} (bound once, to a literal, in {cur.file})')
                return consts[name]
        return None

    def contract_for(self, cls, name):
        c = self.contracts.get(f'{cls}.{name}')
        if c is not None and self.current is not None and c.qual == self.current.qual and not getattr(c, 'recursive', False):
            return c
        return c

    def class_model(self, cls):
        return self.class_models.get(cls)

    def fn_ast(self, c):
        return extract.find(c.file, c.qual)

    def ref_attr_type(self, sort, attr):
        t = self.ref_attrs.get(sort, {}).get(attr)
        return parse_type(t) if t else None

    def enum_order(self, name):
        if name in self.enum_orders:
            return self.enum_orders[name][0]
        return None

    def exc_subclass(self, a, b):
        if a == b:
            return True
        seen = 0
        cur = a
        while cur is not None and seen < 30:
            if cur == b or (cur in ('IOError', 'OSError') and b in ('IOError', 'OSError')):
                return True
            cur = self.exc_parents.get(cur, EXC_PARENTS.get(cur))
            seen += 1
        return False

    def isinstance_(self, I, x, cls):
        if self.isinstance_hook is not None:
            r = self.isinstance_hook(I, x, cls)
            if r is not NotImplemented:
                return r
        classes = cls if isinstance(cls, tuple) else (cls,)
        names = []
        for c in classes:
            if isinstance(c, SClass):
                names.append(c.name)
            elif isinstance(c, SNamespace):
                names.append(c.name)
            elif callable(c) and hasattr(c, '__name__'):
                names.append(c.__name__)
            else:
                names.append(str(c))
        if isinstance(x, SObj):
            return any(x.cls == n or n in self.class_parents(x.cls) for n in names)
        if isinstance(x, SArr):
            kinds = {'generic', 'float64', 'floating', 'number'} if x.scalar else {'ndarray'}
            return bool(kinds & set(names))
        if isinstance(x, SPyExc):
            return any(self.exc_subclass(x.cls, n) for n in names)
        if isinstance(x, bool):
            return bool({'bool', 'int'} & set(names))
        if isinstance(x, int):
            return 'int' in names
        if isinstance(x, float):
            return 'float' in names
        if isinstance(x, str):
            return 'str' in names
        if isinstance(x, tuple):
            return 'tuple' in names
        if isinstance(x, list):
            return 'list' in names
        if isinstance(x, dict):
            return 'dict' in names
        if x is None:
            return False
        if isinstance(x, SV):
            k = x.typ.kind
            table = {'Int': {'int'}, 'Bool': {'bool', 'int'}, 'Num': {'float'}, 'Str': {'str'},
                     'Seq': {'list'}, 'Map': {'dict'}, 'Set': {'set'}}
            if k in table:
                return bool(table[k] & set(names))
        raise Undecided(f'isinstance({x!r}, {names})')

    def class_parents(self, cls):
        m = self.class_models.get(cls)
        return getattr(m, 'parents', ()) if m is not None else ()

    def loop_spec(self, I, ordinal, st):
        """the loop contract of this loop.  Contracts are written for a loop text: (1) the contract whose header is the text of this loop, wherever the loop now
        stands (loops may be reordered); (2) else the contract at this position, when the loop keeps its target and the loop that contract was written for is not
        elsewhere in the function: the loop rule is then applied to the collection the code really iterates over, so the invariant / postcondition is re-proved (or
        refuted) for it; (3) anything else (renamed target, changed while condition, a contract that belongs to another loop) is undecided."""
        c = self.current
        if c is None or not c.loops:
            return None
        hdr = _norm_header(st)
        spec = c.loops.get(ordinal)
        if spec is not None and spec.header == hdr:
            return spec
        exact = [s for s in c.loops.values() if s.header == hdr]
        if len(exact) == 1:
            I.dropped.append(f'loop {hdr!r} is loop #{ordinal} of the function now (its contract was written for another position)')
            return exact[0]
        if exact:
            raise Undecided(f'several loop contracts for {hdr!r} and the loops were reordered')
        if spec is None:
            return None
        try:
            fn = self.fn_ast(c)
            present = {_norm_header(n) for n in ast.walk(fn) if isinstance(n, (ast.For, ast.While))}
        except Exception:      # noqa
            present = set()
        if spec.header in present:
            raise Undecided(f'loop #{ordinal} is {hdr!r}; the contract at this position belongs to {spec.header!r}, which is elsewhere in the function')
        same_target = isinstance(st, ast.For) and spec.header.startswith('for ' + ast.unparse(st.target) + ' in ')
        if not same_target:
            raise Undecided(f'loop #{ordinal} header changed: {hdr!r} (contract has {spec.header!r})')
        I.dropped.append(f'loop #{ordinal} iterates over {ast.unparse(st.iter)!r} (contract written for {spec.header!r})')
        return spec

    def spec_ordinal(self, spec, ordinal):
        """the position the contract was written for (labels of the obligations and hooks are keyed by it)"""
        c = self.current
        if c is not None:
            for k, s in c.loops.items():
                if s is spec:
                    return k
        return ordinal

    def unpack_hook(self, I, v, n):
        return None

    def open_file(self, I, node, scope):
        raise Undecided('open()')

    def class_attr(self, I, cls, name):
        m = self.class_models.get(cls.name)
        if m is not None and hasattr(m, 'c_' + name):
            return getattr(m, 'c_' + name)(I, cls)
        if name == '__name__':
            return cls.name
        return None

    def construct(self, I, cls, args, kwargs, node):
        if cls.name in TYPE_NAMES and cls.name not in self.construct_hooks:
            return getattr(self.lib, 'b_' + cls.name)(I, *args, **kwargs)
        if cls.name in self.construct_hooks:
            return self.construct_hooks[cls.name](I, args, kwargs)
        if cls.name in EXC_PARENTS or cls.name in self.exc_parents:
            return SPyExc(cls.name, tuple(args))
        c = self.contracts.get(cls.name + '.__init__')
        m = self.class_models.get(cls.name)
        if m is not None and hasattr(m, 'construct'):
            return m.construct(I, *args, **kwargs)
        raise Undecided(f'constructor of {cls.name}')

    def lib_truth(self, I, v):
        return self.lib.lib_truth(I, v)

    # ---------------- symbolic inputs
    def fresh_value(self, I, typ, base):
        if callable(typ):
            return typ(I, base)
        if isinstance(typ, str) and typ in self.type_factories:
            return self.type_factories[typ](I, base)
        t = parse_type(typ)
        if t.kind == 'Class':
            return SClass(t.args[0])
        if t.kind == 'Obj':
            m = self.class_models[t.args[0]]
            return m.fresh(I, base)
        if t.kind == 'Slice':
            oi = T('Opt', INT)
            return I.alloc('slice', {'start': I.fresh(oi, base + '_start'), 'stop': I.fresh(oi, base + '_stop'),
                                     'step': I.fresh(oi, base + '_step')}, fresh_obj=False)
        if t.kind == 'Tuple' and any(a.kind in ('Obj', 'Slice', 'Class') for a in t.args):
            return tuple(self.fresh_value(I, a, f'{base}_{i}') for i, a in enumerate(t.args))
        if t.kind == 'None':
            return None
        return I.fresh(t, base)

    def havoc_like(self, I, old, base):
        if isinstance(old, SV):
            return I.fresh(old.typ, base)
        if isinstance(old, SObj):
            # the callee may mutate the object in place: every field gets a fresh value, the identity is kept
            for f, val in list(I.heap[old.oid]['fields'].items()):
                I.setfield(old, f, self.havoc_like(I, val, f'{base}_{f}'))
            return old
        raise Undecided(f'havoc of {old!r}')


class ClassModel:
    '''Model of a class used as a parameter / receiver: field types + m_<method> functions.'''
    name = ''
    fields = {}
    parents = ()

    def __init__(self, world):
        self.world = world

    def fresh(self, I, base):
        return I.alloc(self.name, {f: self.world.fresh_value(I, t, f'{base}_{f}') for f, t in self.fields.items()},
                       fresh_obj=False)


# ---------------------------------------------------------------------------------------
class FunctionResult:
    def __init__(self, contract):
        self.contract = contract
        self.obligations = []      # dicts: name, kind, pc, goal, meta, inputs
        self.paths = 0
        self.paths_ended = {}
        self.dropped = []
        self.undecided = None
        self.lib_used = []
        self.seconds = 0.0
        self.describe = None


def verify_function(world, c, setup=None, body_of=None, hooks=None, extra_check=None):
    '''Symbolically execute the real body of contract c; return every obligation instance.'''
    res = FunctionResult(c)
    t0 = time.time()
    try:
        fn = extract.find(c.file, c.qual)
        res.describe = extract.describe(c.file, c.qual)
    except extract.Missing as e:
        res.undecided = str(e)
        return res
    world.current = c
    dropped = set()
    inputs_holder = {}

    def run(path):
        I = Interp(path, world)
        I.fn_label = c.name
        if hooks:
            I.hooks.update(hooks)
        scope = Scope(None, {})
        for pname, ptype in c.params.items():
            scope.set(pname, world.fresh_value(I, ptype, pname))
        if setup is not None:
            setup(I, scope)
        # parameters the contract does not mention take their default value (the real default expression of the signature)
        if isinstance(fn, (ast.FunctionDef, ast.AsyncFunctionDef)) and body_of is None:
            a = fn.args
            pos = a.posonlyargs + a.args
            for arg, d in list(zip(pos[len(pos) - len(a.defaults):], a.defaults)) + [(k, d) for k, d in zip(a.kwonlyargs, a.kw_defaults) if d is not None]:
                if not scope.has(arg.arg):
                    try:
                        scope.set(arg.arg, I.eval(d, scope))
                    except Undecided:
                        pass
        inputs_holder['scope'] = dict(scope.vars)
        inputs_holder['heap'] = I.snapshot_heap()
        for name, axioms in world.enum_orders.items():
            for ax in axioms[1]:
                path.assume(ax)
        for r in c.requires:
            path.assume(I.spec(r, scope))
        if not path.feasible(z3.BoolVal(True)):
            path.obls.append({'name': f'{c.name}::vacuity::requires', 'kind': 'vacuity', 'pc': [], 'goal': z3.BoolVal(False),
                              'meta': {'why': 'requires is unsatisfiable'}, 'decisions': []})
            raise PathEnd('vacuous precondition')
        I.entry_heap = I.snapshot_heap()
        I.entry_scope = Scope(None, dict(scope.vars))
        body = _strip_doc(fn.body) if body_of is None else body_of(fn)
        outcome = ('return', None)
        try:
            I.exec_block(body, scope)
        except _Return as r:
            outcome = ('return', r.value)
        except PyRaise as e:
            outcome = ('raise', e.exc)
        except _Break:
            outcome = ('break', None)
        except _Continue:
            outcome = ('continue', None)
        finally:
            dropped.update(I.dropped)
        path.outcome = outcome
        if outcome[0] == 'raise':
            exc = outcome[1]
            allowed = None
            if c.signals is not None:
                for name, condition in c.signals.items():
                    if world.exc_subclass(exc.cls, name):
                        allowed = (name, condition)
                        break
                if allowed is None:
                    path.oblige(f'{c.name}::signals::{exc.cls}', False, kind='signals',
                                meta={'raised': exc.cls, 'allowed': list(c.signals)})
                elif allowed[1] is not True:
                    path.oblige(f'{c.name}::signals::{exc.cls}::when', I.spec(allowed[1], I.entry_scope), kind='signals',
                                meta={'raised': exc.cls, 'expr': allowed[1]})
            sp = c.signals_post.get(exc.cls) or c.signals_post.get('*')
            if sp:
                for k, e in enumerate(sp):
                    path.oblige(f'{c.name}::signals-post::{exc.cls}::{k}', I.spec(e, scope), kind='signals-post', meta={'expr': e})
            if extra_check is not None:
                extra_check(I, scope, outcome)
            return
        if outcome[0] in ('break', 'continue'):
            if extra_check is not None:
                extra_check(I, scope, outcome)
            return
        # the returned value is `result` in specifications -- `returned` when a parameter of the function is itself called result
        scope.set('returned', outcome[1])
        if 'result' not in c.params:
            scope.set('result', outcome[1])
        for label, expr in c.lemmas:
            try:
                t = I.spec(expr, scope)
            except Undecided as e:
                if 'unknown name' in str(e) or 'None operand' in str(e):
                    continue          # the lemma talks about locals this path never defined (or that are None here)
                raise
            path.oblige(f'{c.name}::lemma::{label}', t, kind='lemma', meta={'expr': expr})
            path.assume(t)
        for k, e in enumerate(c.ensures):
            label, expr = e if isinstance(e, tuple) else (str(k), e)
            path.oblige(f'{c.name}::post::{label}', I.spec(expr, scope), kind='post', meta={'expr': expr})
        for k, fr in enumerate(c.frame):
            path.oblige(f'{c.name}::frame::{k}', I.spec(f'({fr}) == old({fr})', scope), kind='frame', meta={'expr': fr})
        if extra_check is not None:
            extra_check(I, scope, outcome)

    try:
        paths = explore(run)
    except Undecided as e:
        res.undecided = str(e)[:400]
        res.seconds = time.time() - t0
        world.current = None
        return res
    world.current = None
    res.paths = len(paths)
    und = [p.end for p in paths if str(p.end).startswith('undecided: ')]
    if und:
        res.undecided = und[0][len('undecided: '):] + (f' (+{len(und) - 1} more undecided paths of {len(paths)})' if len(und) > 1 else f' (1 undecided path of {len(paths)})')
    for p in paths:
        res.paths_ended[p.end] = res.paths_ended.get(p.end, 0) + 1
        for o in p.obls:
            o['function'] = c.name
            res.obligations.append(o)
    res.inputs = inputs_holder
    res.dropped = sorted(dropped)
    res.lib_used = sorted(world.lib.used)
    res.seconds = time.time() - t0
    return res
