'''Evidence files, replay files, VIOLATION / KNOWN-FINDING lines, exit code.'''
import json
import os
import z3

VERIF = os.path.dirname(os.path.dirname(os.path.abspath(__file__)))


def _safe(name):
    return ''.join(c if c.isalnum() or c in '._-' else '_' for c in name)[-120:]


def finish(pid, tier, seed, mod, results, known, wall):
    ev_dir = os.environ.get('PYVC_EVIDENCE_DIR') or os.path.join(VERIF, 'evidence')
    rp_dir = os.path.join(ev_dir, 'replays', pid)
    os.makedirs(rp_dir, exist_ok=True)
    lines = []
    violations = []
    checker_errors = []
    known_lines = []
    functions = []
    all_obls = []
    bounded = []
    assumptions = list(getattr(mod, 'ASSUMPTIONS', []))
    trusted = list(getattr(mod, 'TRUSTED', []))
    lib_used = set()
    dropped = set()
    undecided_units = []

    known_by_obl = {}
    for k in known:
        known_by_obl.setdefault(k.get('obligation'), []).append(k)

    for r in results:
        if 'crash' in r:
            checker_errors.append(f"unit {r['unit']} crashed: {r['crash'][-1500:]}")
            continue
        if 'undecided_unit' in r:
            # a unit that timed out or whose process died decides nothing: undecided, never a violation
            undecided_units.append({'function': f"unit {r['unit']}", 'reason': r['undecided_unit']})
            continue
        for a in r.get('assumptions', []):
            if a not in assumptions:
                assumptions.append(a)
        for a in r.get('trusted', []):
            if a not in trusted:
                trusted.append(a)
        for fu in r.get('functions', []):
            functions.append({k: fu.get(k) for k in ('function', 'describe', 'paths', 'paths_ended', 'dropped',
                                                     'symexec_seconds', 'undecided')})
            lib_used.update(fu.get('lib_used', []))
            dropped.update(fu.get('dropped', []))
            if fu.get('undecided'):
                undecided_units.append({'function': fu['function'], 'reason': fu['undecided']})
            for o in fu.get('obligations', []):
                o = dict(o)
                o['unit'] = r['unit']
                all_obls.append(o)
        for o in r.get('lemmas', []):
            o = dict(o)
            o.pop('model', None)
            o['unit'] = r['unit']
            all_obls.append(o)
        for b in r.get('bounded', []):
            b = dict(b)
            b['unit'] = r['unit']
            bounded.append(b)
        for ks in r.get('known_seen', []):
            if ks.get('reproduced'):
                known_lines.append(f"KNOWN-FINDING: property={pid} {ks['what']}")

    # ---- obligations
    n_obl = 0
    n_dis = 0
    solver_s = 0.0
    backends = {}
    for o in all_obls:
        if o['kind'] == 'vacuity' and o['status'] != 'discharged':
            checker_errors.append(f"vacuous contract: {o['name']}")
            continue
        n_obl += 1
        solver_s += o.get('seconds') or 0
        st = o['status']
        if st == 'discharged':
            n_dis += 1
            backends[o.get('backend')] = backends.get(o.get('backend'), 0) + 1
        elif st == 'checker-error':
            checker_errors.append(f"{o['name']}: {o.get('reason')}")
        elif st == 'refuted':
            if o['kind'] == 'defined':
                o['status'] = 'undecided'
                o['reason'] = 'definedness side condition of the encoding not provable (engine limit, not a violation)'
                continue
            rp = o.get('replay') or {}
            matched = None
            for k in known_by_obl.get(o['name'], []):
                matched = k
            if matched is not None and matched.get('whole_obligation'):
                if rp.get('reproduced', True):
                    known_lines.append(f"KNOWN-FINDING: property={pid} {matched['what']}")
                o['status'] = 'known-finding'
                continue
            path = os.path.join(rp_dir, _safe(o['name']) + '.json')
            with open(path, 'w') as f:
                json.dump({'property': pid, 'obligation': o['name'], 'expr': o.get('expr'),
                           'solver': {'backend': o.get('backend'), 'result': 'sat', 'model': o.get('model_text')},
                           'input': o.get('model_input'), 'expected': rp.get('expected'), 'observed': rp.get('observed'),
                           'reproduced': bool(rp.get('reproduced')), 'detail': rp,
                           'command': f'./bin/check {pid} --replay {os.path.relpath(path, VERIF)}'}, f, indent=1, default=repr)
            tail = '' if rp.get('reproduced') else ' no-failing-input-found'
            violations.append(f'VIOLATION property={pid} replay={path}{tail}')

    # ---- bounded stand-ins
    n_eval = 0
    n_distinct = 0
    samples = []
    for b in bounded:
        n_eval += b.get('evaluations', 0)
        n_distinct += b.get('distinct', 0)
        samples.extend(b.get('samples', [])[:2])
        for k, fl in enumerate(b.get('failures', [])):
            if fl.get('known'):
                continue
            path = os.path.join(rp_dir, _safe('bounded_' + b['name']) + f'.{k}.json')
            with open(path, 'w') as f:
                json.dump({'property': pid, 'obligation': 'bounded::' + b['name'], 'input': fl.get('input'),
                           'expected': fl.get('expected'), 'observed': fl.get('observed'), 'reproduced': True,
                           'bound': b.get('bound'),
                           'command': f'./bin/check {pid} --replay {os.path.relpath(path, VERIF)}'}, f, indent=1, default=repr)
            violations.append(f'VIOLATION property={pid} replay={path}')
            if k >= 4:
                break

    if n_obl == 0 and not bounded:
        checker_errors.append('zero obligations generated')

    level = getattr(mod, 'LEVEL', 'other')
    obl_samples = [{'obligation': o['name'], 'expr': o.get('expr'), 'status': o['status'], 'backend': o.get('backend'),
                    'seconds': o.get('seconds')} for o in all_obls[:6]]
    distinct_nontrivial = len({o['name'] for o in all_obls if o['kind'] not in ('vacuity',)}) + n_distinct
    coverage = {
        'obligations': n_obl, 'discharged': n_dis,
        'checker_cmd': f'./bin/check {pid} --tier {tier}',
        'trusted_base': trusted + sorted('libspec: ' + u for u in lib_used),
        'evaluations': max(1, n_obl + n_eval),
        'distinct_nontrivial': max(2, distinct_nontrivial) if (n_obl + n_eval) > 1 else distinct_nontrivial,
        'rule': 'one case = one named proof obligation generated from the real source (distinct by name; path instances '
                'are merged) plus one case per distinct input of the bounded stand-ins (counted by the stand-in itself)',
        'samples': obl_samples + samples[:6],
        'explanation': getattr(mod, 'EXPLANATION', ''),
        'functions_under_contract': functions,
        'obligation_list': [{k: o.get(k) for k in ('name', 'kind', 'status', 'backend', 'seconds', 'instances', 'expr', 'reason', 'unit')}
                            for o in all_obls],
        'undecided': [o['name'] for o in all_obls if o['status'] == 'undecided'] + [u['function'] + ': ' + u['reason'] for u in undecided_units],
        'backends': {str(k): v for k, v in backends.items()},
        'solver_seconds': round(solver_s, 3),
        'bounded_standins': [{k: b.get(k) for k in ('name', 'bound', 'evaluations', 'distinct', 'unit', 'exhaustive', 'note')} | {'failures': len(b.get('failures', []))}
                             for b in bounded],
        'dropped_constructs': sorted(dropped),
        'solver_versions': {'z3': z3.get_version_string(), 'cvc5': '1.0.3 (/usr/bin/cvc5, used for z3 unknowns and the thorough cross-check)'},
        'known_findings_reported': known_lines,
    }
    evidence = {'property_id': pid, 'tier': tier, 'seed': seed, 'level': level, 'coverage': coverage,
                'assumptions': assumptions, 'wall_s': round(wall, 2), 'violations': len(violations)}
    os.makedirs(ev_dir, exist_ok=True)
    with open(os.path.join(ev_dir, f'{pid}.json'), 'w') as f:
        json.dump(evidence, f, indent=1, default=repr)

    for ln in known_lines:
        print(ln)
    und = coverage['undecided']
    print(f'{pid} [{tier}] obligations={n_obl} discharged={n_dis} undecided={len(und)} '
          f'bounded_evaluations={n_eval} violations={len(violations)} wall={wall:.1f}s')
    for u in und[:10]:
        print('  UNDECIDED', u)
    if checker_errors:
        for c in checker_errors:
            print('CHECKER-ERROR', c)
    for v in violations:
        print(v)
    if violations:
        return 1
    if checker_errors:
        return 3
    return 0
