'''Sorts and theories shared by every contract (DESIGN.md section 2.3).

Num = Fin(Real) | PInf | NInf | NaN  -- IEEE-754 special values exact, finite arithmetic
mathematical (assumption A-real: rounding / overflow / underflow of finite results ignored).
'''
import z3

# ---------------------------------------------------------------------------------------
# Num
_Num = z3.Datatype('Num')
_Num.declare('Fin', ('re', z3.RealSort()))
_Num.declare('PInf')
_Num.declare('NInf')
_Num.declare('NaN')
Num = _Num.create()
Fin, PInf, NInf, NaN = Num.Fin, Num.PInf, Num.NInf, Num.NaN
re = Num.re
is_fin, is_pinf, is_ninf, is_nan = Num.is_Fin, Num.is_PInf, Num.is_NInf, Num.is_NaN

R0 = z3.RealVal(0)


def num_const(x):
    import math
    if isinstance(x, bool):
        x = int(x)
    if isinstance(x, float):
        if math.isnan(x):
            return NaN
        if math.isinf(x):
            return PInf if x > 0 else NInf
        return Fin(z3.RealVal(repr(x)))
    return Fin(z3.RealVal(x))


def is_inf(a):
    return z3.Or(is_pinf(a), is_ninf(a))


def sign_pos(a):
    '''a > 0 (including +inf)'''
    return z3.Or(is_pinf(a), z3.And(is_fin(a), re(a) > 0))


def sign_neg(a):
    return z3.Or(is_ninf(a), z3.And(is_fin(a), re(a) < 0))


def is_zero(a):
    return z3.And(is_fin(a), re(a) == 0)


def num_neg(a):
    return z3.If(is_fin(a), Fin(-re(a)), z3.If(is_pinf(a), NInf, z3.If(is_ninf(a), PInf, NaN)))


def num_add(a, b):
    return z3.If(z3.Or(is_nan(a), is_nan(b)), NaN,
           z3.If(z3.And(is_fin(a), is_fin(b)), Fin(re(a) + re(b)),
           z3.If(z3.Or(z3.And(is_pinf(a), is_ninf(b)), z3.And(is_ninf(a), is_pinf(b))), NaN,
           z3.If(z3.Or(is_pinf(a), is_pinf(b)), PInf, NInf))))


def num_sub(a, b):
    return num_add(a, num_neg(b))


def num_mul(a, b):
    pos = z3.Or(z3.And(sign_pos(a), sign_pos(b)), z3.And(sign_neg(a), sign_neg(b)))
    return z3.If(z3.Or(is_nan(a), is_nan(b)), NaN,
           z3.If(z3.And(is_fin(a), is_fin(b)), Fin(re(a) * re(b)),
           z3.If(z3.Or(is_zero(a), is_zero(b)), NaN,      # 0 * inf
           z3.If(pos, PInf, NInf))))


def num_div(a, b):
    '''numpy float division (no exception: x/0 = +-inf, 0/0 = nan).'''
    pos = z3.Or(z3.And(sign_pos(a), sign_pos(b)), z3.And(sign_neg(a), sign_neg(b)))
    return z3.If(z3.Or(is_nan(a), is_nan(b)), NaN,
           z3.If(z3.And(is_fin(a), is_fin(b)),
                 z3.If(re(b) != 0, Fin(re(a) / re(b)),
                       z3.If(re(a) == 0, NaN, z3.If(re(a) > 0, PInf, NInf))),   # A-real: +0 only
           z3.If(z3.And(is_inf(a), is_inf(b)), NaN,
           z3.If(is_inf(b), Fin(R0),
                 # a infinite, b finite (b = 0 counts as +0)
                 z3.If(z3.Or(pos, z3.And(is_zero(b), is_pinf(a))), PInf, NInf)))))


def num_sq(a):
    return z3.If(is_nan(a), NaN, z3.If(is_fin(a), Fin(re(a) * re(a)), PInf))


def num_abs(a):
    return z3.If(is_fin(a), Fin(z3.If(re(a) >= 0, re(a), -re(a))), z3.If(is_nan(a), NaN, PInf))


# sqrt on reals: uninterpreted, axioms instantiated at ground terms (never quantified)
rsqrt = z3.Function('rsqrt', z3.RealSort(), z3.RealSort())


def rsqrt_axioms(terms):
    '''Ground instances of: x >= 0 -> rsqrt(x) >= 0 and rsqrt(x)^2 = x.'''
    out = []
    seen = set()
    for t in terms:
        for app in _subterms(t):
            if z3.is_app(app) and app.decl().eq(rsqrt) and app.get_id() not in seen:
                seen.add(app.get_id())
                x = app.arg(0)
                if any(z3.is_var(u) for u in _subterms(x)):
                    continue          # under a binder: no ground instance here
                out.append(z3.Implies(x >= 0, z3.And(app >= 0, app * app == x)))
                out.append(z3.Implies(x == 0, app == 0))
    return out


def _subterms(t):
    stack = [t]
    seen = set()
    while stack:
        u = stack.pop()
        if u.get_id() in seen:
            continue
        seen.add(u.get_id())
        yield u
        if z3.is_app(u):
            stack.extend(u.children())
        elif z3.is_quantifier(u):
            stack.append(u.body())


def num_sqrt(a):
    '''numpy sqrt: nan for negative arguments and nan, +inf for +inf.'''
    return z3.If(is_nan(a), NaN, z3.If(is_pinf(a), PInf, z3.If(is_ninf(a), NaN,
           z3.If(re(a) < 0, NaN, Fin(rsqrt(re(a)))))))


def num_hypot(a, b):
    '''C99 / numpy hypot: +inf if either argument is infinite (even when the other one is nan), else nan if either is nan, else sqrt(a^2 + b^2).'''
    return z3.If(z3.Or(is_inf(a), is_inf(b)), PInf, z3.If(z3.Or(is_nan(a), is_nan(b)), NaN, Fin(rsqrt(re(a) * re(a) + re(b) * re(b)))))


def num_isclose(a, b, rtol=None, atol=None):
    """numpy.isclose with the default tolerances: finite values within atol + rtol * |b| (1e-8 + 1e-5 |b|), or the same infinity; never for a NaN."""
    rtol = z3.RealVal('1/100000') if rtol is None else rtol
    atol = z3.RealVal('1/100000000') if atol is None else atol
    d = re(a) - re(b)
    absd = z3.If(d >= 0, d, -d)
    absb = z3.If(re(b) >= 0, re(b), -re(b))
    return z3.And(z3.Not(is_nan(a)), z3.Not(is_nan(b)),
                  z3.Or(z3.And(is_fin(a), is_fin(b), absd <= atol + rtol * absb), z3.And(is_inf(a), a == b)))


def num_lt(a, b):
    return z3.And(z3.Not(is_nan(a)), z3.Not(is_nan(b)),
                  z3.Or(z3.And(is_fin(a), is_fin(b), re(a) < re(b)),
                        z3.And(is_ninf(a), z3.Not(is_ninf(b))),
                        z3.And(is_pinf(b), z3.Not(is_pinf(a)))))


def num_le(a, b):
    return z3.And(z3.Not(is_nan(a)), z3.Not(is_nan(b)),
                  z3.Or(z3.And(is_fin(a), is_fin(b), re(a) <= re(b)),
                        is_ninf(a), is_pinf(b)))


def num_eq(a, b):
    '''IEEE equality: NaN != NaN.'''
    return z3.And(z3.Not(is_nan(a)), a == b)


def num_ne(a, b):
    return z3.Not(num_eq(a, b))


# ---------------------------------------------------------------------------------------
# named sorts / enums / functions created on demand (one z3 context per process)
_sorts = {}
_enums = {}
_funcs = {}


def usort(name):
    if name not in _sorts:
        _sorts[name] = z3.DeclareSort(name)
    return _sorts[name]


def enum_sort(name, members=None):
    if name not in _enums:
        assert members, f'enum {name} not declared'
        sort, consts = z3.EnumSort(name, list(members))
        _enums[name] = (sort, dict(zip(members, consts)))
    return _enums[name]


def func(name, *sorts):
    key = name
    if key not in _funcs:
        _funcs[key] = z3.Function(name, *sorts)
    return _funcs[key]


def opt_sort(name, inner):
    '''Option datatype over a z3 sort.'''
    key = 'Opt_' + name
    if key not in _sorts:
        d = z3.Datatype(key)
        d.declare('none')
        d.declare('some', ('get', inner))
        _sorts[key] = d.create()
    return _sorts[key]
