'''Frame obligations by dataflow over the real AST (DESIGN.md C13): a read-only entry point writes nothing that is reachable
from its arguments.

For every function under this contract the analysis computes which local names may denote (an object reachable from)
an argument -- `param-reachable` -- and reports every write whose target is rooted at such a name:

  attribute store / augmented store     a.x = v      a.x += v
  item store / deletion                 a[i] = v     del a[i]       a[i] += v
  augmented assignment to a name        a += v       (in place for lists / ndarrays)
  call of a mutating method             a.append(v)  a.sort()  a.update(..)  a.fill(..)  a.setdefault(..) ...
  numpy out= / in-place helpers         np.add(x, y, out=a)   np.put(a, ..)   np.copyto(a, ..)

A name stops being param-reachable when it is (re)bound to a value that is fresh by construction (literal, comprehension,
arithmetic, call of a copying / constructing function).  Calls of functions outside the analysed set that receive a
param-reachable argument are *assumed* not to write it and are listed in the evidence.  The analysis is syntactic and
flow-insensitive inside a function (a name is param-reachable if any of its bindings is), hence conservative.

Verdicts: a write rooted at a parameter or at self is `refuted`; a write rooted at a local that is only possibly
param-reachable is `undecided` (never a violation); no such write: `discharged`.'''
import ast

from . import extract

MUTATORS = {'append', 'extend', 'insert', 'remove', 'pop', 'clear', 'sort', 'reverse', 'update', 'setdefault', 'popitem', 'add', 'discard',
            'difference_update', 'intersection_update', 'symmetric_difference_update', 'fill', 'resize', 'itemset', 'put', 'partition',
            'setflags', 'byteswap', 'move_to_end', 'appendleft', 'extendleft', '__setitem__', '__delitem__', '__iadd__', 'sort_values'}
NP_COPY_FALSE_INPLACE = {'nan_to_num'}        # numpy functions that overwrite their first argument when copy=False
NP_INPLACE = {'put', 'copyto', 'place', 'putmask', 'fill_diagonal', 'put_along_axis'}
# calls that return an object sharing nothing writable with their arguments (or an immutable one)
FRESH_CALLS = {'list', 'dict', 'set', 'tuple', 'frozenset', 'sorted', 'len', 'str', 'repr', 'int', 'float', 'bool', 'sum', 'min', 'max', 'any', 'all', 'abs',
               'range', 'enumerate', 'zip', 'map', 'filter', 'reversed', 'isinstance', 'hasattr', 'type', 'id', 'hash', 'format', 'round', 'divmod',
               'deepcopy', 'copy', 'array', 'asarray_copy', 'zeros', 'ones', 'empty', 'full', 'zeros_like', 'ones_like', 'full_like', 'empty_like',
               'arange', 'linspace', 'where', 'logical_and', 'logical_or', 'logical_not', 'isnan', 'isinf', 'isfinite', 'fabs', 'absolute', 'sqrt',
               'less', 'less_equal', 'greater', 'greater_equal', 'equal', 'not_equal', 'count_nonzero', 'nonzero', 'argsort', 'argwhere', 'unique',
               'concatenate', 'hstack', 'vstack', 'stack', 'append', 'flip', 'isclose', 'allclose', 'array_equal', 'prod', 'mean', 'std', 'cumsum',
               'fingerprint', 'percent_fmt', 'join', 'encode', 'decode', 'tolist', 'astype', 'copy', 'flatten', 'item', 'keys', 'values', 'items',
               'get', 'index', 'count', 'startswith', 'endswith', 'split', 'strip', 'lower', 'upper', 'replace', 'format', 'nditer', 'ndindex',
               'OrderedDict', 'defaultdict', 'namedtuple', 'partial', 'product', 'chain', 'dumps', 'loads'}
# methods that return a view / the object itself / an inner object: the result stays param-reachable when the receiver is
VIEW_CALLS = {'reshape', 'ravel', 'squeeze', 'view', 'transpose', 'swapaxes', 'asarray', 'asanyarray', 'atleast_1d', 'atleast_2d', 'broadcast_to',
              'setdefault', 'pop', '__getitem__', 'get'}


class FrameResult:
    def __init__(self, name):
        self.name = name
        self.writes = []          # (lineno, text, root, status)
        self.assumed = set()      # external calls given a param-reachable argument
        self.undecided = None


def _root(node):
    '''name at the root of an access path, plus whether the path goes through a call'''
    through_call = False
    while True:
        if isinstance(node, (ast.Attribute, ast.Subscript, ast.Starred)):
            node = node.value
        elif isinstance(node, ast.Call):
            through_call = True
            f = node.func
            node = f.value if isinstance(f, ast.Attribute) else (node.args[0] if node.args else None)
            if node is None:
                return None, True
        else:
            break
    if isinstance(node, ast.Name):
        return node.id, through_call
    return None, through_call


def _calls_name(call):
    f = call.func
    if isinstance(f, ast.Name):
        return f.id
    if isinstance(f, ast.Attribute):
        return f.attr
    return None


class _Analysis(ast.NodeVisitor):
    def __init__(self, fn, analysed_names, is_init=False):
        self.fn = fn
        self.analysed = analysed_names
        a = fn.args
        self.params = [x.arg for x in a.posonlyargs + a.args + a.kwonlyargs] + ([a.vararg.arg] if a.vararg else []) + ([a.kwarg.arg] if a.kwarg else [])
        self.reach = {p: 'param' for p in self.params}        # name -> 'param' | 'maybe'
        self.is_init = is_init

    # ---- which expressions may denote a param-reachable object
    def may_reach(self, e):
        if e is None or isinstance(e, (ast.Constant, ast.JoinedStr, ast.Compare, ast.BoolOp, ast.UnaryOp, ast.BinOp, ast.Lambda,
                                       ast.ListComp, ast.SetComp, ast.DictComp, ast.GeneratorExp, ast.List, ast.Tuple, ast.Set, ast.Dict)):
            # literals and comprehensions build new containers; what they hold may still be reachable (see 'holds')
            return None
        if isinstance(e, ast.Name):
            r = self.reach.get(e.id)
            return None if r == 'holds' else r
        if isinstance(e, (ast.Attribute, ast.Subscript, ast.Starred)):
            base = e.value
            if isinstance(base, ast.Name) and self.reach.get(base.id) == 'holds':
                return 'maybe'               # an element of a new container that holds argument objects
            return self.may_reach(base)
        if isinstance(e, ast.IfExp):
            a, b = self.may_reach(e.body), self.may_reach(e.orelse)
            return a or b
        if isinstance(e, ast.NamedExpr):
            return self.may_reach(e.value)
        if isinstance(e, ast.Call):
            name = _calls_name(e)
            if name in FRESH_CALLS and name not in VIEW_CALLS:
                return None
            if name and name[:1].isupper() and not name.isupper():
                return None                  # a class constructor returns a new object
            recv = e.func.value if isinstance(e.func, ast.Attribute) else None
            args = list(e.args) + [k.value for k in e.keywords]
            touched = [self.may_reach(x) for x in ([recv] if recv is not None else []) + args]
            if any(touched):
                return 'maybe'
            return None
        if isinstance(e, ast.Await):
            return self.may_reach(e.value)
        return 'maybe'

    def holds(self, e):
        '''a fresh container whose elements may be param-reachable objects'''
        if isinstance(e, (ast.List, ast.Tuple, ast.Set)):
            return any(self.may_reach(x) or self.holds(x) for x in e.elts)
        if isinstance(e, ast.Dict):
            return any(self.may_reach(x) or self.holds(x) for x in e.values if x is not None)
        if isinstance(e, (ast.ListComp, ast.SetComp, ast.GeneratorExp)):
            return bool(self.may_reach(e.elt) or self.holds(e.elt))
        if isinstance(e, ast.DictComp):
            return bool(self.may_reach(e.value) or self.holds(e.value))
        if isinstance(e, ast.Call) and _calls_name(e) in ('list', 'tuple', 'sorted', 'zip', 'dict', 'reversed', 'enumerate', 'filter', 'map'):
            return any(self.may_reach(x) or self.holds(x) for x in e.args)
        return False

    def bind(self, target, value_reach, holds=False):
        if isinstance(target, ast.Name):
            cur = self.reach.get(target.id)
            if cur == 'param' and target.id in self.params:
                return                       # a parameter name stays a parameter (flow-insensitive, conservative)
            if value_reach:
                self.reach[target.id] = 'maybe'          # may be (part of) an argument
            elif holds and cur is None:
                self.reach[target.id] = 'holds'          # a new container whose elements may be (parts of) arguments
        elif isinstance(target, (ast.Tuple, ast.List)):
            for t in target.elts:
                self.bind(t, value_reach, holds)
        elif isinstance(target, ast.Starred):
            self.bind(target.value, value_reach, holds)

    def collect_bindings(self):
        # fixpoint over all bindings of the function (flow-insensitive)
        for _ in range(6):
            before = dict(self.reach)
            for n in ast.walk(self.fn):
                if isinstance(n, ast.Assign):
                    r, h = self.may_reach(n.value), self.holds(n.value)
                    for t in n.targets:
                        self.bind(t, r, h)
                elif isinstance(n, ast.AnnAssign) and n.value is not None:
                    self.bind(n.target, self.may_reach(n.value), self.holds(n.value))
                elif isinstance(n, ast.NamedExpr):
                    self.bind(n.target, self.may_reach(n.value), self.holds(n.value))
                elif isinstance(n, (ast.For, ast.comprehension)):
                    it = n.iter
                    r = self.may_reach(it) or ('maybe' if self.holds(it) else None)
                    if r == 'holds':
                        r = 'maybe'
                    # iterating a param-reachable container yields param-reachable elements
                    self.bind(n.target, 'maybe' if r else None, False)
                elif isinstance(n, ast.With):
                    for item in n.items:
                        if item.optional_vars is not None:
                            self.bind(item.optional_vars, self.may_reach(item.context_expr), False)
            if self.reach == before:
                break

    def run(self, res):
        self.collect_bindings()
        for n in ast.walk(self.fn):
            targets = []
            if isinstance(n, ast.Assign):
                targets = [(t, 'store') for t in n.targets]
            elif isinstance(n, ast.AugAssign):
                targets = [(n.target, 'augmented')]
            elif isinstance(n, ast.AnnAssign) and n.value is not None:
                targets = [(n.target, 'store')]
            elif isinstance(n, ast.Delete):
                targets = [(t, 'del') for t in n.targets]
            for t, how in targets:
                for tt in (t.elts if isinstance(t, (ast.Tuple, ast.List)) else [t]):
                    if isinstance(tt, ast.Name):
                        if how == 'augmented' and self.reach.get(tt.id):
                            self.note(res, n, tt, f'{tt.id} {ast.unparse(n.op) if hasattr(ast, "unparse") else ""}= ... (in place for lists / arrays)', weak=True)
                        continue
                    if isinstance(tt, (ast.Attribute, ast.Subscript)):
                        self.note(res, n, tt.value, ast.unparse(n)[:100])
            if isinstance(n, ast.Call):
                name = _calls_name(n)
                f = n.func
                if isinstance(f, ast.Attribute) and name in MUTATORS:
                    self.note(res, n, f.value, ast.unparse(n)[:100])
                if isinstance(f, ast.Attribute) and isinstance(f.value, ast.Name) and f.value.id in ('np', 'numpy') and name in NP_INPLACE and n.args:
                    self.note(res, n, n.args[0], ast.unparse(n)[:100])
                for k in n.keywords:
                    if k.arg == 'out':
                        self.note(res, n, k.value, ast.unparse(n)[:100])
                    if k.arg == 'copy' and isinstance(k.value, ast.Constant) and k.value.value is False and name in NP_COPY_FALSE_INPLACE and n.args:
                        self.note(res, n, n.args[0], ast.unparse(n)[:100])
                # external calls handed a param-reachable argument: assumed not to write it
                if name not in FRESH_CALLS and name not in MUTATORS:
                    args = list(n.args) + [k.value for k in n.keywords]
                    if any(self.may_reach(a) for a in args):
                        if name in self.analysed:
                            continue
                        res.assumed.add(ast.unparse(f)[:60])

    def note(self, res, stmt, target_base, text, weak=False):
        root, through_call = _root(target_base)
        if root is None:
            r = self.may_reach(target_base)
            if r:
                res.writes.append((stmt.lineno, text, '<expression>', 'undecided'))
            return
        r = self.reach.get(root)
        if not r:
            return
        if r == 'holds':
            # the container itself is new: only writes THROUGH one of its elements matter
            if isinstance(target_base, ast.Name):
                return
            r = 'maybe'
        if self.is_init and root == self.params[0] and isinstance(target_base, ast.Name):
            return                     # self.x = ... in a constructor initialises the new object
        status = 'refuted' if (r == 'param' and not through_call and not weak) else 'undecided'
        res.writes.append((stmt.lineno, text, root, status))


def analyse(relpath, qualname, analysed_names=()):
    res = FrameResult(f'{relpath}::{qualname}')
    try:
        fn = extract.find(relpath, qualname)
    except extract.Missing as e:
        res.undecided = str(e)
        return res, None
    if not isinstance(fn, (ast.FunctionDef, ast.AsyncFunctionDef)):
        res.undecided = 'not a function'
        return res, None
    a = _Analysis(fn, set(analysed_names), is_init=(fn.name == '__init__'))
    a.run(res)
    return res, fn


def functions_of(relpath, include_methods=True, skip=()):
    '''qualified names of every function / method defined in a module'''
    tree, _ = extract.module_ast(relpath)
    out = []
    for st in tree.body:
        if isinstance(st, ast.FunctionDef) and st.name not in skip:
            out.append(st.name)
        elif isinstance(st, ast.ClassDef) and include_methods:
            for m in st.body:
                if isinstance(m, ast.FunctionDef) and f'{st.name}.{m.name}' not in skip and m.name not in skip:
                    out.append(f'{st.name}.{m.name}')
    return out
