'''Solver portfolio and verdict protocol (DESIGN.md section 2.6).

unsat               -> discharged (backend + seconds recorded)
sat                 -> refuted, model returned for native replay
unknown / timeout   -> undecided (never a violation)
'''
import os
import subprocess
import tempfile
import time
import z3

from . import theory as th
from .values import SV, SObj, Undecided, zsort, opt_is_none, opt_get, seq_len, seq_arr, map_dom, map_val

QUICK_MS = int(os.environ.get('PYVC_TIMEOUT_MS', '20000'))


def tier_timeout(tier):
    return QUICK_MS if tier == 'quick' else 6 * QUICK_MS


def check(pc, goal, timeout_ms, dump=None, second=False):
    '''validity of  /\\ pc -> goal'''
    t0 = time.time()
    s = z3.Solver()
    # a universally quantified goal is proved for fresh constants (skolemisation by hand, so that ground-instantiated axioms such as
    # those of rsqrt see the skolem terms)
    k = 0
    while z3.is_quantifier(goal) and goal.is_forall() and k < 8:
        consts = [z3.Const(f'sk!{goal.var_name(j)}!{k}_{j}', goal.var_sort(j)) for j in range(goal.num_vars())]
        goal = z3.substitute_vars(goal.body(), *reversed(consts))
        k += 1
    fs = list(pc) + [z3.Not(goal)]
    fs += th.rsqrt_axioms(fs)
    s.add(fs)
    # string VCs: z3's sequence solver is unstable on them (same query: seconds or minutes), cvc5 decides them quickly --
    # give z3 a short budget and hand the unknowns to cvc5 at once
    stringy = 'String' in s.sexpr()[:200000] or '(str.' in s.sexpr()[:200000]
    s.set('timeout', min(timeout_ms, 4000) if stringy else timeout_ms)
    if dump:
        try:
            with open(dump, 'w') as f:
                f.write(s.to_smt2())
        except Exception:      # dumping is a convenience only
            pass
    r = s.check()
    out = {'backend': 'z3-' + z3.get_version_string(), 'seconds': round(time.time() - t0, 4)}
    if r == z3.unsat:
        out['status'] = 'discharged'
        if second:
            r2 = _cvc5(s.to_smt2(), timeout_ms)
            out['second'] = r2
            if r2 == 'sat':
                out['status'] = 'solver-disagreement'
        return out
    if r == z3.sat:
        out['status'] = 'refuted'
        m0 = s.model()      # taken now: after the push / pop of the search for a smaller model the solver no longer holds one
        out['model'] = _small_model(s, fs) or m0
        return out
    # neither proved nor refuted: look for a counter-model with small sizes (adding constraints only -- a model found here is a model of the VC;
    # MBQI terminates on the small instances where it diverges on the unbounded one)
    if not stringy:
        m = _small_size_model(fs)
        if m is not None:
            out['status'] = 'refuted'
            out['model'] = m
            out['backend'] += ' (counter-model search with small integer constants and 1-3 elements per uninterpreted sort)'
            out['seconds'] = round(time.time() - t0, 4)
            return out
    # unknown: quantifier instantiation is order-sensitive -- retry with other seeds (an unsat answer is sound whatever the seed)
    for seed in (() if stringy else (7, 23)):
        s2 = z3.Solver()
        s2.set('timeout', timeout_ms)
        s2.set('random_seed', seed)
        s2.set('smt.random_seed', seed) if False else None
        s2.add(fs)
        r = s2.check()
        if r == z3.unsat:
            out['status'] = 'discharged'
            out['backend'] += f' (seed {seed})'
            out['seconds'] = round(time.time() - t0, 4)
            return out
        if r == z3.sat:
            break
    # still unknown: second solver on the same SMT-LIB text
    r2 = _cvc5(s.to_smt2(), timeout_ms)
    out['seconds'] = round(time.time() - t0, 4)
    if r2 == 'unsat':
        out['status'] = 'discharged'
        out['backend'] = 'cvc5-1.0.3 (z3: unknown)'
        return out
    out['status'] = 'undecided'
    out['reason'] = f'z3: {s.reason_unknown()}; cvc5: {r2}'
    return out


def _int_consts(fs):
    ints, seen = {}, set()

    def walk(t):
        if t.get_id() in seen:
            return
        seen.add(t.get_id())
        if z3.is_quantifier(t):
            walk(t.body())
        elif z3.is_app(t):
            if t.num_args() == 0 and t.sort() == z3.IntSort() and t.decl().kind() == z3.Z3_OP_UNINTERPRETED:
                ints[t.get_id()] = t
            for c in t.children():
                walk(c)
    for f in fs:
        walk(f)
    return list(ints.values())


def _unint_sorts(fs):
    sorts, seen = {}, set()

    def walk(t):
        if t.get_id() in seen:
            return
        seen.add(t.get_id())
        if z3.is_quantifier(t):
            for k in range(t.num_vars()):
                so = t.var_sort(k)
                if so.kind() == z3.Z3_UNINTERPRETED_SORT:
                    sorts[so.name()] = so
            walk(t.body())
        elif z3.is_app(t):
            so = t.sort()
            if so.kind() == z3.Z3_UNINTERPRETED_SORT:
                sorts[so.name()] = so
            for c in t.children():
                walk(c)
    for f in fs:
        walk(f)
    return list(sorts.values())


def _small_size_model(fs):
    '''constraints are only ADDED (small integer constants, small uninterpreted sorts): a model found here is a model of the VC'''
    ints = _int_consts(fs)
    sorts = _unint_sorts(fs)
    if not ints and not sorts:
        return None
    tries = [((0, 1), None), ((-1, 2), None), ((0, 300), None)] if ints else []
    if sorts:
        # one element per uninterpreted sort first: MBQI finishes on it where it diverges with two
        tries = [((0, 1), 1), ((0, 2), 1)] + tries + [((0, 1), 2), ((-1, 2), 3)]
    # model finding with quantifiers is seed-sensitive (the same query: sat in 1 s or timeout): several short attempts rather than a long one
    for seed, budget in ((0, 2500), (3, 2500), (5, 2500), (11, 2500), (0, 8000)):
        for rng, card in tries:
            s = z3.Solver()
            s.set('timeout', budget)
            s.set('random_seed', seed)
            s.add(fs)
            if rng is not None:
                for t in ints:
                    s.add(t >= rng[0], t <= rng[1])
            if card is not None:
                for so in sorts:
                    x = z3.Const('x!card', so)
                    elems = [z3.Const(f'{so.name()}!el{k}', so) for k in range(card)]
                    s.add(z3.ForAll([x], z3.Or(*[x == e for e in elems])))
            if s.check() == z3.sat:
                return s.model()
    return None


def _small_model(s, fs):
    '''prefer a counter-model with small integers (replays need concrete, small inputs)'''
    ints = {}
    for f in fs:
        for t in th._subterms(f):
            if z3.is_app(t) and t.sort() == z3.IntSort() and not z3.is_int_value(t):
                if t.num_args() == 0 and t.decl().kind() == z3.Z3_OP_UNINTERPRETED:
                    ints[t.get_id()] = t
                elif t.decl().kind() == z3.Z3_OP_DT_ACCESSOR and t.arg(0).num_args() == 0:
                    ints[t.get_id()] = t
    if not ints:
        return None
    s.set('timeout', 3000)
    for bound in (3, 6, 20):
        s.push()
        for t in ints.values():
            s.add(t >= -bound, t <= bound)
        r = s.check()
        m = s.model() if r == z3.sat else None
        s.pop()
        if m is not None:
            return m
    return None


def _cvc5(smt2, timeout_ms):
    try:
        with tempfile.NamedTemporaryFile('w', suffix='.smt2', delete=False, dir='/var/tmp') as f:
            f.write('(set-logic ALL)\n' + smt2)
            name = f.name
        try:
            p = subprocess.run(['/usr/bin/cvc5', '--tlimit=%d' % timeout_ms, '--strings-exp', name],
                               capture_output=True, text=True, timeout=timeout_ms / 1000 + 5)
            ans = p.stdout.strip().split('\n')[0] if p.stdout.strip() else 'error'
        finally:
            os.unlink(name)
        return ans if ans in ('sat', 'unsat', 'unknown') else 'error'
    except Exception as e:   # noqa
        return 'error'


# ---------------------------------------------------------------------------------------
def py_of(model, v, heap=None):
    '''concretise a symbolic value under a model (model completion on)'''
    if isinstance(v, SV):
        return _py_term(model, v.typ, model.eval(v.t, model_completion=True))
    if isinstance(v, SObj) and heap is not None:
        return {'__class__': v.cls, **{k: py_of(model, x, heap) for k, x in heap[v.oid]['fields'].items()}}
    if isinstance(v, tuple):
        return tuple(py_of(model, x, heap) for x in v)
    if isinstance(v, list):
        return [py_of(model, x, heap) for x in v]
    if isinstance(v, dict):
        return {k: py_of(model, x, heap) for k, x in v.items()}
    if isinstance(v, (int, float, str, bool)) or v is None:
        return v
    return repr(v)


def _py_term(model, typ, t):
    k = typ.kind
    if k == 'Int':
        return t.as_long()
    if k == 'Bool':
        return z3.is_true(t)
    if k == 'Real':
        return _real(t)
    if k == 'Num':
        ev = lambda x: model.eval(x, model_completion=True)
        if z3.is_true(ev(th.is_nan(t))):
            return float('nan')
        if z3.is_true(ev(th.is_pinf(t))):
            return float('inf')
        if z3.is_true(ev(th.is_ninf(t))):
            return float('-inf')
        return _real(ev(th.re(t)))
    if k == 'Str':
        return t.as_string()
    if k in ('Ref', 'Enum'):
        return str(t)
    if k == 'Opt':
        s = zsort(typ)
        if z3.is_true(model.eval(s.is_none(t), model_completion=True)):
            return None
        return _py_term(model, typ.args[0], model.eval(s.get(t), model_completion=True))
    if k == 'Set':
        et = typ.args[0]
        out = []
        for u in _universe(model, et):
            if z3.is_true(model.eval(t[u], model_completion=True)):
                out.append(_py_term(model, et, u))
        return {'__set__': out}
    if k == 'Seq':
        s = zsort(typ)
        n = model.eval(s.len(t), model_completion=True).as_long()
        arr = s.arr(t)
        return [_py_term(model, typ.args[0], model.eval(arr[i], model_completion=True)) for i in range(max(0, min(n, 12)))]
    if k == 'Map':
        s = zsort(typ)
        out = {}
        for u in _universe(model, typ.args[0]):
            if z3.is_true(model.eval(s.dom(t)[u], model_completion=True)):
                key = _py_term(model, typ.args[0], u)
                out[str(key)] = _py_term(model, typ.args[1], model.eval(s.val(t)[u], model_completion=True))
        return out
    if k == 'Tuple':
        s = zsort(typ)
        return tuple(_py_term(model, a, model.eval(s.accessor(0, i)(t), model_completion=True)) for i, a in enumerate(typ.args))
    return str(t)


def _universe(model, typ):
    so = zsort(typ)
    if typ.kind == 'Ref':
        u = model.get_universe(so)
        return list(u) if u is not None else []
    if typ.kind == 'Enum':
        return [so.constructor(i)() for i in range(so.num_constructors())]
    if typ.kind == 'Int':
        return [z3.IntVal(i) for i in range(-4, 9)]
    if typ.kind == 'Bool':
        return [z3.BoolVal(False), z3.BoolVal(True)]
    return []


def _real(t):
    try:
        if z3.is_rational_value(t):
            return float(t.numerator_as_long()) / float(t.denominator_as_long())
        if z3.is_algebraic_value(t):
            return float(t.approx(12).as_decimal(12).rstrip('?'))
        return float(t.as_decimal(12).rstrip('?'))
    except Exception:
        return str(t)
