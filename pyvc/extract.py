'''Locate the real functions in the working tree.  Nothing is copied by hand: every run
parses the file under $REPO and records a hash of the function's AST.'''
import ast
import hashlib
import os

REPO = os.environ.get('REPO', '/repo')

_cache = {}


class Missing(Exception):
    pass


def module_ast(relpath):
    path = os.path.join(REPO, relpath)
    key = (path, os.path.getmtime(path)) if os.path.exists(path) else None
    if key is None:
        raise Missing(f'{relpath}: file not found')
    if key not in _cache:
        with open(path, encoding='utf-8') as f:
            src = f.read()
        _cache[key] = (ast.parse(src, filename=path), src)
    return _cache[key]


def find(relpath, qualname):
    '''Return the ast.FunctionDef / ClassDef named by a dotted qualname.'''
    tree, _ = module_ast(relpath)
    node = tree
    for part in qualname.split('.'):
        nxt = None
        for child in ast.iter_child_nodes(node):
            if isinstance(child, (ast.FunctionDef, ast.ClassDef, ast.AsyncFunctionDef)) \
                    and child.name == part:
                nxt = child
                break
        if nxt is None:
            # look one level into if/try blocks at module level
            for child in ast.walk(node):
                if isinstance(child, (ast.FunctionDef, ast.ClassDef)) and child.name == part \
                        and child is not node:
                    nxt = child
                    break
        if nxt is None:
            raise Missing(f'{relpath}::{qualname}: not found')
        node = nxt
    return node


def source_of(relpath, node):
    _, src = module_ast(relpath)
    return ast.get_source_segment(src, node)


def strip_doc(fn):
    '''Function body without its docstring (the first dropped construct).'''
    body = fn.body
    if body and isinstance(body[0], ast.Expr) and isinstance(body[0].value, ast.Constant) \
            and isinstance(body[0].value.value, str):
        return body[1:]
    return body


def fn_hash(fn):
    return hashlib.sha256(ast.dump(fn, include_attributes=False).encode()).hexdigest()[:16]


def describe(relpath, qualname):
    fn = find(relpath, qualname)
    return {'file': relpath, 'function': qualname, 'lines': [fn.lineno, fn.end_lineno],
            'ast_sha256_16': fn_hash(fn)}


def enum_members(relpath, clsname):
    '''Members of an Enum class as listed in the source: [(name, value-node)].'''
    try:
        cls = find(relpath, clsname)
    except Missing:
        # functional API:  Name = enum.IntEnum('Name', 'A B C')
        tree, _ = module_ast(relpath)
        for st in tree.body:
            if isinstance(st, ast.Assign) and len(st.targets) == 1 and isinstance(st.targets[0], ast.Name) \
                    and st.targets[0].id == clsname and isinstance(st.value, ast.Call) and len(st.value.args) >= 2 \
                    and isinstance(st.value.args[1], ast.Constant) and isinstance(st.value.args[1].value, str):
                return st.value.args[1].value.replace(',', ' ').split()
        raise
    out = []
    for st in cls.body:
        if isinstance(st, ast.Assign) and len(st.targets) == 1 and isinstance(st.targets[0], ast.Name) \
                and not st.targets[0].id.startswith('_'):
            out.append(st.targets[0].id)
    return out


def enum_int_values(relpath, clsname):
    '''{member: int} when every member of the Enum class is assigned an integer literal, else None'''
    try:
        cls = find(relpath, clsname)
    except Missing:
        return None
    out = {}
    for st in cls.body:
        if isinstance(st, ast.Assign) and len(st.targets) == 1 and isinstance(st.targets[0], ast.Name) and not st.targets[0].id.startswith('_'):
            if isinstance(st.value, ast.Constant) and isinstance(st.value.value, int) and not isinstance(st.value.value, bool):
                out[st.targets[0].id] = st.value.value
            else:
                return None
    return out or None


def module_constants(relpath):
    """module-level names bound exactly once, at the top level of the module, to a literal (number, string, bool, None, possibly signed, or a tuple of
    those) and never declared `global` in a function: their value is the same at every call, so a function body may read them as constants"""
    tree, _ = module_ast(relpath)
    counts, values = {}, {}

    def literal(n):
        if isinstance(n, ast.Constant):
            return True, n.value
        if isinstance(n, ast.UnaryOp) and isinstance(n.op, (ast.USub, ast.UAdd)) and isinstance(n.operand, ast.Constant) and isinstance(n.operand.value, (int, float)):
            return True, (-n.operand.value if isinstance(n.op, ast.USub) else n.operand.value)
        if isinstance(n, ast.Tuple):
            parts = [literal(e) for e in n.elts]
            if all(ok for ok, _ in parts):
                return True, tuple(v for _, v in parts)
        return False, None
    for st in tree.body:
        targets = []
        if isinstance(st, ast.Assign):
            targets = [t for t in st.targets]
            val = st.value
        elif isinstance(st, ast.AnnAssign) and st.value is not None:
            targets, val = [st.target], st.value
        elif isinstance(st, (ast.AugAssign,)):
            targets, val = [st.target], None
        for t in targets:
            for nm in ast.walk(t):
                if isinstance(nm, ast.Name):
                    counts[nm.id] = counts.get(nm.id, 0) + 1
                    if isinstance(t, ast.Name) and val is not None:
                        ok, v = literal(val)
                        if ok:
                            values[nm.id] = v
    rebound = set()
    for n in ast.walk(tree):
        if isinstance(n, ast.Global):
            rebound.update(n.names)
        elif isinstance(n, (ast.For, ast.With, ast.Import, ast.ImportFrom, ast.FunctionDef, ast.ClassDef)) and n in tree.body:
            for sub in ast.walk(n):
                if isinstance(sub, ast.Name) and isinstance(sub.ctx, ast.Store):
                    rebound.add(sub.id)
                elif isinstance(sub, ast.alias):
                    rebound.add((sub.asname or sub.name).split('.')[0])
            if isinstance(n, (ast.FunctionDef, ast.ClassDef)):
                rebound.add(n.name)
    return {k: v for k, v in values.items() if counts.get(k) == 1 and k not in rebound}
