'''Native harness for the scheduler properties (C01-C04): bounded stand-ins and replay drivers.

Everything here runs the REAL scheduler (valjean.cosette) and judges it with oracles written from
the property statements.  It is labelled *bounded* in the evidence and never counted as proved.

The harness is executed in a child interpreter (hang detection, thread-leak detection) as
    python -m contracts.sched_native <mode> <json-args>
and prints one JSON document.'''
import itertools
import json
import os
import random
import subprocess
import sys
import threading
import time

OUTCOMES = ('done', 'failed', 'raise', 'none', 'notpair', 'badstatus', 'badupdate', 'emptybadupdate', 'waiting', 'corrupt', 'readonly', 'sysexit', 'baseexc')
HANG_S = 6.0


# ---------------------------------------------------------------------------------------
def _mk_tasks(n, edges, outcomes, log, gate=None):
    '''edges: {(i, j): 'h'|'s'} meaning task j depends on task i (i < j unless a cycle is wanted)'''
    from valjean.cosette.task import Task, TaskStatus

    class Probe(Task):
        def __init__(self, idx, outcome, deps, soft):
            super().__init__(f't{idx}', deps=deps, soft_deps=soft)
            self.idx, self.outcome = idx, outcome

        def do(self, env, config):
            seen = {}
            for d in list(self.depends_on) + list(self.soft_depends_on):
                ent = env.get(d.name)
                seen[d.name] = None if ent is None else {k: (v.name if hasattr(v, 'name') and k == 'status' else v) for k, v in dict(ent).items()}
            log.append(('start', self.name, seen))
            if gate is not None:
                gate(self)
            o = self.outcome
            payload = {self.name: {'payload': f'{self.name}-v{len([e for e in log if e[0] == "start" and e[1] == self.name])}',
                                   'more': {'nested': self.idx}}}
            if o == 'done':
                return payload, TaskStatus.DONE
            if o == 'failed':
                return payload, TaskStatus.FAILED
            if o == 'raise':
                raise RuntimeError('probe failure')
            if o == 'sysexit':
                sys.exit(3)                       # user code calling sys.exit(): SystemExit is not an Exception
            if o == 'baseexc':
                raise KeyboardInterrupt('raised by the task')      # nor is KeyboardInterrupt (a task re-raising one it caught, a user-defined BaseException ...)
            if o == 'none':
                return None
            if o == 'notpair':
                return 42
            if o == 'badstatus':
                return payload, 'finished'
            if o == 'badupdate':
                return 17, TaskStatus.DONE
            if o == 'emptybadupdate':
                return [], TaskStatus.DONE          # not a mapping, and falsy
            if o == 'waiting':
                return payload, TaskStatus.WAITING
            if o == 'corrupt':
                return {self.name: 5}, TaskStatus.DONE
            if o == 'readonly':
                import types                      # a Mapping that is not a MutableMapping as the task's own entry
                return {self.name: types.MappingProxyType({'payload': 1})}, TaskStatus.DONE
            raise AssertionError(o)

    tasks = []
    for j in range(n):
        hard = [tasks[i] for i in range(j) if edges.get((i, j)) == 'h']
        soft = [tasks[i] for i in range(j) if edges.get((i, j)) == 's']
        tasks.append(Probe(j, outcomes[j], hard, soft))
    return tasks


def _graphs(tasks, edges):
    from valjean.cosette.depgraph import DepGraph
    hard = DepGraph.from_dependency_dictionary({t: [] for t in tasks})
    soft = DepGraph.from_dependency_dictionary({t: [] for t in tasks})
    for (i, j), kind in edges.items():
        (hard if kind == 'h' else soft).add_dependency(tasks[j], on=tasks[i])
    return hard, soft


def expected_statuses(n, edges, outcomes):
    '''C02 oracle: local rules, evaluated in index order (edges go from lower to higher index)'''
    st = {}
    for j in range(n):
        hard = [i for i in range(j) if edges.get((i, j)) == 'h']
        if any(st[i] in ('FAILED', 'SKIPPED') for i in hard):
            st[j] = 'SKIPPED'
        else:
            st[j] = 'DONE' if outcomes[j] == 'done' else 'FAILED'
    return st


def run_case(n, edges, outcomes, workers, init=None, timeout=HANG_S):
    '''one schedule() in a watchdog thread; returns observations'''
    from valjean.cosette.scheduler import Scheduler
    from valjean.cosette.backends.queue import QueueScheduling
    from valjean.cosette.env import Env
    log = []
    tasks = _mk_tasks(n, edges, outcomes, log)
    hard, soft = _graphs(tasks, edges)
    backend = QueueScheduling(n_workers=workers)
    env = Env(init) if init else Env()
    before = threading.active_count()
    out = {}

    def target():
        try:
            sched = Scheduler(hard_graph=hard, soft_graph=soft, backend=backend)
            out['env'] = sched.schedule(env=env)
        except BaseException as e:     # noqa
            out['exc'] = type(e).__name__ + ': ' + str(e)[:200]
    th = threading.Thread(target=target, daemon=True)
    th.start()
    th.join(timeout)
    obs = {'hang': th.is_alive(), 'exc': out.get('exc'), 'log': log}
    if obs['hang']:
        return obs
    # C03: every worker thread has exited, the queue is empty
    deadline = time.time() + 2.0
    while threading.active_count() > before and time.time() < deadline:
        time.sleep(0.005)
    obs['leaked_threads'] = threading.active_count() - before
    obs['queue_empty'] = backend.queue.empty()
    obs['status'] = {k: (v.get('status').name if hasattr(v.get('status'), 'name') else repr(v.get('status')))
                     for k, v in env.items() if isinstance(v, dict) or hasattr(v, 'get')}
    obs['entries'] = {k: {kk: (vv.name if kk == 'status' and hasattr(vv, 'name') else vv) for kk, vv in dict(v).items()} for k, v in env.items()}
    return obs


def judge_case(n, edges, outcomes, obs, fresh=True):
    '''C01 + C02 + C03 oracles on one run from an empty environment'''
    problems = []
    if obs['hang']:
        return ['C03: schedule() did not come back']
    if obs.get('exc'):
        problems.append(f"C03/C02: schedule() raised {obs['exc']}")
        if obs.get('leaked_threads'):
            problems.append(f"C03: {obs['leaked_threads']} worker thread(s) alive after the error")
        return problems
    if obs.get('leaked_threads'):
        problems.append(f"C03: {obs['leaked_threads']} worker thread(s) alive after schedule() returned")
    if not obs.get('queue_empty', True):
        problems.append('C03: work queue not empty after schedule() returned')
    exp = expected_statuses(n, edges, outcomes)
    got = obs['status']
    for j in range(n):
        if got.get(f't{j}') != exp[j]:
            problems.append(f'C02: t{j} is {got.get(f"t{j}")}, expected {exp[j]} (outcomes {outcomes}, edges {sorted(edges.items())})')
    starts = [e for e in obs['log'] if e[0] == 'start']
    for j in range(n):
        cnt = sum(1 for e in starts if e[1] == f't{j}')
        want = 0 if exp[j] == 'SKIPPED' else 1
        if cnt != want:
            problems.append(f'C02: t{j} executed {cnt} time(s), expected {want}')
    for _, name, seen in starts:
        for dname, ent in seen.items():
            i = int(dname[1:])
            if ent is None or ent.get('status') not in ('DONE', 'FAILED', 'SKIPPED'):
                problems.append(f'C01: {name} started while its dependency {dname} was {None if ent is None else ent.get("status")}')
                continue
            if ent.get('status') == 'DONE' and outcomes[i] == 'done':
                if ent.get('payload') is None or ent.get('more') != {'nested': i}:
                    problems.append(f'C01: {name} started, {dname} is DONE but its update is not readable yet: {ent}')
                if ent.get('start_clock') is None or ent.get('end_clock') is None:
                    problems.append(f'C01/C04: {name} started, {dname} is DONE but its clocks are not recorded yet: {ent}')
    return problems


def all_edge_maps(n, kinds=('h', 's')):
    pairs = [(i, j) for j in range(n) for i in range(j)]
    for choice in itertools.product((None,) + tuple(kinds), repeat=len(pairs)):
        yield {p: c for p, c in zip(pairs, choice) if c is not None}


def mode_sweep(args):
    '''C01/C02/C03 bounded sweep: graphs <= nmax tasks x outcomes x workers'''
    rng = random.Random(args.get('seed', 0))
    nmax = args.get('nmax', 3)
    budget = args.get('budget', 400)
    cases = []
    for n in range(1, nmax + 1):
        for edges in all_edge_maps(n):
            for outc in itertools.product(OUTCOMES, repeat=n):
                for w in args.get('workers', (1, 2)):
                    cases.append((n, edges, outc, w))
    exhaustive = budget >= len(cases)
    if not exhaustive:
        # always keep the single-task cases and every 2-task case; sample the rest
        small = [c for c in cases if c[0] <= 2]
        rest = [c for c in cases if c[0] > 2]
        rng.shuffle(rest)
        cases = small + rest[:max(0, budget - len(small))]
    failures = []
    t0 = time.time()
    done = 0
    for n, edges, outc, w in cases:
        obs = run_case(n, edges, outc, w)
        done += 1
        probs = judge_case(n, edges, outc, obs)
        if probs:
            failures.append({'input': {'n': n, 'edges': [[i, j, k] for (i, j), k in sorted(edges.items())], 'outcomes': list(outc), 'workers': w},
                             'observed': probs[:4], 'expected': 'C01/C02/C03 oracles of contracts/sched_native.py::judge_case hold'})
            if obs['hang'] or len(failures) >= 8:
                break
    # cyclic graphs: an error, no worker left behind
    cyc = mode_cyclic({})
    failures.extend(cyc['failures'])
    tw = mode_twice({})
    failures.extend(tw['failures'])
    done += tw['evaluations']
    ne = mode_nested({})
    failures.extend(ne['failures'])
    done += ne['evaluations']
    me = mode_master_error({})
    failures.extend(me['failures'])
    done += me['evaluations']
    sg = mode_scheduler_graphs({})
    failures.extend(sg['failures'])
    done += sg['evaluations']
    wd = mode_wide({})
    failures.extend(wd['failures'])
    done += wd['evaluations']
    return {'evaluations': done + cyc['evaluations'], 'distinct': done + cyc['evaluations'], 'exhaustive': exhaustive,
            'total_cases': len(cases), 'failures': failures, 'seconds': round(time.time() - t0, 2)}


def mode_cyclic(args):
    from valjean.cosette.depgraph import DepGraph, DepGraphError
    from valjean.cosette.scheduler import Scheduler
    from valjean.cosette.backends.queue import QueueScheduling
    failures, n = [], 0
    # cycles of 1-3 tasks whose edges are hard or soft in every combination (a cycle through a soft dependency is a cycle too)
    combos = [(size, kinds) for size in (1, 2, 3) for kinds in itertools.product('hs', repeat=size)]
    for size, kinds in combos:
        for workers in (1, 3):
            log = []
            tasks = _mk_tasks(size, {}, ['done'] * size, log)
            g = DepGraph.from_dependency_dictionary({t: [] for t in tasks})
            sg = DepGraph.from_dependency_dictionary({t: [] for t in tasks})
            for i in range(size):
                (g if kinds[i] == 'h' else sg).add_dependency(tasks[i], on=tasks[(i + 1) % size])
            before = threading.active_count()
            out = {}

            def target():
                try:
                    Scheduler(hard_graph=g, soft_graph=sg, backend=QueueScheduling(n_workers=workers)).schedule()
                    out['ret'] = True
                except DepGraphError:
                    out['err'] = True
                except BaseException as e:     # noqa
                    out['exc'] = repr(e)
            th = threading.Thread(target=target, daemon=True)
            th.start()
            th.join(HANG_S)
            n += 1
            time.sleep(0.05)
            leaked = threading.active_count() - before - (1 if th.is_alive() else 0)
            probs = []
            if th.is_alive():
                probs.append('C03: schedule() on a cyclic graph did not come back')
            elif not out.get('err'):
                probs.append(f'C03: cyclic graph: expected DepGraphError, got {out}')
            if leaked > 0:
                probs.append(f'C03: {leaked} worker thread(s) left behind after the cyclic-graph error')
            if probs:
                failures.append({'input': {'cycle_of': size, 'edge_kinds': ''.join(kinds), 'workers': workers}, 'observed': probs, 'expected': 'DepGraphError, no thread left'})
                if th.is_alive():
                    return {'evaluations': n, 'failures': failures}
    return {'evaluations': n, 'failures': failures}


def mode_twice(args):
    '''C03: a second schedule() on the same Scheduler / backend comes back too'''
    from valjean.cosette.scheduler import Scheduler
    from valjean.cosette.backends.queue import QueueScheduling
    failures, n = [], 0
    for workers in (1, 3):
        for outc in (['done'], ['failed', 'done']):
            log = []
            tasks = _mk_tasks(len(outc), {(0, 1): 'h'} if len(outc) == 2 else {}, outc, log)
            hard, soft = _graphs(tasks, {(0, 1): 'h'} if len(outc) == 2 else {})
            sched = Scheduler(hard_graph=hard, soft_graph=soft, backend=QueueScheduling(n_workers=workers))
            out = {}

            def target():
                sched.schedule()
                out['first'] = True
                sched.schedule()
                out['second'] = True
            th = threading.Thread(target=target, daemon=True)
            th.start()
            th.join(HANG_S)
            n += 1
            if th.is_alive() or not out.get('second'):
                failures.append({'input': {'twice': True, 'workers': workers, 'outcomes': outc},
                                 'observed': f'C03: second schedule() on the same scheduler did not come back ({out})', 'expected': 'returns'})
                return {'evaluations': n, 'failures': failures}
    return {'evaluations': n, 'failures': failures}


def mode_scheduler_graphs(args):
    """What Scheduler.__init__ does with the graphs it is given: (a) an EMPTY nested DepGraph used as a barrier node, its two sides in different graphs (hard / soft):
    the dependent still waits for the dependency (C01); (b) several schedulers built one after the other from the SAME graph objects (mixed hard / soft edges, a failing
    soft dependency): every run gives the statuses of the first one and the caller's graphs are unchanged (C02)"""
    from valjean.cosette.task import Task, TaskStatus
    from valjean.cosette.depgraph import DepGraph
    from valjean.cosette.scheduler import Scheduler
    from valjean.cosette.backends.queue import QueueScheduling
    from valjean.cosette.env import Env
    failures, n = [], 0
    for orientation in ('hard barrier <- soft dependent', 'soft barrier <- hard dependent'):
        for workers in (1, 2, 4):
            started = threading.Event()
            seen = {}

            class Producer(Task):
                def do(self, env, config):
                    started.wait(0.4)
                    return {self.name: {'result': 42}}, TaskStatus.DONE

            class Consumer(Task):
                def do(self, env, config):
                    seen['status'] = env.get('producer', {}).get('status')
                    seen['result'] = env.get('producer', {}).get('result')
                    started.set()
                    return {self.name: {}}, TaskStatus.DONE
            producer, consumer, group = Producer('producer'), Consumer('consumer'), DepGraph()
            first = DepGraph().add_dependency(group, on=producer)
            second = DepGraph().add_dependency(consumer, on=group)
            hard, soft = (first, second) if orientation.startswith('hard') else (second, first)
            out = {}

            def target():
                try:
                    Scheduler(hard_graph=hard, soft_graph=soft, backend=QueueScheduling(n_workers=workers)).schedule(env=Env())
                    out['ret'] = True
                except BaseException as e:     # noqa
                    out['exc'] = repr(e)
            th = threading.Thread(target=target, daemon=True)
            th.start()
            th.join(HANG_S)
            n += 1
            probs = []
            if th.is_alive() or 'exc' in out:
                probs.append(f'C03: schedule() did not return normally ({out})')
            elif seen.get('status') != TaskStatus.DONE or seen.get('result') != 42:
                probs.append(f"C01: consumer started while producer was {getattr(seen.get('status'), 'name', seen.get('status'))} (its result read as {seen.get('result')!r})")
            if probs:
                failures.append({'input': {'scheduler_graphs': 'barrier', 'layout': orientation, 'workers': workers}, 'observed': probs,
                                 'expected': 'a dependency through an empty nested graph holds the dependent back, whichever graphs its two sides are in'})
    # (c) the same BACKEND object for two schedulers whose graphs relate the same task objects differently (first independent, then consumer -> producer, hard or soft):
    # nothing of the first run may survive in the backend
    for kind in ('h', 's'):
        for workers in (2, 4):
            started = threading.Event()
            seen = {}

            class Producer2(Task):
                def do(self, env, config):
                    if seen.get('armed'):
                        started.wait(0.4)
                    return {self.name: {'result': 42}}, TaskStatus.DONE

            class Consumer2(Task):
                def do(self, env, config):
                    if seen.get('armed'):
                        seen['status'] = env.get('producer', {}).get('status')
                        started.set()
                    return {self.name: {}}, TaskStatus.DONE
            producer, consumer = Producer2('producer'), Consumer2('consumer')
            backend = QueueScheduling(n_workers=workers)
            out = {}

            def target():
                try:
                    g1 = DepGraph.from_dependency_dictionary({producer: [], consumer: []})
                    Scheduler(hard_graph=g1, backend=backend).schedule(env=Env())
                    seen['armed'] = True
                    hard2 = DepGraph.from_dependency_dictionary({producer: [], consumer: ([producer] if kind == 'h' else [])})
                    soft2 = DepGraph.from_dependency_dictionary({producer: [], consumer: ([producer] if kind == 's' else [])})
                    Scheduler(hard_graph=hard2, soft_graph=soft2, backend=backend).schedule(env=Env())
                    out['ret'] = True
                except BaseException as e:     # noqa
                    out['exc'] = repr(e)
            th = threading.Thread(target=target, daemon=True)
            th.start()
            th.join(HANG_S)
            n += 1
            probs = []
            if th.is_alive() or 'exc' in out:
                probs.append(f'C03: the second scheduler on the same backend did not return normally ({out})')
            elif seen.get('status') != TaskStatus.DONE:
                probs.append(f"C01: second run on the same backend: consumer started while producer was {getattr(seen.get('status'), 'name', seen.get('status'))}")
            if probs:
                failures.append({'input': {'scheduler_graphs': 'same backend, another graph', 'second_graph': f'consumer -> producer ({"hard" if kind == "h" else "soft"})', 'workers': workers},
                                 'observed': probs, 'expected': 'the second run follows the second graph'})
                if th.is_alive():
                    return {'evaluations': n, 'failures': failures}
    # (b) the same graph objects, several schedulers
    for workers_seq in ((1, 2, 4, 1), (3, 3)):
        log = []
        edges = {(0, 1): 'h', (1, 2): 's', (2, 3): 'h', (0, 4): 's'}
        outcomes = ['failed', 'done', 'done', 'done', 'done']
        tasks = _mk_tasks(5, edges, outcomes, log)
        hard, soft = _graphs(tasks, edges)
        snap = lambda g: {t.name: sorted(d.name for d in g.dependencies(t)) for t in g.nodes()}      # noqa
        h0, s0 = snap(hard), snap(soft)
        want = expected_statuses(5, edges, outcomes)
        for k, workers in enumerate(workers_seq):
            n += 1
            out = {}

            def target():
                try:
                    out['env'] = Scheduler(hard_graph=hard, soft_graph=soft, backend=QueueScheduling(n_workers=workers)).schedule(env=Env())
                except BaseException as e:     # noqa
                    out['exc'] = repr(e)
            th = threading.Thread(target=target, daemon=True)
            th.start()
            th.join(HANG_S)
            probs = []
            if th.is_alive() or 'exc' in out:
                probs.append(f'C03: scheduler #{k + 1} on the same graphs did not return normally ({out.get("exc")})')
            else:
                got = {j: out['env'][f't{j}']['status'].name for j in range(5)}
                if got != want:
                    probs.append(f'C02: scheduler #{k + 1} built from the same graph objects: statuses {got}, expected {want}')
            if snap(hard) != h0 or snap(soft) != s0:
                probs.append(f'C02: the graphs of the caller were modified by building / running scheduler #{k + 1}')
            if probs:
                failures.append({'input': {'scheduler_graphs': 'same graph objects', 'edges': [[i, j, kd] for (i, j), kd in sorted(edges.items())], 'outcomes': outcomes,
                                           'workers_of_successive_schedulers': list(workers_seq)}, 'observed': probs[:3],
                                 'expected': 'every scheduler built from the same graphs gives the same statuses; the graphs are left as they were'})
                break
    return {'evaluations': n, 'failures': failures}


def mode_wide(args):
    """C03: many tasks ready at once (hundreds of independent tasks plus one task depending on all of them) with few workers: the master fills the queue
    while the workers are busy; schedule() comes back with everything DONE"""
    from valjean.cosette.depgraph import DepGraph
    from valjean.cosette.scheduler import Scheduler
    from valjean.cosette.backends.queue import QueueScheduling
    from valjean.cosette.env import Env
    failures, n = [], 0
    for width, workers in ((300, 1), (450, 2), (1200, 4)):
        log = []
        edges = {(i, width): 'h' for i in range(0, width, 7)}
        tasks = _mk_tasks(width + 1, edges, ['done'] * (width + 1), log)
        hard, soft = _graphs(tasks, edges)
        out = {}

        def target():
            try:
                out['env'] = Scheduler(hard_graph=hard, soft_graph=soft, backend=QueueScheduling(n_workers=workers)).schedule(env=Env())
            except BaseException as e:     # noqa
                out['exc'] = repr(e)
        th = threading.Thread(target=target, daemon=True)
        th.start()
        th.join(4 * HANG_S)
        n += 1
        probs = []
        if th.is_alive():
            probs.append(f'C03: schedule() did not come back with {width + 1} tasks on {workers} worker(s)')
        elif 'exc' in out:
            probs.append(f'C03: raised {out["exc"]}')
        else:
            bad = [k for k, v in out['env'].items() if getattr(v.get('status'), 'name', None) != 'DONE']
            if bad or len(out['env']) != width + 1:
                probs.append(f'C02: {len(bad)} task(s) not DONE out of {width + 1}')
        if probs:
            failures.append({'input': {'wide': True, 'independent_tasks': width, 'workers': workers}, 'observed': probs, 'expected': 'returns, every task DONE'})
            if th.is_alive():
                break
    return {'evaluations': n, 'failures': failures}


def mode_master_error(args):
    """C03: an error raised by the master AFTER the workers were started (an environment entry whose status is not a TaskStatus makes Env.get_status
    raise) -- schedule() comes back with that error, and at that instant no worker thread is alive, no task is still running and the queue is empty"""
    from valjean.cosette.task import Task, TaskStatus
    from valjean.cosette.depgraph import DepGraph
    from valjean.cosette.scheduler import Scheduler
    from valjean.cosette.backends.queue import QueueScheduling
    from valjean.cosette.env import Env
    failures, n = [], 0
    for workers in (1, 2, 4):
        for bad_first in (False, True):
            running = []

            class Slow(Task):
                def do(self, env, config):
                    running.append(self.name)
                    time.sleep(0.3)
                    running.remove(self.name)
                    return {self.name: {}}, TaskStatus.DONE
            a, b, c = Slow('a'), Slow('b'), Slow('c')
            order = [c, a, b] if bad_first else [a, b, c]
            g = DepGraph.from_dependency_dictionary({t: [] for t in order})
            if not bad_first:
                g.add_dependency(c, on=a)
            env = Env({'c': {'status': 'finished'}})
            backend = QueueScheduling(n_workers=workers)
            before = set(threading.enumerate())
            out = {}

            def target():
                try:
                    Scheduler(hard_graph=g, backend=backend).schedule(env=env)
                    out['ret'] = True
                except BaseException as e:     # noqa
                    out['exc'] = repr(e)
                out['alive'] = [t.name for t in threading.enumerate() if t not in before and t is not threading.current_thread()]
                out['running'] = list(running)
                out['unfinished'] = backend.queue.unfinished_tasks
                out['qsize'] = backend.queue.qsize()
            th = threading.Thread(target=target, daemon=True)
            th.start()
            th.join(HANG_S)
            n += 1
            probs = []
            if th.is_alive():
                probs.append('C03: schedule() did not come back')
            else:
                if 'exc' not in out:
                    continue          # the malformed entry was tolerated: nothing to check here
                if out['alive']:
                    probs.append(f'C03: schedule() raised {out["exc"]} and left {len(out["alive"])} worker thread(s) alive')
                if out['running']:
                    probs.append(f'C03: schedule() came back while task(s) {out["running"]} were still running')
                if out['unfinished'] or out['qsize']:
                    probs.append(f'C03: the work queue is not empty when schedule() comes back (qsize={out["qsize"]}, unfinished={out["unfinished"]})')
            if probs:
                failures.append({'input': {'master_error': True, 'workers': workers, 'initial_env': {'c': {'status': 'finished'}}, 'bad_entry_first': bad_first},
                                 'observed': probs[:3], 'expected': 'an error, no worker thread left, nothing running, queue empty'})
                if th.is_alive():
                    break
    return {'evaluations': n, 'failures': failures}


def mode_nested(args):
    """C03 (and C01/C02): two scheduling calls that overlap in time -- a task of an outer run schedules an inner graph on its own backend
    (both backends built without arguments besides n_workers) -- each come back with their own tasks executed by their own workers"""
    from valjean.cosette.task import Task, TaskStatus
    from valjean.cosette.depgraph import DepGraph
    from valjean.cosette.scheduler import Scheduler
    from valjean.cosette.backends.queue import QueueScheduling
    from valjean.cosette.env import Env
    failures, n = [], 0
    for outer_workers, inner_len in ((4, 5), (2, 3), (3, 1)):
        seen = []

        class Inner(Task):
            def do(self, env, config):
                seen.append((self.name, threading.current_thread().name, id(env)))
                time.sleep(0.01)
                return {self.name: {'v': 1}}, TaskStatus.DONE
        inner_env = Env()

        class Outer(Task):
            def do(self, env, config):
                if self.name != 'o0':
                    return {self.name: {}}, TaskStatus.DONE
                time.sleep(0.05)              # the other outer workers are idle, blocked on their queue
                chain = []
                for k in range(inner_len):
                    chain.append(Inner(f'y{k}', deps=chain[-1:]))
                g = DepGraph.from_dependency_dictionary({t: list(t.depends_on) for t in chain})
                Scheduler(hard_graph=g, backend=QueueScheduling(n_workers=1)).schedule(env=inner_env)
                return {self.name: {'inner': {k: v['status'].name for k, v in inner_env.items()}}}, TaskStatus.DONE
        outs = [Outer(f'o{k}') for k in range(2)]
        g = DepGraph.from_dependency_dictionary({t: [] for t in outs})
        outer_env = Env()
        out = {}
        before = threading.active_count()

        def target():
            try:
                Scheduler(hard_graph=g, backend=QueueScheduling(n_workers=outer_workers)).schedule(env=outer_env)
                out['ret'] = True
            except BaseException as e:     # noqa
                out['exc'] = repr(e)
        th = threading.Thread(target=target, daemon=True)
        th.start()
        th.join(HANG_S)
        n += 1
        probs = []
        if th.is_alive():
            probs.append(f'C03: the outer schedule() did not come back (inner statuses: { {k: v.get("status") for k, v in inner_env.items()} })')
        else:
            time.sleep(0.05)
            if threading.active_count() > before:
                probs.append(f'C03: {threading.active_count() - before} thread(s) left behind')
            bad = {k: v.get('status') for k, v in inner_env.items() if v.get('status') != TaskStatus.DONE}
            if bad or len(inner_env) != inner_len:
                probs.append(f'C02: inner run: {bad or dict(inner_env)}')
            foreign = [s_ for s_ in seen if s_[2] != id(inner_env)]
            if foreign:
                probs.append(f'C01: inner task {foreign[0][0]} was executed with the environment of another run')
            if len({s_[1] for s_ in seen}) > 1:
                probs.append(f'C03: the tasks of the 1-worker inner run were executed by {len({s_[1] for s_ in seen})} different threads')
            if any(k.startswith('y') for k in outer_env):
                probs.append('C02: inner tasks appear in the outer environment')
        if probs:
            failures.append({'input': {'nested': True, 'outer_workers': outer_workers, 'inner_chain': inner_len}, 'observed': probs[:3],
                             'expected': 'two overlapping scheduling calls do not share workers, queue or environment'})
            if th.is_alive():
                break
    return {'evaluations': n, 'failures': failures}


# ---------------------------------------------------------------------------------------
# C01: preemption of a worker at every line of its publication sequence (settrace parking)
def mode_park(args):
    '''Graph A -> B plus an independent C.  The worker running A is parked just before each line of
    WorkerThread.run after task.do() returned; C finishes meanwhile, which wakes the master; if B is released and
    starts while A is parked, what B reads of A must be complete (C01).'''
    import inspect
    from valjean.cosette.backends import queue as qmod
    from valjean.cosette.task import Task, TaskStatus
    from valjean.cosette.depgraph import DepGraph
    from valjean.cosette.scheduler import Scheduler
    from valjean.cosette.env import Env
    src, first = inspect.getsourcelines(qmod.QueueScheduling.WorkerThread.run)
    do_line = next(first + k for k, ln in enumerate(src) if 'task.do(' in ln)
    lines = [first + k for k in range(len(src)) if first + k > do_line and src[k].strip() and not src[k].strip().startswith('#')]
    run_code = qmod.QueueScheduling.WorkerThread.run.__code__
    failures, evals = [], 0
    only = args.get('line_text')
    # recording run: which of those lines does a worker execute for a successful task?
    hit = set()

    class A0(Task):
        def do(self, env, config):
            return {'A': {'payload': 'A-result'}}, TaskStatus.DONE

    def rec_local(frame, event, arg):
        if event == 'line':
            t = frame.f_locals.get('task')
            if t is not None and getattr(t, 'name', None) == 'A':
                hit.add(frame.f_lineno)
        return rec_local
    threading.settrace(lambda frame, event, arg: rec_local if frame.f_code is run_code else None)
    try:
        a0 = A0('A')
        Scheduler(hard_graph=DepGraph.from_dependency_dictionary({a0: []}), backend=qmod.QueueScheduling(n_workers=1)).schedule(env=Env())
    finally:
        threading.settrace(None)
    lines = [L for L in lines if L in hit]
    for kind in ('hard', 'soft'):
        for L in lines:
            text = src[L - first].strip()
            if only and only not in text:
                continue
            parked, release, c_go, b_started = threading.Event(), threading.Event(), threading.Event(), threading.Event()
            seen = {}

            class A(Task):
                def do(self, env, config):
                    return {'A': {'payload': 'A-result', 'more': {'nested': 1}}}, TaskStatus.DONE

            class C(Task):
                def do(self, env, config):
                    parked.wait(3.0)
                    return {}, TaskStatus.DONE

            class B(Task):
                def do(self, env, config):
                    ent = env.get('A')
                    seen['A'] = None if ent is None else dict(ent)
                    seen['while_parked'] = parked.is_set() and not release.is_set()
                    b_started.set()
                    return {}, TaskStatus.DONE
            a, c = A('A'), C('C')
            b = B('B', deps=[a]) if kind == 'hard' else B('B', soft_deps=[a])
            hard = DepGraph.from_dependency_dictionary({a: [], c: [], b: ([a] if kind == 'hard' else [])})
            soft = DepGraph.from_dependency_dictionary({b: ([a] if kind == 'soft' else [])})

            def local(frame, event, arg, L=L):
                if event == 'line' and frame.f_lineno == L and not parked.is_set():
                    t = frame.f_locals.get('task')
                    if t is not None and getattr(t, 'name', None) == 'A':
                        parked.set()
                        release.wait(3.0)
                return local

            def tracer(frame, event, arg):
                if frame.f_code is run_code:
                    return local
                return None
            threading.settrace(tracer)
            out = {}

            def target():
                try:
                    out['env'] = Scheduler(hard_graph=hard, soft_graph=soft, backend=qmod.QueueScheduling(n_workers=3)).schedule(env=Env())
                except BaseException as e:     # noqa
                    out['exc'] = repr(e)
            th = threading.Thread(target=target, daemon=True)
            try:
                th.start()
                got = parked.wait(3.0)
                if got:
                    b_started.wait(0.2)       # the master re-inspects the states when C's worker notifies it
                release.set()
                th.join(HANG_S)
            finally:
                threading.settrace(None)
            evals += 1
            if th.is_alive():
                failures.append({'input': {'kind': kind, 'parked_before_line': L, 'text': text}, 'observed': 'hang', 'expected': 'returns'})
                break
            ent = seen.get('A')
            if seen.get('while_parked'):
                ok = ent is not None and getattr(ent.get('status'), 'name', None) in ('DONE', 'FAILED', 'SKIPPED') \
                    and ent.get('payload') == 'A-result' and ent.get('more') == {'nested': 1} \
                    and ent.get('start_clock') is not None and ent.get('end_clock') is not None
                if not ok:
                    failures.append({'input': {'kind': kind, 'parked_before_line': L, 'text': text},
                                     'observed': f'B started while the worker of A was parked before `{text}` and read A = { {k: (v.name if k == "status" else v) for k, v in (ent or {}).items()} }',
                                     'expected': 'A final with its complete update and clocks'})
    return {'evaluations': evals, 'distinct': evals, 'failures': failures, 'lines': len(lines)}


# ---------------------------------------------------------------------------------------
# C04: histories of runs
def mode_rerun(args):
    from valjean.cosette.scheduler import Scheduler
    from valjean.cosette.backends.queue import QueueScheduling
    from valjean.cosette.env import Env
    from valjean.cosette.task import TaskStatus
    rng = random.Random(args.get('seed', 0))
    budget = args.get('budget', 300)
    shapes = []
    for n in (1, 2, 3):
        shapes.extend((n, e) for e in all_edge_maps(n))
    events = ('keep', 'lose', 'fail', 'recover', 'stale', 'noclock')      # per task, between two runs
    cases = []
    for n, edges in shapes:
        for out1 in itertools.product(('done', 'failed'), repeat=n):
            for ev in itertools.product(events, repeat=n):
                cases.append((n, edges, out1, ev))
    exhaustive = budget >= len(cases)
    if not exhaustive:
        rng.shuffle(cases)
        cases = cases[:budget]
    failures, evals = [], 0
    t0 = time.time()
    for n, edges, out1, ev in cases:
        evals += 1
        probs = _rerun_case(n, edges, out1, ev)
        if probs:
            failures.append({'input': {'n': n, 'edges': [[i, j, k] for (i, j), k in sorted(edges.items())], 'first_run': list(out1), 'between': list(ev)},
                             'observed': probs[:4], 'expected': 'C04 oracle of contracts/sched_native.py::_rerun_case'})
            if len(failures) >= 8:
                break
    return {'evaluations': evals, 'distinct': evals, 'exhaustive': exhaustive, 'total_cases': len(cases), 'failures': failures,
            'seconds': round(time.time() - t0, 2)}


def _closure(n, edges):
    deps = {j: {i for i in range(j) if (i, j) in edges} for j in range(n)}
    clo = {}
    for j in range(n):
        s = set(deps[j])
        for i in deps[j]:
            s |= clo[i]
        clo[j] = s
    return deps, clo


def _rerun_case(n, edges, out1, between):
    from valjean.cosette.scheduler import Scheduler
    from valjean.cosette.backends.queue import QueueScheduling
    from valjean.cosette.env import Env
    import copy
    probs = []
    log = []
    tasks = _mk_tasks(n, edges, list(out1), log)
    hard, soft = _graphs(tasks, edges)
    env1 = Scheduler(hard_graph=hard, soft_graph=soft, backend=QueueScheduling(n_workers=2)).schedule(env=Env())
    # carry over the documented way: only DONE entries are merged into a pristine environment; 'lose' drops the file
    persisted = Env({k: copy.deepcopy(dict(v)) for k, v in env1.items() if between[int(k[1:])] != 'lose'})
    # 'stale': the dependencies of the task were re-executed by another job in between (e.g. a sub-job without this task):
    # its persisted entry is older than theirs
    for j in range(n):
        name = f't{j}'
        if between[j] == 'stale' and name in persisted and any((i, j) in edges for i in range(j)):
            ent = persisted[name]
            if 'start_clock' in ent:
                ent['start_clock'] = ent['start_clock'] - 1000.0
                ent['end_clock'] = ent['end_clock'] - 1000.0
    # 'noclock': the entry was put into the environment by hand (seeded results): DONE, but without start / end clocks
    for j in range(n):
        name = f't{j}'
        if between[j] == 'noclock' and name in persisted:
            persisted[name].pop('start_clock', None)
            persisted[name].pop('end_clock', None)
    env2 = Env()
    env2.merge_done_tasks(persisted)
    carried = {k: copy.deepcopy(dict(v)) for k, v in env2.items()}
    out2 = []
    for j in range(n):
        o = out1[j]
        if between[j] == 'fail':
            o = 'failed'
        elif between[j] == 'recover':
            o = 'done'
        out2.append(o)
    log2 = []
    tasks2 = _mk_tasks(n, edges, out2, log2)
    hard2, soft2 = _graphs(tasks2, edges)
    time.sleep(0.002)
    th_out = {}

    def target():
        th_out['env'] = Scheduler(hard_graph=hard2, soft_graph=soft2, backend=QueueScheduling(n_workers=2)).schedule(env=env2)
    th = threading.Thread(target=target, daemon=True)
    th.start()
    th.join(HANG_S)
    if th.is_alive():
        return ['C03/C04: the second run did not come back']
    executed2 = {e[1] for e in log2 if e[0] == 'start'}
    deps, clo = _closure(n, edges)
    st = {k: getattr(v.get('status'), 'name', None) for k, v in env2.items()}
    for j in range(n):
        name = f't{j}'
        ent = env2.get(name) or {}
        if st.get(name) == 'DONE':
            for i in deps[j]:
                d = env2.get(f't{i}') or {}
                if st.get(f't{i}') == 'DONE' and d.get('end_clock') is None and f't{i}' not in executed2:
                    # a DONE dependency without clocks cannot be shown older than the task: the task is kept only if it was executed again in this run
                    if name not in executed2:
                        probs.append(f'C04: {name} is kept DONE although its DONE dependency t{i} has no end clock (nothing shows that {name} is newer)')
                elif st.get(f't{i}') == 'DONE':
                    if d.get('end_clock') is None or ent.get('start_clock') is None or not d['end_clock'] <= ent['start_clock']:
                        probs.append(f'C04: {name} is DONE but its DONE dependency t{i} finished at {d.get("end_clock")} after {name} started at {ent.get("start_clock")}')
                if edges.get((i, j)) == 'h' and st.get(f't{i}') in ('FAILED', 'SKIPPED'):
                    probs.append(f'C04: {name} is DONE although its hard dependency t{i} is {st.get(f"t{i}")}')
        # up-to-date tasks are not executed again and keep their entry
        was_done = name in carried
        all_kept = was_done and all(f't{i}' in carried and f't{i}' not in executed2 for i in clo[j])
        # "up to date": the clocks carried over are consistent along every dependency edge below the task (the first clause of the
        # property demands a re-execution otherwise)
        if all_kept:
            for k in clo[j] | {j}:
                for i in deps[k]:
                    e_, s_ = carried[f't{i}'].get('end_clock'), carried[f't{k}'].get('start_clock')
                    if e_ is None or s_ is None or not e_ <= s_:
                        all_kept = False
        if all_kept:
            if name in executed2:
                probs.append(f'C04: {name} was DONE with all transitive dependencies DONE and not re-executed, yet it was executed again')
            elif dict(env2.get(name)) != carried[name]:
                probs.append(f'C04: the recorded results of the up-to-date task {name} changed: {carried[name]} -> {dict(env2.get(name))}')
    return probs


# ---------------------------------------------------------------------------------------
def mode_single(args):
    '''replay of one sweep case'''
    edges = {(i, j): k for i, j, k in args['edges']}
    obs = run_case(args['n'], edges, args['outcomes'], args.get('workers', 2))
    probs = judge_case(args['n'], edges, args['outcomes'], obs)
    return {'problems': probs, 'status': obs.get('status'), 'hang': obs['hang']}


def mode_rerun_single(args):
    edges = {(i, j): k for i, j, k in args['edges']}
    return {'problems': _rerun_case(args['n'], edges, args['first_run'], args['between'])}


MODES = {'wide': mode_wide, 'scheduler_graphs': mode_scheduler_graphs, 'master_error': mode_master_error, 'nested': mode_nested, 'twice': mode_twice, 'sweep': mode_sweep, 'cyclic': mode_cyclic, 'park': mode_park, 'rerun': mode_rerun, 'single': mode_single,
         'rerun_single': mode_rerun_single}


def call(mode, args, timeout=600):
    '''run a mode in a child interpreter against $REPO; returns the parsed JSON or an error record'''
    repo = os.environ.get('REPO', '/repo')
    verif = os.path.dirname(os.path.dirname(os.path.abspath(__file__)))
    env = dict(os.environ, PYTHONPATH=repo + os.pathsep + verif, PYTHONWARNINGS='ignore')
    try:
        p = subprocess.run([sys.executable, '-m', 'contracts.sched_native', mode, json.dumps(args)], cwd=verif, env=env,
                           capture_output=True, text=True, timeout=timeout)
    except subprocess.TimeoutExpired:
        return {'error': f'harness timeout after {timeout}s'}
    for line in reversed(p.stdout.strip().splitlines()):
        if line.startswith('{'):
            try:
                return json.loads(line)
            except ValueError:
                pass
    return {'error': 'no JSON from the harness', 'stdout': p.stdout[-800:], 'stderr': p.stderr[-1500:]}


if __name__ == '__main__':
    import logging
    logging.disable(logging.CRITICAL)
    res = MODES[sys.argv[1]](json.loads(sys.argv[2]) if len(sys.argv) > 2 else {})
    sys.stdout.write('\n' + json.dumps(res, default=repr) + '\n')
    sys.stdout.flush()
    os._exit(0)
