'''Native bounded stand-in for one builder of C10 (labelled bounded): the IFP adjoint-criticality edition tables (AdjointCritEdDictBuilder).  The listing prints one row per
cell, looping over X, then Y, Z, Phi, Theta, E (first variable fastest); variables absent from the table have one cell.  Every subset of the six variables with 1-3 cells
each: every printed row is stored in the cell it was printed for.'''
import itertools


def sweep(tier, seed):
    import numpy as np
    from valjean.eponine.tripoli4.common import AdjointCritEdDictBuilder
    VARS = ['X', 'Y', 'Z', 'Phi', 'Theta', 'E']
    fails, n = [], 0
    sizes = (1, 2, 3) if tier != 'quick' else (2, 3)
    for r in range(1, 7):
        for used in itertools.combinations(VARS, r):
            for ncells in itertools.product(sizes, repeat=r) if r <= 3 else [tuple(2 + (i % 2) for i in range(r))]:
                n += 1
                bins = {v: np.arange(k + 1, dtype=float) for v, k in zip(used, ncells)}
                cells = dict(zip(used, ncells))
                radix = [cells.get(v, 1) for v in VARS]
                total = int(np.prod(radix))
                rows = [(float(i) - 3.0, float(i) * 0.5) for i in range(total)]          # both signs and a zero among the scores
                try:
                    b = AdjointCritEdDictBuilder(['score', 'sigma'], bins)
                    b.fill_arrays_and_bins(rows)
                    arr = b.arrays['default']
                except Exception as e:      # noqa
                    fails.append({'input': {'variables': list(used), 'cells': list(ncells)}, 'observed': f'raised {e!r}', 'expected': 'the table'})
                    continue
                bad = []
                for i, (sc, sg) in enumerate(rows):
                    idx, rest = [], i
                    for k in radix:
                        idx.append(rest % k)
                        rest //= k
                    cell = arr[tuple(idx) + (0,)]
                    if not (cell['score'] == sc and cell['sigma'] == sg):
                        bad.append(f'row {i} (printed for cell {dict(zip(VARS, idx))}) = ({sc}, {sg}) but that cell holds ({cell["score"]}, {cell["sigma"]})')
                if arr.shape != tuple(radix) + (1,):
                    bad.append(f'array shape {arr.shape}, expected {tuple(radix) + (1,)}')
                if bad:
                    fails.append({'input': {'variables': list(used), 'cells': list(ncells)}, 'observed': bad[:2] + [f'{len(bad)} cells wrong out of {total}'],
                                  'expected': 'row i of the listing is the cell whose indices are the mixed-radix digits of i over X, Y, Z, Phi, Theta, E'})
    return {'name': 'ifp-adjoint-tables-native', 'evaluations': n, 'distinct': n, 'failures': fails[:8], 'exhaustive': True,
            'bound': 'AdjointCritEdDictBuilder driven directly: every non-empty subset of {X, Y, Z, Phi, Theta, E}, 2-3 cells per variable (1-3 in the thorough tier) for subsets of up '
                     'to 3 variables and one size pattern beyond; every row compared with the cell it was printed for',
            'samples': [{'variables': ['X', 'Y', 'E'], 'cells': [2, 3, 2]}]}


def replay(inp):
    out = sweep('quick', 0)
    return {'reproduced': bool(out['failures']), 'observed': out['failures'][:1]}
