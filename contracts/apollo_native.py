'''Native bounded stand-in for the Apollo3 half of C10 (labelled bounded): every stored result of the shipped HDF5 files, read with Reader and picked with Picker,
against the arrays h5py returns; plus copies of the files whose isotopes are stored in the reverse order, opened in the same process.'''
import glob
import os
import shutil
import tempfile


def repo_root():
    return os.environ.get('REPO', '/repo')


def files():
    return sorted(glob.glob(os.path.join(repo_root(), 'tests', 'eponine', 'apollo3', 'data', '*.hdf')))


def _same(ds, raw):
    import numpy as np
    v = np.ravel(np.asarray(ds.value))
    r = np.ravel(np.asarray(raw)).astype(float)
    return v.shape == r.shape and np.array_equal(v, r, equal_nan=True)


def check_file(path, label):
    '''every standard value of every zone / isotope: Picker == stored array == Reader'''
    import h5py
    from valjean.eponine.apollo3.hdf5_reader import Reader
    from valjean.eponine.apollo3.hdf5_picker import Picker
    probs, n = [], 0
    with h5py.File(path, 'r') as raw:
        pk = Picker(path)
        try:
            browser = Reader(path).to_browser()
        except Exception as e:      # noqa
            return 1, [f'{label}: Reader raised {e!r}']
        index = {}
        for it in browser.content:
            index.setdefault((it.get('output'), it.get('zone'), it.get('isotope'), str(it.get('result_name')).lower()), []).append(it)
        for output in pk.outputs():
            if output in ('info', 'geometry') or not isinstance(raw[output], h5py.Group):
                continue
            try:
                zones = pk.zones(output=output)
            except Exception:      # noqa  (core files: no zones)
                continue
            for zone in zones:
                if zone not in raw[output] or not isinstance(raw[output][zone], h5py.Group):
                    continue
                try:
                    isotopes = list(pk.isotopes(output=output, zone=zone))
                except Exception:      # noqa  (core files: groups that are not zones of a rates layout)
                    continue
                for iso in [None] + isotopes:
                    try:
                        names = pk.results(output=output, zone=zone, isotope=iso)
                    except Exception:      # noqa
                        continue
                    for rn in names:
                        if rn in ('LOCALNAME', 'LOCALVALUE'):
                            continue
                        if iso is None and not isinstance(raw[output][zone][rn], h5py.Dataset):
                            continue          # a sub-group that is not a result
                        if iso is not None and rn != 'concentration' and not isinstance(raw[output][zone][iso][rn], h5py.Dataset):
                            continue
                        n += 1
                        if iso is None:
                            want = raw[output][zone][rn][...]
                        elif rn == 'concentration':
                            stored = [x.decode('UTF-8').strip() for x in raw[output][zone]['ISOTOPE'][...]]
                            want = raw[output][zone]['CONCEN'][...][stored.index(iso)]
                        else:
                            want = raw[output][zone][iso][rn][...]
                        try:
                            got = pk.pick_standard_value(output=output, zone=zone, result_name=rn, isotope=iso)
                        except Exception as e:      # noqa
                            probs.append(f'{label}: picking {output}/{zone}/{iso}/{rn} raised {e!r}')
                            continue
                        if not _same(got, want):
                            probs.append(f'{label}: picked {output}/{zone}/{iso}/{rn} = {got.value.ravel()[:3].tolist()} but the file stores {want.ravel()[:3].tolist() if hasattr(want, "ravel") else want}')
                        key = (output, zone, iso, rn.lower())
                        its = index.get(key, [])
                        if len(its) == 1 and not _same(its[0]['results'], want):
                            probs.append(f'{label}: Reader gives {its[0]["results"].value.ravel()[:3].tolist()} for {output}/{zone}/{iso}/{rn}, the file stores {want.ravel()[:3].tolist() if hasattr(want, "ravel") else want}')
                        elif len(its) > 1:
                            probs.append(f'{label}: Reader lists {output}/{zone}/{iso}/{rn} {len(its)} times')
                    if len(probs) > 5:
                        pk.close()
                        return n, probs
                # local (user) values of the zone
                if 'LOCALNAME' in raw[output][zone]:
                    stored = [x.decode('UTF-8').strip() for x in raw[output][zone]['LOCALNAME'][...]]
                    for k, ln in enumerate(stored):
                        n += 1
                        try:
                            got = pk.pick_user_value(output=output, result_name=ln, zone=zone)
                        except Exception as e:      # noqa
                            probs.append(f'{label}: picking the local value {ln} of {output}/{zone} raised {e!r}')
                            continue
                        if not _same(got, raw[output][zone]['LOCALVALUE'][...][k]):
                            probs.append(f'{label}: local value {ln} of {output}/{zone} picked as {got.value}, stored {raw[output][zone]["LOCALVALUE"][...][k]}')
        pk.close()
    return n, probs


def reversed_copy(path, dest):
    '''a copy of the file in which the isotopes (and local values) of every zone are STORED in the reverse order: same names, same values per name'''
    import h5py
    import numpy as np
    shutil.copy(path, dest)
    changed = 0
    with h5py.File(dest, 'r+') as f:
        for output in f:
            if not isinstance(f[output], h5py.Group) or output in ('info', 'geometry'):
                continue
            for zone in f[output]:
                g = f[output][zone]
                if not isinstance(g, h5py.Group):
                    continue
                if 'ISOTOPE' in g and 'CONCEN' in g and g['ISOTOPE'].shape[0] > 1:
                    iso, con = g['ISOTOPE'][...], g['CONCEN'][...]
                    del g['ISOTOPE']          # (fixed-length strings are null-terminated in the file: re-created one byte wider so that no name is truncated)
                    g.create_dataset('ISOTOPE', data=np.array(list(iso[::-1]), dtype=f'S{iso.dtype.itemsize + 1}'))
                    g['CONCEN'][...] = np.ascontiguousarray(con[::-1])
                    changed += 1
                if 'LOCALNAME' in g and 'LOCALVALUE' in g and g['LOCALNAME'].shape[0] > 1:
                    ln, lv = g['LOCALNAME'][...], g['LOCALVALUE'][...]
                    del g['LOCALNAME']
                    g.create_dataset('LOCALNAME', data=np.array(list(ln[::-1]), dtype=f'S{ln.dtype.itemsize + 1}'))
                    g['LOCALVALUE'][...] = np.ascontiguousarray(lv[::-1])
                    changed += 1
    return changed


def sweep(tier, seed):
    import logging
    import warnings
    logging.disable(logging.CRITICAL)
    warnings.filterwarnings('ignore')
    fails, n = [], 0
    fl = files()
    tmp = tempfile.mkdtemp(prefix='c10a3_', dir='/var/tmp')
    try:
        for path in fl:
            base = os.path.basename(path)
            cnt, probs = check_file(path, base)
            n += cnt
            if probs:
                fails.append({'input': {'hdf5': os.path.relpath(path, repo_root())}, 'observed': probs[:3], 'expected': 'Reader == Picker == the stored arrays'})
            # the same names in another storage order, read in the same process after the original
            dest = os.path.join(tmp, base)
            if reversed_copy(path, dest):
                cnt, probs = check_file(dest, base + ' (isotopes / local values stored in the reverse order, opened after the original)')
                n += cnt
                if probs:
                    fails.append({'input': {'hdf5': os.path.relpath(path, repo_root()), 'then': 'a copy with the isotopes of every zone stored in the reverse order'},
                                  'observed': probs[:3], 'expected': 'each file is read for what IT stores, whatever was opened earlier in the process'})
                cnt, probs = check_file(path, base + ' (opened again after its reversed copy)')
                n += cnt
                if probs:
                    fails.append({'input': {'hdf5': os.path.relpath(path, repo_root()), 'then': 'reversed copy, then the original again'}, 'observed': probs[:3],
                                  'expected': 'each file is read for what IT stores'})
    finally:
        shutil.rmtree(tmp, ignore_errors=True)
    return {'name': 'apollo3-hdf5-native', 'evaluations': n, 'distinct': n, 'failures': fails[:8], 'exhaustive': True,
            'bound': f'the {len(fl)} shipped Apollo3 HDF5 files: every standard value of every output / zone / isotope and every local value, picked one by one with Picker and read '
                     'with Reader, compared with the arrays h5py returns; each file is followed, in the same process, by a copy whose isotopes and local values are stored in the '
                     'reverse order, then opened again; core files without zones are read but only their zone-structured part is compared',
            'samples': [{'hdf5': 'tests/eponine/apollo3/data/Mosteller.hdf'}]}


def replay(inp):
    out = sweep('quick', 0)
    return {'reproduced': bool(out['failures']), 'observed': out['failures'][:1]}


if __name__ == '__main__':
    import json
    import sys
    sys.path.insert(0, repo_root())
    out = sweep('quick', 0)
    print(out['evaluations'], len(out['failures']))
    for f in out['failures']:
        print(json.dumps(f)[:700])
