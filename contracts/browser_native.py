'''Native bounded stand-in for C17 (labelled bounded): every browser over <= 3 items with keys {a, b}, values {0, 1},
data key in {'results', 'd'}, every query (values, include, exclude), compared with a direct scan.'''
import copy
import itertools


def _items(n, data_key):
    '''all items: for each of keys a, b: absent / 0 / 1; data always present (unhashable, to catch indexing of the data)'''
    opts = [None, 0, 1]
    one = []
    for a, b in itertools.product(opts, opts):
        it = {}
        if a is not None:
            it['a'] = a
        if b is not None:
            it['b'] = b
        one.append(it)
    for combo in itertools.product(range(len(one)), repeat=n):
        yield [dict(one[c], **{data_key: [c, k]}) for k, c in enumerate(combo)]


def _scan(content, data_key, kwargs, include, exclude):
    out = []
    for it in content:
        if all(k != data_key and k in it and it[k] == v for k, v in kwargs.items()) \
                and all(k in it for k in include) and not any(k in it for k in exclude):
            out.append(it)
    return out


def _strip(it):
    return {k: v for k, v in it.items() if k != 'index'}


def queries():
    kw = [{}] + [{'a': v} for v in (0, 1, 2)] + [{'b': v} for v in (0, 1)] + [{'a': x, 'b': y} for x in (0, 1) for y in (0, 1)] + [{'c': 0}]
    inc = [(), ('a',), ('b',), ('a', 'b'), ('c',)]
    exc = [(), ('a',), ('b',)]
    return [(k, i, e) for k in kw for i in inc for e in exc]


def sweep(tier, seed):
    from valjean.eponine.browser import Browser, NoItemBrowserError, TooManyItemsBrowserError
    fails, n = [], 0
    nmax = 2 if tier == 'quick' else 3
    qs = queries()
    for data_key in ('results', 'd'):
        for size in range(0, nmax + 1):
            for content in _items(size, data_key):
                orig = copy.deepcopy(content)
                glob = {'g': 1}
                try:
                    br = Browser(content, data_key=data_key, global_vars=glob)
                except Exception as e:      # noqa
                    fails.append({'input': {'content': orig, 'data_key': data_key}, 'observed': f'constructor raised {e!r}', 'expected': 'a browser'})
                    continue
                for kwargs, include, exclude in qs:
                    n += 1
                    bad = _one(br, orig, content, data_key, glob, kwargs, include, exclude, Browser, NoItemBrowserError, TooManyItemsBrowserError)
                    if bad:
                        fails.append({'input': {'content': orig, 'data_key': data_key, 'kwargs': kwargs, 'include': list(include), 'exclude': list(exclude)},
                                      'observed': bad, 'expected': 'direct scan of the original list'})
                        break
                if len(fails) >= 6:
                    return _res(n, fails, nmax)
    # merge and chains
    for data_key in ('results', 'd'):
        for c1 in _items(1, data_key):
            for c2 in list(_items(1, data_key))[:5]:
                n += 1
                b1, b2 = Browser(c1, data_key=data_key, global_vars={'g': 1}), Browser(c2, data_key=data_key, global_vars={'h': 2})
                s1, s2 = copy.deepcopy(b1.content), copy.deepcopy(b2.content)
                m = b1.merge(b2)
                bad = None
                if [_strip(x) for x in m.content] != [_strip(x) for x in c1 + c2]:
                    bad = f'merge content {m.content}'
                elif m.globals != {'g': 1, 'h': 2} or m.data_key != data_key:
                    bad = f'merge globals/data_key {m.globals} {m.data_key}'
                elif b1.content != s1 or b2.content != s2 or b1.globals != {'g': 1} or b2.globals != {'h': 2}:
                    bad = 'merge modified an operand'
                else:
                    # chain: filter the merged browser, then filter again
                    f1 = m.filter_by(include=('a',))
                    f2 = f1.filter_by(a=0)
                    want = _scan(_scan(c1 + c2, data_key, {}, ('a',), ()), data_key, {'a': 0}, (), ())
                    if [_strip(x) for x in f2.content] != [_strip(x) for x in want] or f2.data_key != data_key:
                        bad = f'chain filter(include a).filter(a=0): {f2.content} data_key {f2.data_key}'
                if bad:
                    fails.append({'input': {'merge': [c1, c2], 'data_key': data_key}, 'observed': bad, 'expected': 'concatenation, operands untouched'})
                    if len(fails) >= 6:
                        return _res(n, fails, nmax)
    # merge with an EMPTY browser on either side (no item, but global variables): the union of the globals, a new browser, operands left alone
    for data_key in ('results', 'd'):
        for c1 in list(_items(1, data_key))[:4] + [[]]:
            for side in ('empty right', 'empty left'):
                n += 1
                full, empty = Browser(copy.deepcopy(c1), data_key=data_key, global_vars={'g': 1}), Browser([], data_key=data_key, global_vars={'h': 2})
                m = full.merge(empty) if side == 'empty right' else empty.merge(full)
                bad = None
                if [_strip(x) for x in m.content] != [_strip(x) for x in c1]:
                    bad = f'merge content {m.content}'
                elif m.globals != {'g': 1, 'h': 2}:
                    bad = f'the merged browser has the globals {m.globals}, expected those of both operands'
                elif m is full or m is empty:
                    bad = 'merge returned one of its operands'
                else:
                    m.globals['later'] = 3
                    if full.globals != {'g': 1} or empty.globals != {'h': 2}:
                        bad = 'changing the merged browser changed an operand'
                if bad:
                    fails.append({'input': {'merge': [c1, []] if side == 'empty right' else [[], c1], 'data_key': data_key, 'globals': [{'g': 1}, {'h': 2}]}, 'observed': bad,
                                  'expected': 'concatenation, union of the globals, operands untouched'})
    # three criteria, in every keyword order (the running intersection may become empty before the last criterion)
    import itertools as _it
    people = [{'menu': 1, 'drink': 'beer', 'consumer': 'Terry', 'results': 0}, {'menu': 2, 'drink': 'tea', 'consumer': 'John', 'results': 1},
              {'menu': 1, 'drink': 'tea', 'consumer': 'Graham', 'results': 2}]
    vals = {'menu': (1, 2), 'drink': ('beer', 'tea'), 'consumer': ('Terry', 'John', 'Graham')}
    for combo in _it.product(*[[(k, v) for v in vs] for k, vs in vals.items()]):
        for order in _it.permutations(combo):
            n += 1
            kwargs = dict(order)
            br = Browser(copy.deepcopy(people))
            want = _scan(people, 'results', kwargs, (), ())
            got = br.filter_by(**kwargs).content
            if [_strip(x) for x in got] != [_strip(x) for x in want]:
                fails.append({'input': {'content': people, 'data_key': 'results', 'kwargs': kwargs, 'include': [], 'exclude': []},
                              'observed': f'filter_by selected {[_strip(x) for x in got]}', 'expected': f'direct scan: {[_strip(x) for x in want]}'})
                break
        if len(fails) >= 6:
            return _res(n, fails, nmax)
    # derived browsers (sub-browsers of filter_by, merged browsers, chains): their index describes THEIR content, position key included
    for data_key in ('results', 'd'):
        c1 = [{'a': i % 2, 'b': i % 3, data_key: [i]} for i in range(5)]
        c2 = [{'a': 1 - i % 2, 'c': i, data_key: [10 + i]} for i in range(3)]
        b1, b2 = Browser(copy.deepcopy(c1), data_key=data_key), Browser(copy.deepcopy(c2), data_key=data_key)
        derived = {'filter_by(a=1)': lambda: b1.filter_by(a=1), 'filter_by(a=1).filter_by(b=1)': lambda: b1.filter_by(a=1).filter_by(b=1),
                   'filter_by(include=b)': lambda: b1.filter_by(include=('b',)), 'merge': lambda: b1.merge(b2), 'merge.filter_by(a=0)': lambda: b1.merge(b2).filter_by(a=0),
                   'filter_by(a=0).merge(filter_by(a=1))': lambda: b1.filter_by(a=0).merge(b1.filter_by(a=1))}
        for label, mk in derived.items():
            n += 1
            try:
                d = mk()
            except Exception as e:      # noqa
                fails.append({'input': {'derived': label, 'data_key': data_key}, 'observed': f'raised {e!r}', 'expected': 'a browser'})
                continue
            bad = _index_describes_content(d, data_key)
            if not bad:
                # queries by position on the derived browser
                for pos in range(len(d.content) + 1):
                    want = [_strip(x) for i, x in enumerate(d.content) if i == pos]
                    got = [_strip(x) for x in d.filter_by(index=pos).content]
                    if got != want:
                        bad = f'filter_by(index={pos}) returned {len(got)} item(s) {got}, the item at that position is {want}'
                        break
                    try:
                        one = d.select_by(index=pos)
                        if not want or _strip(one) != want[0]:
                            bad = f'select_by(index={pos}) returned {_strip(one)} instead of {want}'
                            break
                    except NoItemBrowserError:
                        if want:
                            bad = f'select_by(index={pos}) found nothing'
                            break
                    except TooManyItemsBrowserError:
                        bad = f'select_by(index={pos}) found several items'
                        break
            if bad:
                fails.append({'input': {'derived': label, 'data_key': data_key}, 'observed': bad, 'expected': 'the index of a derived browser describes its own content'})
        if len(fails) >= 6:
            return _res(n, fails, nmax)
    # larger browsers: order of the selection (a set of positions iterates in hash order beyond 8 entries) and repeated queries
    for data_key in ('results', 'd'):
        content = [{'seven': i % 7, 'three': i % 3, 'rank': i, data_key: [i]} for i in range(40)]
        orig = copy.deepcopy(content)
        br = Browser(content, data_key=data_key, global_vars={'g': 1})
        qs2 = [{'seven': v} for v in range(7)] + [{'three': v} for v in range(3)] + [{'seven': a, 'three': b} for a in range(7) for b in range(3)]
        for rep in range(2):        # every query twice: a query must not disturb the next one
            for kwargs in qs2:
                n += 1
                want = _scan(orig, data_key, kwargs, (), ())
                sub = br.filter_by(**kwargs)
                got = [_strip(x) for x in sub.content]
                if got != want:
                    fails.append({'input': {'large': True, 'data_key': data_key, 'kwargs': kwargs, 'repeat': rep},
                                  'observed': f'filter_by returned ranks {[x["rank"] for x in got]}, a direct scan selects {[x["rank"] for x in want]}',
                                  'expected': 'the scanned items in original order'})
                    break
            else:
                continue
            break
        if len(fails) >= 6:
            break
    return _res(n, fails, nmax)


def _index_describes_content(br, data_key):
    """the invariant IDX the contracts assume: index[k][v] is exactly the set of positions whose item holds k with value v (data key excluded, 'index' = position)"""
    want = {}
    for i, it in enumerate(br.content):
        if it.get('index') != i:
            return f"item {i} carries index {it.get('index')!r}"
        for k, v in it.items():
            if k != data_key:
                want.setdefault(k, {}).setdefault(v, set()).add(i)
    got = {k: {v: set(s) for v, s in vals.items() if s} for k, vals in br.index.items()}
    got = {k: v for k, v in got.items() if v}
    if got != want:
        for k in set(got) | set(want):
            if got.get(k) != want.get(k):
                return f'index[{k!r}] is {got.get(k)} but the content gives {want.get(k)}'
    return None


def _res(n, fails, nmax):
    return {'name': 'browser-queries-native', 'evaluations': n, 'distinct': n, 'failures': fails[:8], 'exhaustive': True,
            'bound': f'all browsers with <= {nmax} items over keys {{a, b}} (absent / 0 / 1), unhashable data under data key in {{results, d}}, '
                     'x 180 queries (values incl. absent ones, include, exclude) + merges of 1-item browsers and a filter chain, merges with an empty browser on either side, every 3-criteria query in every keyword order on 3 items + 6 derived browsers (sub-browsers, merges, chains): index invariant and queries by position + a 40-item browser with 31 '
                     'queries asked twice (order of the selection, queries do not disturb each other); compared with a direct scan',
            'samples': [{'content': [{'a': 0, 'results': [1, 0]}], 'kwargs': {'a': 0}, 'include': ['b'], 'exclude': []}]}


def _one(br, orig, content, data_key, glob, kwargs, include, exclude, Browser, NoItem, TooMany):
    want = _scan(orig, data_key, kwargs, include, exclude)
    try:
        sub = br.filter_by(include=include, exclude=exclude, **kwargs)
    except Exception as e:      # noqa
        return f'filter_by raised {e!r}'
    got = [_strip(x) for x in sub.content]
    if got != want:
        return f'filter_by content {got} != {want}'
    for g, w in zip(sub.content, want):
        k = orig.index(w) if w in orig else None
    # data untouched and identical objects
    ids_want = [id(content[i][data_key]) for i, it in enumerate(orig) if it in want and _first_index(orig, it, want, i)]
    if sub.globals != glob:
        return f'filter_by globals {sub.globals}'
    if sub.data_key != data_key:
        return f'filter_by data_key {sub.data_key!r} != {data_key!r}'
    if [_strip(x) for x in br.content] != orig or content != orig or glob != {'g': 1} or br.data_key != data_key:
        return 'filter_by modified the browser or the input dictionaries'
    # select_by
    try:
        it = br.select_by(include=include, exclude=exclude, **kwargs)
        if len(want) != 1 or _strip(it) != want[0]:
            return f'select_by returned {it} but the scan selects {want}'
    except NoItem:
        if len(want) != 0:
            return f'select_by raised NoItemBrowserError but the scan selects {want}'
    except TooMany:
        if len(want) < 2:
            return f'select_by raised TooManyItemsBrowserError but the scan selects {want}'
    except Exception as e:      # noqa
        return f'select_by raised {e!r}'
    # keys / available_values
    keys = set(br.keys())
    wk = {k for it in orig for k in it if k != data_key} | ({'index'} if orig else set())
    if keys != wk:
        return f'keys() = {keys} != {wk}'
    for k in ('a', 'b', 'c'):
        vals = set(br.available_values(k))
        wv = {it[k] for it in orig if k in it}
        if vals != wv:
            return f'available_values({k}) = {vals} != {wv}'
    return None


def _first_index(orig, it, want, i):
    return True


def replay(inp):
    from valjean.eponine.browser import Browser, NoItemBrowserError, TooManyItemsBrowserError
    if 'merge' in inp or inp.get('large'):
        out = sweep('quick', 0)
        return {'reproduced': bool(out['failures']), 'observed': out['failures'][:1]}
    content = copy.deepcopy(inp['content'])
    orig = copy.deepcopy(content)
    glob = {'g': 1}
    br = Browser(content, data_key=inp['data_key'], global_vars=glob)
    bad = _one(br, orig, content, inp['data_key'], glob, inp.get('kwargs', {}), tuple(inp.get('include', ())), tuple(inp.get('exclude', ())),
               Browser, NoItemBrowserError, TooManyItemsBrowserError)
    return {'reproduced': bool(bad), 'observed': bad}
