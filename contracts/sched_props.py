'''Common run_unit / replay for the scheduler property modules C01-C04.'''
from . import sched_units as su
from . import sched_native as native


def run_unit(pid, unit, tier, seed, known):
    if unit in ('decide', 'decide_waiting', 'last_end_time'):
        return su.unit_decide(tier, pid, unit)
    if unit == 'enqueue':
        return su.unit_enqueue(tier, pid)
    if unit == 'worker':
        return su.unit_worker(tier, pid)
    if unit == 'master':
        return su.unit_master(tier, pid)
    if unit == 'og':
        return su.unit_og(tier, pid, 'og')
    if unit == 'independence':
        return su.unit_og(tier, pid, 'independence')
    if unit == 'env_locks':
        return su.unit_env_locks(tier, pid)
    if unit == 'env_conformance':
        return su.unit_env_conformance(tier, seed)
    if unit == 'native_sweep':
        return su.unit_native('sweep', su.sweep_args(tier, seed), 'scheduler-sweep-native', su.SWEEP_BOUND)
    if unit == 'native_park':
        return su.unit_native('park', {}, 'worker-preemption-native', su.PARK_BOUND)
    if unit == 'native_rerun':
        return su.unit_native('rerun', su.rerun_args(tier, seed), 'rerun-histories-native', su.RERUN_BOUND)
    if unit == 'scheduler_init':
        return su.unit_scheduler_init(tier, pid)
    if unit == 'backend_init':
        return su.unit_backend_init(tier, pid)
    if unit == 'schedule':
        return su.unit_schedule(tier, pid)
    if unit.startswith('dg_'):
        from . import C16
        return C16.run_unit(unit[3:], tier, seed, known)
    if unit == 'merge_done':
        from . import env_units
        return env_units.unit_merge_done(tier, pid)
    raise KeyError(unit)


def replay(name, inp):
    inp = inp or {}
    if 'tasks' in inp:
        return su.replay_decide(name, inp)
    if 'parked_before_line' in inp:
        out = native.call('park', {'line_text': inp.get('text')}, timeout=120)
        return {'reproduced': bool(out.get('failures')), 'observed': out.get('failures', [])[:2]}
    if 'first_run' in inp:
        out = native.call('rerun_single', inp, timeout=60)
        return {'reproduced': bool(out.get('problems')), 'observed': out.get('problems')}
    if 'outcomes' in inp:
        out = native.call('single', inp, timeout=60)
        return {'reproduced': bool(out.get('problems') or out.get('hang')), 'observed': out.get('problems') or ('hang' if out.get('hang') else None)}
    if inp.get('twice'):
        out = native.call('twice', {}, timeout=60)
        return {'reproduced': bool(out.get('failures')), 'observed': out.get('failures', [])[:2]}
    if inp.get('master_error') or inp.get('nested') or inp.get('scheduler_graphs'):
        mode = 'master_error' if inp.get('master_error') else ('nested' if inp.get('nested') else 'scheduler_graphs')
        out = native.call(mode, {}, timeout=60)
        return {'reproduced': bool(out.get('failures')), 'observed': out.get('failures', [])[:2]}
    if inp.get('wide'):
        out = native.call('wide', {}, timeout=120)
        return {'reproduced': bool(out.get('failures')), 'observed': out.get('failures', [])[:2]}
    if 'cycle_of' in inp:
        out = native.call('cyclic', {}, timeout=60)
        return {'reproduced': bool(out.get('failures')), 'observed': out.get('failures', [])[:2]}
    return su.replay_native([su.PARK, su.SWEEP_SMALL, su.RERUN_SMALL])(name, inp)
