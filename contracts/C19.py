'''C19 -- a failing command is never reported as done and its output is captured intact.

Deductive part: run() (loop invariant; stop at the first non-zero status), sanitize_filename (string contract), the
ownership lemma over accepted names (distinct tasks own disjoint directories, none is the output root), and the
runner closure of RunTask (status / return codes / directory / capture files handed to the environment).
Child processes and the bytes they write are external: bounded native sweep (real processes) only.'''
import ast
import z3

from pyvc import prop, theory as th
from pyvc.values import SV, SObj, SClass, SNamespace, SFunc, T, INT, BOOL, STR, NUM, Undecided, lift, coerce, zsort, seq_len, seq_arr
from pyvc.engine import Contract, LoopSpec, Scope
from pyvc.verify import World, ClassModel, verify_function
from . import run_native as rnat

ID = 'C19'
LEVEL = 'proof'
RUNF = 'valjean/cosette/run.py'
PATHF = 'valjean/path.py'
TASKF = 'valjean/cosette/task.py'
CLI = T('Ref', 'Cli')

EXPLANATION = ('Contracts on the real run() (loop invariant: commands are started in order, the recorded codes are theirs, all zero so far and status DONE; '
               'post: DONE iff every command exited with 0, nothing is started after the first non-zero status, OSError of a command that cannot be started '
               'propagates), sanitize_filename (returns the name unchanged, ValueError exactly for "", ".", "..", names with "/" or NUL), the ownership lemma '
               '(accepted distinct names give distinct directories, none inside another, none equal to the output root; z3/cvc5 strings) and the runner of RunTask '
               '(status and return codes are those of run(), output_dir = output-root/name, capture files inside it). '
               'PythonTask.do raising => FAILED is the worker contract of C02. Real child processes: labelled bounded sweep.')
ASSUMPTIONS = [
    'subprocess.call returns the exit status of the child or signals OSError when it cannot be started; the OS writes what the child wrote, in order, '
    'into the files it was given (stream content is decided by the bounded sweep with real processes only)',
    'pathlib: str(Path(a, b)) == a + "/" + b for a name b without "/"; Path.resolve() does not change which directory a path denotes',
    'make_cap_paths (ensure/touch of the two capture files) is used through its assumed contract: returns output_dir/stdout, output_dir/stderr',
    'print(..., file=stderr) of the command echo and Chrono timing are dropped (no effect on status / codes)',
    'CheckoutTask / BuildTask (cosette/code.py) directories are not under a contract here',
    'A-log: LOGGER calls dropped',
]
TRUSTED = ['z3 unsat answers (cvc5 for string lemmas z3 leaves open)', 'CPython ast module', 'pyvc engine (symbolic executor, libspec encodings)']

code = None


def make_world():
    global code
    w = World()
    w.enum('TaskStatus', TASKF)
    w.globals['LOGGER'] = SNamespace('LOGGER', dropped=True)
    w.dropped_names = {'print'}
    code = th.func('exit_status_of_call', z3.IntSort(), z3.IntSort())
    w.globals['code'] = lambda I, k: SV(INT, code((k if isinstance(k, SV) else lift(k)).t))
    w.globals['shlex'] = SNamespace('shlex', {})
    w.exc_parents.update({'FileNotFoundError': 'OSError', 'PermissionError': 'OSError'})

    class Ghost(ClassModel):
        name = 'Ghost'
        fields = {'ncalls': 'Int'}
    w.class_models['Ghost'] = Ghost(w)

    def call(I, cli, **kwargs):
        '''assumed contract of subprocess.call'''
        g = I.ghost
        k = I.getfield(g, 'ncalls')
        clis = I.entry_scope.lookup('clis')
        # commands are started in the order of the list, each at most once
        I.path.oblige(f'{RUNF}::run::pre@call::subprocess.call::commands-are-started-in-order',
                      z3.And(k.t >= 0, k.t < seq_len(clis), cli.t == seq_arr(clis)[k.t]), kind='pre@call',
                      meta={'expr': 'the k-th call of subprocess.call runs clis[k]'})
        for required in ('stdout', 'stderr'):
            I.path.oblige(f'{RUNF}::run::pre@call::subprocess.call::{required}-is-the-capture-file', kwargs.get(required) is I.entry_scope.lookup(required),
                          kind='pre@call', meta={'expr': f'{required}= is the file handed to run()'})
        I.setfield(g, 'ncalls', SV(INT, k.t + 1))
        if I.path.cond(z3.Bool(I.path.name('cannot_be_started'))):
            I.raise_('OSError')
        return SV(INT, code(k.t))
    w.globals['call'] = call
    return w


def run_setup(I, scope):
    g = I.alloc('Ghost', {'ncalls': SV(INT, z3.IntVal(0))})
    I.ghost = g
    scope.set('ghost_', g)
    scope.set('subprocess_args', {})


def c_run():
    inv = ['len(results) == done', 'ghost_.ncalls == done', 'all(results[j] == 0 for j in range(done))', 'all(results[j] == code(j) for j in range(done))',
           'status == TaskStatus.DONE']
    return Contract(
        RUNF, 'run', params={'clis': 'Seq[Ref:Cli]', 'stdout': 'Obj:File', 'stderr': 'Obj:File'},
        ensures=[('C19-DONE-iff-every-command-exited-with-zero', '(result[1] == TaskStatus.DONE) == all(result[0][j] == 0 for j in range(len(result[0])))'),
                 ('C19-DONE-means-every-command-was-run', 'implies(result[1] == TaskStatus.DONE, len(result[0]) == len(clis))'),
                 ('C19-status-is-DONE-or-FAILED', 'result[1] == TaskStatus.DONE or result[1] == TaskStatus.FAILED'),
                 ('C19-recorded-codes-are-those-of-the-commands-run', 'ghost_.ncalls == len(result[0]) and all(result[0][j] == code(j) for j in range(len(result[0])))'),
                 ('C19-nothing-is-run-after-the-first-failure', 'len(result[0]) <= len(clis) and all(result[0][j] == 0 for j in range(len(result[0]) - 1))')],
        signals={'OSError': True},
        signals_post={'OSError': ['all(code(j) == 0 for j in range(ghost_.ncalls - 1))']},     # a command is started only while all earlier ones succeeded
        loops={0: LoopSpec('for cli in clis', inv, vars={'results': 'Seq[Int]', 'status': 'Enum:TaskStatus', 'ghost_.ncalls': 'Int', 'result': 'Int'})})


INVALID = "NUL in name or '/' in name or name == '' or name == '.' or name == '..'"


def c_sanitize():
    return Contract(PATHF, 'sanitize_filename', params={'name': 'Str'}, returns='Str',
                    ensures=[('returns-the-name-unchanged', 'same(result, name)'), ('accepted-names-are-valid', f'not ({INVALID})')],
                    signals={'ValueError': INVALID})


def ownership_lemmas():
    root, n1, n2 = z3.String('root'), z3.String('n1'), z3.String('n2')
    slash = z3.StringVal('/')

    def ok(n):
        return z3.And(z3.Not(z3.Contains(n, z3.StringVal('\x00'))), z3.Not(z3.Contains(n, slash)), n != z3.StringVal(''), n != z3.StringVal('.'), n != z3.StringVal('..'))

    def d(n):
        return z3.Concat(root, slash, n)
    hyp = [ok(n1), ok(n2), n1 != n2]
    return [('C19-distinct-names-own-distinct-directories', hyp, d(n1) != d(n2), 'accepted n1 != n2 => root/n1 != root/n2'),
            ('C19-no-task-directory-inside-another', hyp, z3.Not(z3.PrefixOf(z3.Concat(d(n1), slash), d(n2))), 'root/n1/ is not a prefix of root/n2'),
            ('C19-a-task-directory-is-not-the-output-root', [ok(n1)], z3.And(d(n1) != root, d(n1) != z3.Concat(root, slash), d(n1) != z3.Concat(root, slash, z3.StringVal('.'))),
             'root/n is neither root, root/ nor root/.'),
            ('C19-a-task-directory-is-a-direct-child', [ok(n1)], z3.Not(z3.Contains(z3.SubString(d(n1), z3.Length(root) + 1, z3.Length(n1)), slash)),
             'the component after root/ contains no further separator')]


# ---------------------------------------------------------------------------------------
class PathModel(ClassModel):
    name = 'Path'
    fields = {}

    def m___truediv__(self, I, p, other):
        o = other if isinstance(other, SV) else lift(other)
        return I.alloc('Path', {'s': SV(STR, z3.Concat(I.getfield(p, 's').t, z3.StringVal('/'), o.t))})

    def m_open(self, I, p, mode='r'):
        return I.alloc('File', {'path': p, 'mode': mode})

    def m_resolve(self, I, p):
        return p


class ConfigModel(ClassModel):
    name = 'Config'
    fields = {'root': 'Str'}

    def m_query(self, I, c, section, option):
        if (section, option) != ('path', 'output-root'):
            raise Undecided('config.query of another option')
        return I.getfield(c, 'root')


class RunTaskModel(ClassModel):
    name = 'RunTask'
    fields = {'name': 'Str'}


def make_runner_world():
    w = make_world()
    w.class_models['Path'] = PathModel(w)
    w.class_models['Config'] = ConfigModel(w)
    w.class_models['RunTask'] = RunTaskModel(w)
    w.globals['Path'] = SClass('Path')

    def new_path(I, args, kwargs):
        parts = [a if isinstance(a, SV) else (I.getfield(a, 's') if isinstance(a, SObj) else lift(a)) for a in args]
        t = parts[0].t
        for p in parts[1:]:
            t = z3.Concat(t, z3.StringVal('/'), p.t)
        return I.alloc('Path', {'s': SV(STR, t)})
    w.construct_hooks['Path'] = new_path
    lib_str = w.lib.b_str

    def b_str(I, x=''):
        if isinstance(x, SObj) and x.cls == 'Path':
            return I.getfield(x, 's')
        return lib_str(I, x)
    w.lib.b_str = b_str
    w.add_function(c_sanitize(), 'sanitize_filename')

    def make_cap_paths(I, base):
        I.world.lib.use('make_cap_paths: returns base/stdout, base/stderr (assumed contract)')
        return (w.class_models['Path'].m___truediv__(I, base, 'stdout'), w.class_models['Path'].m___truediv__(I, base, 'stderr'))
    w.globals['make_cap_paths'] = make_cap_paths

    def run_model(I, clis, stdout, stderr, **kwargs):
        '''run() through its contract (unit run): results / status; OSError when a command cannot be started'''
        I.run_args = (clis, stdout, stderr, kwargs)
        if I.path.cond(z3.Bool(I.path.name('run_raises_OSError'))):
            I.raise_('OSError')
        results = I.fresh(T('Seq', INT), 'results')
        status = I.fresh(T('Enum', 'TaskStatus'), 'status')
        D, F = I.world.enum_const('TaskStatus', 'DONE'), I.world.enum_const('TaskStatus', 'FAILED')
        I.path.assume(z3.Or(status.t == D.t, status.t == F.t))
        elapsed = I.fresh(NUM, 'elapsed')
        I.run_out = (results, status)
        return (results, status, elapsed)
    w.globals['run'] = run_model
    return w


def runner_contract():
    return Contract(RUNF, 'RunTask.run_task.runner',
                    params={'env': 'None', 'config': 'Obj:Config', 'name': 'Str', 'clis_closure': lambda I, base: (lambda I2, env, config: I2.clis), 'subprocess_args': 'None'},
                    signals={'ValueError': INVALID, 'OSError': True})


def runner_setup(I, scope):
    I.clis = I.fresh(T('Seq', CLI), 'clis')
    I.run_args = None
    I.run_out = None
    scope.set('subprocess_args', {})
    me = I.world.class_models['RunTask'].fresh(I, 'self')
    scope.set('self', me)
    scope.set('NUL', '\x00')


def runner_check(I, scope, outcome):
    p = I.path
    L = f'{RUNF}::RunTask.run_task.runner'
    if outcome[0] != 'return':
        return
    ret = outcome[1]
    ok = isinstance(ret, tuple) and len(ret) == 2 and isinstance(ret[0], dict)
    p.oblige(f'{L}::post::returns-an-update-and-a-status', ok and I.run_out is not None, kind='post', meta={'expr': '(env_update, status) from one call of run()'})
    if not ok or I.run_out is None:
        return
    env_up, status = ret
    results, st = I.run_out
    me = scope.lookup('self')
    keys = list(env_up)
    p.oblige(f'{L}::post::update-is-keyed-by-the-task-name', len(keys) == 1 and isinstance(keys[0], SV) and keys[0].t.eq(I.getfield(me, 'name').t), kind='post',
             meta={'expr': 'env_up has the single key self.name'})
    ent = env_up[keys[0]] if keys else {}
    p.oblige(f'{L}::post::C19-status-is-the-one-run-reported', status is st, kind='post', meta={'expr': 'the status returned is the status computed by run()'})
    p.oblige(f'{L}::post::C19-return-codes-are-those-run-recorded', ent.get('return_codes') is results, kind='post', meta={'expr': "env_up[name]['return_codes'] is run()'s list"})
    root = I.getfield(scope.lookup('config'), 'root')
    name = scope.lookup('name')
    want_dir = z3.Concat(root.t, z3.StringVal('/'), name.t)
    od = ent.get('output_dir')
    p.oblige(f'{L}::post::C19-output-dir-is-root-slash-name', isinstance(od, SV) and od.t == want_dir, kind='post', meta={'expr': "output_dir == output-root + '/' + name"})
    clis, so, se, kw = I.run_args
    for which, f, leaf in (('stdout', so, 'stdout'), ('stderr', se, 'stderr')):
        good = isinstance(f, SObj) and f.cls == 'File' and I.heap[f.oid]['fields'].get('mode') == 'w'
        path_t = I.getfield(I.getfield(f, 'path'), 's').t if good else None
        p.oblige(f'{L}::post::C19-{which}-is-captured-in-the-task-directory',
                 z3.And(path_t == z3.Concat(want_dir, z3.StringVal('/' + leaf))) if good else False, kind='post',
                 meta={'expr': f'run() writes {which} into output_dir/{leaf}, opened for writing'})
        rec = ent.get(which)
        p.oblige(f'{L}::post::C19-{which}-path-is-recorded', isinstance(rec, SV) and good and rec.t == path_t, kind='post', meta={'expr': f"env_up[name]['{which}'] is that file"})
    p.oblige(f'{L}::post::commands-come-from-the-closure', clis is I.clis, kind='post', meta={'expr': 'run() receives the command lines produced by clis_closure'})
    cwd = kw.get('cwd')
    p.oblige(f'{L}::post::commands-run-inside-the-task-directory', isinstance(cwd, SV) and cwd.t == want_dir, kind='post', meta={'expr': 'cwd = output_dir'})


# ---- make_cap_paths: the contract the runner relies on, verified
def c_cap_paths():
    return Contract(RUNF, 'make_cap_paths', params={'base_path': 'Obj:Path'}, signals={},
                    ensures=[('C19-stdout-and-stderr-are-files-of-the-task-directory', 'same(str(returned[0]), str(base_path) + "/stdout") and same(str(returned[1]), str(base_path) + "/stderr")'),
                             ('C19-the-two-streams-go-to-different-files', 'not same(str(returned[0]), str(returned[1]))')])


def cap_world():
    w = make_runner_world()
    w.class_models['Path'].fields = {'s': 'Str'}
    del w.globals['make_cap_paths']

    def ensure(I, p):
        I.trace.append(('ensure', p))
    w.globals['ensure'] = ensure
    return w


def cap_check(I, scope, outcome):
    L = f'{RUNF}::make_cap_paths'
    ens = [e[1] for e in I.trace if e[0] == 'ensure']
    res = outcome[1] if outcome[0] == 'return' else None
    ok = isinstance(res, tuple) and len(res) == 2 and len(ens) == 2 and all(isinstance(p, SObj) for p in ens)
    if ok:
        got = sorted(I.getfield(p, 's').t.sexpr() for p in ens)
        want = sorted(I.getfield(p, 's').t.sexpr() for p in res)
        ok = got == want
    I.path.oblige(f'{L}::post::C19-both-capture-files-are-made-sure-to-exist', ok, kind='post', meta={'expr': 'ensure() is called on exactly the two returned paths'})


# ---- PythonTask.do: the function is called once; its answer is the answer of the task; a TaskException is a FAILED task with its reason
PYF = 'valjean/cosette/pythontask.py'


def do_world():
    w = make_world()
    w.exc_parents['TaskException'] = 'Exception'
    w.exc_parents['SomeOtherError'] = 'Exception'
    w.globals['TaskException'] = SClass('TaskException')
    w.globals['MappingProxyType'] = lambda I, env: ('proxy', env)
    # `from types import MappingProxyType` inside the function
    w.import_hook = lambda I, module, names: None
    for cname in ('PythonTask', 'Func', 'EnvX', 'ConfigX', 'Answer'):
        w.class_models[cname] = type(cname, (ClassModel,), {'name': cname, 'fields': {}})(w)
    return w


def do_setup(variant):
    def setup(I, scope):
        I.trace = []
        I.answer = I.alloc('Answer', {})

        def func(I2, *args, **kwargs):
            I2.trace.append(('func', args, dict(kwargs)))
            if I2.path.cond(z3.Bool(I2.path.name('func_raises_TaskException'))):
                from pyvc.values import SPyExc
                exc = SPyExc('TaskException', ())
                exc.because = I2.because
                I2.raise_exc(exc) if hasattr(I2, 'raise_exc') else I2.raise_('TaskException')
            if I2.path.cond(z3.Bool(I2.path.name('func_raises_something_else'))):
                I2.raise_('SomeOtherError')
            return I2.answer
        I.because = I.fresh(STR, 'because')
        I.a0, I.k0 = I.fresh(STR, 'positional0'), I.fresh(STR, 'keyword0')
        me = I.alloc('PythonTask', {'name': I.fresh(STR, 'task_name'), 'func': func, 'args': [I.a0], 'kwargs': {'kw': I.k0},
                                    'env_kwarg': 'env' if variant in ('env', 'env+config') else None, 'config_kwarg': 'config' if variant in ('config', 'env+config') else None})
        scope.set('self', me)
        I.env, I.config = I.alloc('EnvX', {}), I.alloc('ConfigX', {})
        scope.set('env', I.env)
        scope.set('config', I.config)
    return setup


def c_do(variant):
    return Contract(PYF, 'PythonTask.do', params={}, signals={'SomeOtherError': True}, variant=variant)


def do_check(variant):
    def check(I, scope, outcome):
        L = f'{PYF}::PythonTask.do[{variant}]'
        calls = [e for e in I.trace if e[0] == 'func']
        ok = len(calls) == 1
        if ok:
            _, args, kwargs = calls[0]
            want_keys = {'kw'} | ({'env'} if 'env' in variant else set()) | ({'config'} if 'config' in variant else set())
            ok = len(args) == 1 and args[0] is I.a0 and set(kwargs) == want_keys and kwargs['kw'] is I.k0
            if ok and 'env' in variant:
                ok = kwargs['env'] == ('proxy', I.env)          # a read-only view of the environment
            if ok and 'config' in variant:
                ok = kwargs['config'] is I.config
        I.path.oblige(f'{L}::post::C19-the-function-is-called-exactly-once-with-its-arguments-a-read-only-environment-and-the-configuration', ok, kind='post',
                      meta={'expr': 'func(*args, **kwargs, [env=MappingProxyType(env)], [config=config]) once'})
        if outcome[0] == 'return':
            res = outcome[1]
            raised = any(str(d).startswith('func_raises_TaskException') and v for d, v in getattr(I.path, 'named_decisions', {}).items()) if hasattr(I.path, 'named_decisions') else None
            if res is I.answer:
                good = True
            else:
                # the TaskException branch: ({name: {'why': because}}, FAILED)
                F = I.world.enum_const('TaskStatus', 'FAILED')
                good = isinstance(res, tuple) and len(res) == 2 and isinstance(res[0], dict) and isinstance(res[1], SV) and z3.eq(res[1].t, F.t) and len(res[0]) == 1
                if good:
                    (k, v), = res[0].items()
                    good = k is I.getfield(scope.lookup('self'), 'name') and isinstance(v, dict) and set(v) == {'why'}
            I.path.oblige(f'{L}::post::C19-the-answer-of-the-function-is-the-answer-of-the-task-a-TaskException-is-a-FAILED-task-with-its-reason', good, kind='post',
                          meta={'expr': 'result is what func returned, or ({name: {why: ...}}, FAILED) when func raised TaskException'})
    return check


# ---- BuildTask.cmake_build_sys.build_sys (cosette/code.py): configure, then build only if configure exited with zero
CODEF = 'valjean/cosette/code.py'


def build_world():
    w = make_world()
    w.class_models['BuildTask'] = type('BuildTask', (ClassModel,), {'name': 'BuildTask', 'fields': {}})(w)

    def run_model(I, clis, **kwargs):
        '''run() through its verified contract (unit run) for ONE command line: one return code, DONE iff it is zero; OSError when the command cannot be started'''
        I.trace.append(('run', clis, kwargs))
        if I.path.cond(z3.Bool(I.path.name('cmake_cannot_be_started'))):
            I.raise_('OSError')
        code = I.fresh(INT, 'return_code')
        D, F = I.world.enum_const('TaskStatus', 'DONE'), I.world.enum_const('TaskStatus', 'FAILED')
        status = SV(T('Enum', 'TaskStatus'), z3.If(code.t == 0, D.t, F.t))
        I.codes.append(code)
        return ([code], status, I.fresh(NUM, 'elapsed'))
    w.globals['run'] = run_model
    return w


def build_setup(I, scope):
    I.trace, I.codes = [], []
    scope.set('self', I.alloc('BuildTask', {'CMAKE': 'cmake'}))
    scope.set('targets', None)
    scope.set('configure_flags', None)
    scope.set('build_flags', None)
    scope.set('source_dir', I.fresh(STR, 'source_dir'))
    scope.set('build_dir', I.fresh(STR, 'build_dir'))
    scope.set('log', I.alloc('File', {}))


def c_build_sys():
    return Contract(CODEF, 'BuildTask.cmake_build_sys.build_sys', params={}, returns='Enum:TaskStatus', signals={'OSError': True})


def c_checkout_vcs():
    return Contract(CODEF, 'CheckoutTask.__init__.checkout_vcs', params={}, returns='Enum:TaskStatus', signals={'OSError': True})


def checkout_setup(I, scope):
    I.trace, I.codes = [], []
    scope.set('self', I.alloc('BuildTask', {'GIT': 'git'}))
    scope.set('flags', None)
    scope.set('repository', I.fresh(STR, 'repository'))
    scope.set('ref', 'master')
    scope.set('checkout_dir', I.fresh(STR, 'checkout_dir'))
    scope.set('log', I.alloc('File', {}))


def two_step_check(qual, first, second):
    def check(I, scope, outcome):
        return build_check(I, scope, outcome, L=f'{CODEF}::{qual}', first=first, second=second)
    return check


def build_check(I, scope, outcome, L=None, first='configure', second='build'):
    from pyvc.engine import _b
    L = L or f'{CODEF}::BuildTask.cmake_build_sys.build_sys'
    p = I.path
    runs = [e for e in I.trace if e[0] == 'run']
    if outcome[0] != 'return':
        return
    D = I.world.enum_const('TaskStatus', 'DONE')
    res = outcome[1]
    first_ok = I.codes[0].t == 0 if I.codes else z3.BoolVal(False)
    p.oblige(f'{L}::post::C19-the-{second}-step-is-run-exactly-when-the-{first}-step-exited-with-zero',
             z3.And(z3.Implies(first_ok, z3.BoolVal(len(runs) == 2)), z3.Implies(z3.Not(first_ok), z3.BoolVal(len(runs) == 1))) if 1 <= len(runs) <= 2 else False,
             kind='post', meta={'expr': 'run(configure); run(build) iff the return code of configure is 0'})
    all_zero = z3.And(*[c.t == 0 for c in I.codes]) if I.codes else z3.BoolVal(False)
    ok = isinstance(res, SV) and res.typ == T('Enum', 'TaskStatus')
    p.oblige(f'{L}::post::C19-DONE-exactly-when-both-steps-were-run-and-exited-with-zero',
             (res.t == D.t) == z3.And(all_zero, z3.BoolVal(len(runs) == 2)) if ok else False, kind='post',
             meta={'expr': 'result == DONE  <=>  configure and build both exited with 0'})


def units(tier):
    return ['run', 'sanitize', 'ownership', 'runner', 'cap_paths', 'python_task_do', 'build_sys', 'checkout_vcs', 'native']


def _replay_native(name, inp):
    out = rnat.sweep('quick', 0)
    if out['failures']:
        fl = out['failures'][0]
        return {'reproduced': True, 'observed': fl['observed'], 'input_found': fl['input'], 'by': 'native run-task sweep'}
    return {'reproduced': False, 'note': 'native sweep found no failing input'}


def replay_sanitize(name, inp):
    from valjean.path import sanitize_filename
    n = (inp or {}).get('name')
    if n is None:
        return _replay_native(name, inp)
    invalid = ('\0' in n) or ('/' in n) or n in ('', '.', '..')
    try:
        r = sanitize_filename(n)
        bad = invalid or r != n
        return {'reproduced': bool(bad), 'observed': f'accepted {n!r} -> {r!r}', 'expected': 'ValueError' if invalid else 'the name unchanged'}
    except ValueError:
        return {'reproduced': not invalid, 'observed': f'ValueError for {n!r}', 'expected': 'accepted' if not invalid else 'ValueError'}


def run_unit(unit, tier, seed, known):
    import logging
    logging.disable(logging.CRITICAL)
    if unit == 'native':
        return {'bounded': [rnat.sweep(tier, seed)]}
    if unit == 'ownership':
        recs = []
        for name, hyp, goal, text in ownership_lemmas():
            r = prop.lemma(f'{PATHF}::lemma::{name}', hyp, goal, tier, ID, expr=text)
            if r['status'] == 'refuted':
                r['replay'] = _replay_native(name, None)
            r.pop('model', None)
            recs.append(r)
        return {'lemmas': recs}
    if unit == 'run':
        w = make_world()
        w.class_models['File'] = type('File', (ClassModel,), {'name': 'File', 'fields': {}})(w)
        res = verify_function(w, c_run(), setup=run_setup)
        return {'functions': [prop.discharge(res, tier, ID, lambda m, r: {'note': 'see model text'}, _replay_native)]}
    if unit == 'sanitize':
        w = make_world()
        w.globals['NUL'] = '\x00'
        res = verify_function(w, c_sanitize())

        def conc(model, r):
            from pyvc import solve
            return {'name': solve.py_of(model, r.inputs['scope']['name'])}
        return {'functions': [prop.discharge(res, tier, ID, conc, replay_sanitize)]}
    if unit == 'cap_paths':
        def setup(I, scope):
            I.trace = []
        res = verify_function(cap_world(), c_cap_paths(), setup=setup, extra_check=cap_check)
        return {'functions': [prop.discharge(res, tier, ID, lambda m, r: {'note': 'see model text'}, _replay_native)]}
    if unit == 'python_task_do':
        out = []
        for variant in ('plain', 'env', 'config', 'env+config'):
            res = verify_function(do_world(), c_do(variant), setup=do_setup(variant), extra_check=do_check(variant))
            out.append(prop.discharge(res, tier, ID, lambda m, r: {'note': 'see model text'}, _replay_native))
        return {'functions': out}
    if unit == 'build_sys':
        w = build_world()
        w.class_models['File'] = type('File', (ClassModel,), {'name': 'File', 'fields': {}})(w)
        res = verify_function(w, c_build_sys(), setup=build_setup, extra_check=build_check)
        return {'functions': [prop.discharge(res, tier, ID, lambda m, r: {'note': 'see model text'}, _replay_native)]}
    if unit == 'checkout_vcs':
        w = build_world()
        w.class_models['File'] = type('File', (ClassModel,), {'name': 'File', 'fields': {}})(w)
        res = verify_function(w, c_checkout_vcs(), setup=checkout_setup, extra_check=two_step_check('CheckoutTask.__init__.checkout_vcs', 'clone', 'checkout'))
        return {'functions': [prop.discharge(res, tier, ID, lambda m, r: {'note': 'see model text'}, _replay_native)]}
    if unit == 'runner':
        w = make_runner_world()
        w.globals['NUL'] = '\x00'
        res = verify_function(w, runner_contract(), setup=runner_setup, extra_check=runner_check)
        return {'functions': [prop.discharge(res, tier, ID, lambda m, r: {'note': 'see model text'}, _replay_native)]}
    raise KeyError(unit)


def replay(name, inp):
    if inp and 'name' in inp and 'exit_statuses' not in inp:
        return replay_sanitize(name, inp)
    return _replay_native(name, inp)
