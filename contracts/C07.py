'''C07 -- the chi-square verdict matches the chi-square law on the bins actually used.'''
import ast
import z3

from pyvc import prop, theory as th
from pyvc.values import SV, SObj, SClass, SNamespace, SFunc, T, INT, BOOL, NUM, Undecided, lift, coerce
from pyvc.engine import Contract
from pyvc.verify import verify_function, ClassModel
from pyvc.libspec import SArr
from . import C05
from .dataset_world import DS
from . import stat_native as snat

ID = 'C07'
LEVEL = 'proof'
CF = 'valjean/gavroche/stat_tests/chi2.py'
EXPLANATION = ('Contracts on the real TestChi2._nonzero_bins (with ignore_empty the mask is "some error is positive", otherwise every bin), chi2_test (SUM over the masked bins '
               'of ((v1 - v2)/sqrt(e1^2 + e2^2))^2, equal pointwise to (v1 - v2)^2/(e1^2 + e2^2) for a positive denominator: lemma), pvalue (upper tail of the chi-square law), '
               'TestResultChi2.oracles (p > alpha per dataset) and __bool__ (conjunction); lemmas: under finite non-negative errors the mask leaves out exactly the bins where '
               'both errors are zero, an undefined statistic never passes. Obligations from the AST, z3 over extended reals. np.sum is an uninterpreted function of the '
               'selected multiset: order independence is assumed (and exercised by the bounded sweep).')
ASSUMPTIONS = C05.ASSUMPTIONS[:2] + [
    'numpy.sum: uninterpreted SUM(elements, mask, n) that depends only on the multiset of selected elements (order independence assumed); count_nonzero = number of true entries',
    'scipy.stats.chi2.sf: uninterpreted upper-tail probability with sf(NaN, k) = NaN (instantiated at ground terms)',
    'Dataset.__sub__ through its contract (value v1 - v2, error sqrt(e1^2 + e2^2) for all extended reals: verified here, unit dataset_sub); rank-1 arrays stand for every shape; 1 and 2 compared datasets',
    'A-log: LOGGER calls dropped',
]
TRUSTED = C05.TRUSTED


def _world():
    w = C05._world()
    w.globals['isfinite'] = lambda I, x: SV(BOOL, th.is_fin(coerce(x if isinstance(x, SV) else lift(x), NUM).t))
    f = th.func('chi2_sf', th.Num, th.Num, th.Num)

    def sf(I, x, ndf):
        nd = coerce(ndf if isinstance(ndf, SV) else (lift(ndf) if not isinstance(ndf, SArr) else SV(INT, ndf.elem(z3.IntVal(0)))), NUM)
        if isinstance(x, SArr):
            from pyvc.libnumpy import _to_num
            e = _to_num(x.elem, x.dtype)
            return I.world.lib._like(x, lambda i: f(e(i), nd.t), 'num')
        xv = coerce(x if isinstance(x, SV) else lift(x), NUM)
        return I.world.lib.scalar_arr(I, f(xv.t, nd.t), 'num')
    w.globals['schi2'] = SNamespace('schi2', {'sf': sf})
    w.globals['chi2_sf'] = C05._num_fn(f)
    w.globals['chisum'] = lambda I, diff, mask: _chisum(I, diff, mask)
    return w


def _chisum(I, diff, mask):
    '''the statistic of the statement on the difference dataset (value v1 - v2, error sqrt(e1^2 + e2^2): contract of Dataset.__sub__, C08):
    SUM over the mask of (value/error)^2'''
    L = I.world.lib
    term = L.arr_binop(I, ast.Pow(), L.arr_binop(I, ast.Div(), I.getfield(diff, 'value'), I.getfield(diff, 'error')), 2)
    sel = L.arr_getitem(I, term, mask) if mask is not None else term
    return SV(NUM, L.np_sum(I, sel).elem(z3.IntVal(0)))


def c_chi2_test(masked):
    params = {'ds1': 'Obj:Dataset', 'ds2': 'Obj:Dataset', 'nonzero_bins': (lambda I, base: I.world.lib.fresh_array(I, base, dtype='bool')) if masked else 'None'}
    return Contract(CF, 'TestChi2.chi2_test', params=params,
                    requires=['ds2.value.size == ds1.value.size', 'ds1.error.size == ds1.value.size', 'ds2.error.size == ds1.value.size']
                    + (['nonzero_bins.size == ds1.value.size'] if masked else []),
                    ensures=[('C07-sum-over-the-used-bins-of-the-squared-normalised-differences', 'same(result.item(), chisum(diff, nonzero_bins))'),
                             ('the-difference-dataset-is-ds1-minus-ds2', 'diff.value.size == ds1.value.size and all(same(diff.value[i], ds1.value[i] - ds2.value[i]) and same(diff.error[i], sqrt(sq(ds1.error[i]) + sq(ds2.error[i]))) for i in range(ds1.value.size))')],
                    signals={}, variant='masked' if masked else 'all-bins')


class Chi2Test(ClassModel):
    name = 'TestChi2'
    fields = {}


def _test_world(nd, ignore):
    w = _world()
    w.class_models['TestChi2'] = Chi2Test(w)
    w.class_models['TestResultChi2'] = Chi2Test(w)

    def setup(I, scope):
        ref = w.class_models['Dataset'].fresh(I, 'dsref')
        others = [w.class_models['Dataset'].fresh(I, f'ds{k}') for k in range(nd)]
        for o in others:
            I.path.assume(I.getfield(o, 'error').n == I.getfield(ref, 'error').n)
            I.path.assume(I.getfield(o, 'value').n == I.getfield(ref, 'value').n)
        I.path.assume(I.getfield(ref, 'error').n == I.getfield(ref, 'value').n)
        me = I.alloc('TestChi2', {'dsref': ref, 'datasets': others, 'ignore_empty': ignore})
        scope.set('self', me)
    return w, setup


def c_nonzero(nd, ignore):
    req = []
    if ignore:
        # the statement of C07: exactly the bins where both errors are zero are left out; domain of the option: finite non-negative errors
        per = ' and '.join(f'all(same(result[{k}][i], not (self.dsref.error[i] == 0 and self.datasets[{k}].error[i] == 0)) for i in range(self.dsref.error.size)) and '
                           f'result[{k}].size == self.dsref.error.size' for k in range(nd))
        req = ['all(isfinite(self.dsref.error[i]) and self.dsref.error[i] >= 0 for i in range(self.dsref.error.size))'] + \
              [f'all(isfinite(self.datasets[{k}].error[i]) and self.datasets[{k}].error[i] >= 0 for i in range(self.dsref.error.size))' for k in range(nd)]
    else:
        per = ' and '.join(f'all(result[{k}][i] for i in range(self.dsref.value.size)) and result[{k}].size == self.dsref.value.size' for k in range(nd))
    return Contract(CF, 'TestChi2._nonzero_bins', params={}, requires=req, ensures=[('C07-used-bins', f'len(result) == {nd} and {per}')], signals={},
                    variant=f'{nd}-datasets-' + ('ignore-empty' if ignore else 'all-bins'))


def _result_world(nd):
    w = _world()
    w.class_models['TestResultChi2'] = Chi2Test(w)

    def setup(I, scope):
        L = I.world.lib
        ps = [L.fresh_array(I, f'pvalue{k}', scalar=True) for k in range(nd)]
        test = I.alloc('TestChi2', {'alpha': I.fresh(NUM, 'alpha')})
        scope.set('self', I.alloc('TestResultChi2', {'pvalue': ps, 'test': test}))
    return w, setup


def c_oracles(nd):
    per = ' and '.join(f'same(result[{k}], self.pvalue[{k}].item() > self.test.alpha)' for k in range(nd))
    return Contract(CF, 'TestResultChi2.oracles', params={}, ensures=[('C07-one-decision-per-compared-dataset', f'result.size == {nd} and {per}')], signals={}, variant=f'{nd}-datasets')


def c_bool(nd):
    conj = ' and '.join(f'self.pvalue[{k}].item() > self.test.alpha' for k in range(nd))
    return Contract(CF, 'TestResultChi2.__bool__', params={}, returns='Bool', ensures=[('C07-verdict-iff-every-probability-exceeds-the-level', f'result == ({conj})')],
                    signals={}, variant=f'{nd}-datasets')


def c_pvalue():
    return Contract(CF, 'TestChi2.pvalue', params={'chi2': lambda I, base: I.world.lib.fresh_array(I, base, scalar=True), 'ndf': 'Int'},
                    ensures=[('upper-tail-probability', 'same(result.item(), chi2_sf(chi2.item(), ndf))')], signals={})


def lemmas():
    out = []
    v1, v2, e1, e2, s = z3.Reals('v1 v2 e1 e2 s')
    out.append(('C07-squared-normalised-difference-is-difference-squared-over-summed-variances', [s >= 0, s * s == e1 * e1 + e2 * e2, s > 0],
                ((v1 - v2) / s) * ((v1 - v2) / s) == (v1 - v2) * (v1 - v2) / (e1 * e1 + e2 * e2), '((v1-v2)/sqrt(e1^2+e2^2))^2 == (v1-v2)^2/(e1^2+e2^2)'))
    out.append(('C07-with-finite-non-negative-errors-the-mask-leaves-out-exactly-the-bins-where-both-errors-are-zero', [e1 >= 0, e2 >= 0],
                z3.Or(e1 > 0, e2 > 0) == z3.Not(z3.And(e1 == 0, e2 == 0)), '(e1 > 0 or e2 > 0) <=> not (e1 == 0 and e2 == 0)'))
    sf = z3.Function('chi2_sf_N', th.Num, th.Num, th.Num)
    X, K, A = z3.Const('X', th.Num), z3.Const('K', th.Num), z3.Const('A', th.Num)
    out.append(('C07-an-undefined-statistic-never-passes', [th.is_nan(X), z3.Implies(th.is_nan(X), th.is_nan(sf(X, K)))], z3.Not(th.num_lt(A, sf(X, K))),
                'chi2 NaN => p NaN => not (p > alpha)'))
    return out


# ---- TestChi2.evaluate: chi2_test on every compared dataset with ITS mask, pvalue with ITS ndf, in order (trace contract)
def eval_world(nd):
    from pyvc.verify import World
    w = World()
    w.globals['LOGGER'] = SNamespace('LOGGER', dropped=True)
    for cname in ('TestChi2', 'TestResultChi2', 'DS', 'Arr'):
        w.class_models[cname] = type(cname, (ClassModel,), {'name': cname, 'fields': {}})(w)
    w.globals['TestResultChi2'] = SClass('TestResultChi2')
    w.construct_hooks['TestResultChi2'] = lambda I, args, kwargs: I.alloc('TestResultChi2', dict(zip(('test', 'chi2', 'pvalue'), args)))

    def m_chi2_test(I, me, a, b, mask):
        r = I.alloc('Arr', {'what': 'chi2'})
        I.trace.append(('chi2_test', a, b, mask, r))
        return r

    def m_pvalue(I, me, c, ndf):
        r = I.alloc('Arr', {'what': 'p'})
        I.trace.append(('pvalue', c, ndf, r))
        return r
    w.class_models['TestChi2'].m_chi2_test = m_chi2_test
    w.class_models['TestChi2'].m_pvalue = m_pvalue
    return w


def eval_setup(nd):
    def setup(I, scope):
        I.trace = []
        I.dsref = I.alloc('DS', {})
        I.dss = [I.alloc('DS', {}) for _ in range(nd)]
        I.masks = [I.alloc('Arr', {'what': 'mask'}) for _ in range(nd)]
        I.ndfs = [I.fresh(INT, f'ndf{k}') for k in range(nd)]
        scope.set('self', I.alloc('TestChi2', {'dsref': I.dsref, 'datasets': list(I.dss), 'nonzero_bins': list(I.masks), 'ndf': list(I.ndfs)}))
    return setup


def c_evaluate(nd):
    return Contract(CF, 'TestChi2.evaluate', params={}, signals={}, variant=f'{nd}-datasets')


def eval_check(nd):
    def check(I, scope, outcome):
        L = f'{CF}::TestChi2.evaluate[{nd}-datasets]'
        tr = I.trace
        tests = [e for e in tr if e[0] == 'chi2_test']
        pvals = [e for e in tr if e[0] == 'pvalue']
        ok1 = outcome[0] == 'return' and len(tests) == nd and all({id(e[1]), id(e[2])} == {id(I.dsref), id(I.dss[k])} and e[3] is I.masks[k] for k, e in enumerate(tests))      # either order: chi2 is symmetric
        I.path.oblige(f'{L}::post::C07-every-compared-dataset-is-tested-against-the-reference-with-its-own-mask-in-order', ok1, kind='post',
                      meta={'expr': 'chi2_test(dsref, ds_k, nonzero_bins_k) for k = 0 .. n-1, nothing else'})
        ok2 = ok1 and len(pvals) == nd and all(e[1] is tests[k][4] and e[2] is I.ndfs[k] for k, e in enumerate(pvals))
        I.path.oblige(f'{L}::post::C07-the-p-value-of-each-dataset-comes-from-its-own-statistic-and-degrees-of-freedom', ok2, kind='post',
                      meta={'expr': 'pvalue(chi2_k, ndf_k) for k = 0 .. n-1'})
        res = outcome[1] if outcome[0] == 'return' else None
        ok3 = ok2 and isinstance(res, SObj) and res.cls == 'TestResultChi2' and I.getfield(res, 'test') is scope.lookup('self')
        if ok3:
            cs, ps = I.getfield(res, 'chi2'), I.getfield(res, 'pvalue')
            ok3 = isinstance(cs, list) and isinstance(ps, list) and len(cs) == nd and len(ps) == nd and all(cs[k] is tests[k][4] and ps[k] is pvals[k][3] for k in range(nd))
        I.path.oblige(f'{L}::post::C07-the-result-holds-the-statistics-and-p-values-of-the-datasets-in-order', ok3, kind='post',
                      meta={'expr': 'TestResultChi2(self, [chi2_0 ..], [p_0 ..])'})
    return check


def units(tier):
    return ['dataset_sub', 'evaluate', 'chi2_test', 'nonzero_bins', 'pvalue', 'oracles', 'bool', 'lemmas', 'native']


def _replay_native(name, inp):
    out = snat.chi2_sweep('quick', 0)
    if out['failures']:
        fl = out['failures'][0]
        return {'reproduced': True, 'observed': fl['observed'], 'input_found': fl['input'], 'by': 'native chi2 sweep'}
    return {'reproduced': False, 'note': 'native sweep found no failing input'}


def run_unit(unit, tier, seed, known):
    import logging
    import warnings
    logging.disable(logging.CRITICAL)
    warnings.filterwarnings('ignore')
    if unit == 'dataset_sub':
        from . import C08
        return {'functions': [C08.verify_sub_full(tier, ID, _replay_native)]}
    if unit == 'native':
        return {'bounded': [snat.chi2_sweep(tier, seed)]}
    if unit == 'lemmas':
        recs = []
        for name, hyp, goal, text in lemmas():
            r = prop.lemma(f'{CF}::lemma::{name}', hyp, goal, tier, ID, expr=text)
            r.pop('model', None)
            recs.append(r)
        return {'lemmas': recs}
    D = lambda res: prop.discharge(res, tier, ID, lambda m, r: {'note': 'see model text'}, _replay_native)      # noqa
    if unit == 'evaluate':
        return {'functions': [D(verify_function(eval_world(nd), c_evaluate(nd), setup=eval_setup(nd), extra_check=eval_check(nd))) for nd in (1, 2)]}
    if unit == 'chi2_test':
        return {'functions': [D(verify_function(_world(), c_chi2_test(m))) for m in (True, False)]}
    if unit == 'nonzero_bins':
        out = []
        for nd in (1, 2):
            for ig in (True, False):
                w, setup = _test_world(nd, ig)
                out.append(D(verify_function(w, c_nonzero(nd, ig), setup=setup)))
        return {'functions': out}
    if unit == 'pvalue':
        return {'functions': [D(verify_function(_world(), c_pvalue()))]}
    out = []
    for nd in (1, 2):
        w, setup = _result_world(nd)
        if unit == 'bool':
            w.add(c_oracles(nd))
            w.contracts['TestResultChi2.oracles'].returns = lambda I, base: I.world.lib.fresh_array(I, base, dtype='bool')
        out.append(D(verify_function(w, (c_oracles if unit == 'oracles' else c_bool)(nd), setup=setup)))
    return {'functions': out}


def replay(name, inp):
    return _replay_native(name or '', inp)
