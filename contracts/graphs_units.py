'''Contract on valjean/cambronne/common.py::build_graphs, used by C04 and C14: both graphs hold EVERY collected task as a node (RunCommand.execute reads the
persisted environments of hard_graph.nodes()), the hard graph holds exactly the hard dependencies as edges and the soft graph exactly the soft ones.'''
import z3

from pyvc import prop, theory as th
from pyvc.values import SV, SObj, SClass, SNamespace, T, BOOL, STR, Undecided, zsort
from pyvc.engine import Contract, LoopSpec
from pyvc.verify import World, ClassModel, verify_function

COMMONF = 'valjean/cambronne/common.py'
TASK = T('Ref', 'Task')
EDGE = T('Ref', 'Edge')
NODES = 'Set[Ref:Task]'
EDGES = 'Set[Ref:Edge]'


class Graph(ClassModel):
    '''DepGraph as its abstract value: a set of nodes and a set of edges "x depends on y" (its operations are under contract in C16: add_node adds the
    node, add_dependency adds both ends and the edge)'''
    name = 'DepGraph'
    fields = {'nodes': NODES, 'edges': EDGES}

    def m_add_node(self, I, g, node):
        ns = I.getfield(g, 'nodes')
        I.setfield(g, 'nodes', SV(ns.typ, z3.Store(ns.t, node.t, True)))
        return g

    def m_add_dependency(self, I, g, node, *, on):
        ns = I.getfield(g, 'nodes')
        I.setfield(g, 'nodes', SV(ns.typ, z3.Store(z3.Store(ns.t, node.t, True), on.t, True)))
        es = I.getfield(g, 'edges')
        I.setfield(g, 'edges', SV(es.typ, z3.Store(es.t, I.world.mk_edge(node.t, on.t), True)))
        return g


def make_world():
    w = World()
    w.globals['LOGGER'] = SNamespace('LOGGER', dropped=True)
    w.class_models['DepGraph'] = Graph(w)
    w.class_models['Args'] = type('Args', (ClassModel,), {'name': 'Args', 'fields': {}})(w)
    w.globals['DepGraph'] = SClass('DepGraph')

    def new_graph(I, args, kwargs):
        if args or kwargs:
            raise Undecided('DepGraph built from arguments')
        return I.alloc('DepGraph', {'nodes': SV(T('Set', TASK), z3.K(zsort(TASK), z3.BoolVal(False))), 'edges': SV(T('Set', EDGE), z3.K(zsort(EDGE), z3.BoolVal(False)))})
    w.construct_hooks['DepGraph'] = new_graph
    w.ref_attrs['Task'] = {'depends_on': NODES, 'soft_depends_on': NODES}
    # an edge is a pair of tasks: mk_edge is injective (src / dst are its projections)
    mk = th.func('mk_edge', zsort(TASK), zsort(TASK), zsort(EDGE))
    src = th.func('edge_src', zsort(EDGE), zsort(TASK))
    dst = th.func('edge_dst', zsort(EDGE), zsort(TASK))
    w.mk_edge, w.edge_src, w.edge_dst = mk, src, dst
    w.globals['edge'] = lambda I, a, b: SV(EDGE, mk(a.t, b.t))
    w.globals['src'] = lambda I, e: SV(TASK, src(e.t))
    w.globals['dst'] = lambda I, e: SV(TASK, dst(e.t))
    w.globals['Tasks'] = SV(T('Set', TASK), z3.K(zsort(TASK), z3.BoolVal(True)))
    w.globals['Edges'] = SV(T('Set', EDGE), z3.K(zsort(EDGE), z3.BoolVal(True)))

    def collect_tasks(I, job_file, job_args, job_kwargs):
        I.trace.append(('collect_tasks', job_file, job_args, job_kwargs))
        return I.collected
    w.globals['collect_tasks'] = collect_tasks
    return w


def setup(I, scope):
    I.trace = []
    I.collected = I.fresh(T('Seq', TASK), 'collected')
    I.jf, I.ja, I.jk = I.fresh(STR, 'job_file'), I.fresh(STR, 'job_args'), I.fresh(STR, 'job_kwargs')
    scope.set('args', I.alloc('Args', {'job_file': I.jf, 'job_args': I.ja, 'job_kwargs': I.jk}))
    scope.set('collected', I.collected)
    a, b = z3.Const('a!e', zsort(TASK)), z3.Const('b!e', zsort(TASK))
    w = I.world
    I.path.assume(z3.ForAll([a, b], z3.And(w.edge_src(w.mk_edge(a, b)) == a, w.edge_dst(w.mk_edge(a, b)) == b)))
    e = z3.Const('e!e', zsort(EDGE))
    I.path.assume(z3.ForAll([e], w.mk_edge(w.edge_src(e), w.edge_dst(e)) == e))


def _clauses(k, H='hard_graph', S='soft_graph', seq='tasks'):
    return {
        'every-collected-task-is-a-node-of-both-graphs': f'all({seq}[j] in {H}.nodes and {seq}[j] in {S}.nodes for j in range({k}))',
        'every-hard-dependency-is-an-edge-of-the-hard-graph': f'all(implies(d in {seq}[j].depends_on, edge({seq}[j], d) in {H}.edges) for j in range({k}) for d in Tasks)',
        'every-soft-dependency-is-an-edge-of-the-soft-graph': f'all(implies(d in {seq}[j].soft_depends_on, edge({seq}[j], d) in {S}.edges) for j in range({k}) for d in Tasks)',
        'the-hard-graph-has-no-other-edge': f'all(implies(e in {H}.edges, dst(e) in src(e).depends_on) for e in Edges)',
        'the-soft-graph-has-no-other-edge': f'all(implies(e in {S}.edges, dst(e) in src(e).soft_depends_on) for e in Edges)',
    }


def c_build_graphs():
    inv = list(_clauses('k_out').values())
    here = 'task in hard_graph.nodes and task in soft_graph.nodes'
    hard_now = 'all(implies(d in done, edge(task, d) in hard_graph.edges) for d in Tasks)'
    soft_now = 'all(implies(d in done, edge(task, d) in soft_graph.edges) for d in Tasks)'
    # each inner loop writes one graph only: what the other loop established about the other graph is kept by the frame (it is not restated, so that
    # the two loops may stand in either order)
    fields = {'hard_graph.nodes': NODES, 'hard_graph.edges': EDGES, 'soft_graph.nodes': NODES, 'soft_graph.edges': EDGES}
    post = _clauses('len(collected)', H='result[0]', S='result[1]', seq='collected')
    return Contract(COMMONF, 'build_graphs', params={}, signals={},
                    ensures=[('C04-C14-' + name, text) for name, text in post.items()] + [('two-distinct-graphs', 'result[0] is not result[1]')],
                    loops={0: LoopSpec('for task in tasks', inv, vars=fields, ghost='k_out'),
                           1: LoopSpec('for dep in task.depends_on', inv + [here, hard_now], vars={'hard_graph.nodes': NODES, 'hard_graph.edges': EDGES}),
                           2: LoopSpec('for dep in task.soft_depends_on', inv + [here, soft_now], vars={'soft_graph.nodes': NODES, 'soft_graph.edges': EDGES})})


def check(I, scope, outcome):
    p = I.path
    L = f'{COMMONF}::build_graphs'
    if outcome[0] != 'return':
        return
    calls = [e for e in I.trace if e[0] == 'collect_tasks']
    ok = len(calls) == 1 and calls[0][1] is I.jf and calls[0][2] is I.ja and calls[0][3] is I.jk
    p.oblige(f'{L}::post::the-tasks-are-collected-once-from-the-job-of-the-command-line', ok, kind='post',
             meta={'expr': 'collect_tasks(args.job_file, args.job_args, args.job_kwargs) exactly once'})


def unit_build_graphs(tier, pid, replay):
    res = verify_function(make_world(), c_build_graphs(), setup=setup, extra_check=check)
    return {'functions': [prop.discharge(res, tier, pid, lambda m, r: {'note': 'see model text'}, replay)]}
