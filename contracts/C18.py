'''C18 -- diagnostic statistics count every task and every test result exactly once.

Deductive part (valjean/gavroche/diagnostics/stats.py): TestStatsTasks.evaluate and TestStatsTests.evaluate (loop
invariants over the classification dictionary, a defaultdict(list)), the three verdicts (__bool__), oracles and
nb_missing_labels of the by-labels result, classification_counts (pure).  The recursive partition by labels
(_rloop_over_labels / Index.keep_only) is decided by the exhaustive native sweep only (labelled bounded).'''
import ast
import z3

from pyvc import prop, theory as th, extract
from pyvc.values import SV, SObj, SClass, SNamespace, SFunc, T, INT, BOOL, STR, Undecided, lift, coerce, zsort, seq_len, seq_arr, map_dom, map_val, parse_type
from pyvc.engine import Contract, LoopSpec
from pyvc.verify import World, ClassModel, verify_function
from . import stats_native as sn

ID = 'C18'
LEVEL = 'proof'
SF = 'valjean/gavroche/diagnostics/stats.py'
TASKF = 'valjean/cosette/task.py'
NF = T('Ref', 'NF')
NAME = T('Ref', 'Name')
TR = T('Ref', 'TR')

EXPLANATION = ('Contracts on the real TestStatsTasks.evaluate / TestStatsTests.evaluate: after the loops every observed task (test result) is listed under '
               'its status (verdict), every listed entry is an observed one with that status, the list lengths add up to the number observed and no status '
               'has an empty list; the verdicts of the three summaries are true exactly when nothing observed failed (empty summaries included); '
               'oracles / nb_missing_labels follow their definitions; classification_counts does not write its argument. Obligations generated from the '
               'AST (defaultdict semantics modelled: d[k] on a missing key inserts) and discharged by z3. The recursive by-labels partition is '
               'bounded-exhaustive (labelled).')
ASSUMPTIONS = [
    'task names are distinct (A-unique-names); NameFingerprint(name[, fingerprint]) is an injective constructor (abstract function mk_nf)',
    'a TestResult is abstracted to a reference with a boolean verdict (uninterpreted function `verdict`), its test name and fingerprint; '
    'the results handed to TestStatsTests are TestResult instances (the NOT_A_TEST branch is outside the property)',
    'entries of task results are maps whose values are abstracted by parametricity (only the keys status / result are inspected)',
    '_build_labels_lod, _build_index, _rloop_over_labels, _stats_for_labels, Index.keep_only: NOT under a discharged contract (recursion through Index, '
    'loop-variable aliasing) -- exhaustive native sweep only',
    'A-log: LOGGER calls dropped',
]
TRUSTED = ['z3 unsat answers (cvc5 cross-check in the thorough tier)', 'CPython ast module', 'pyvc engine (symbolic executor, libspec encodings)']

TASKS_DICT = 'DMap[Enum:TaskStatus,Seq[Ref:NF]]'
TESTS_DICT = 'DMap[Enum:TestOutcome,Seq[Ref:NF]]'


class StatsTest(ClassModel):
    name = 'TestStatsTasks'
    fields = {'task_results': 'Seq[Tuple[Ref:Name,Map[Str,Enum:TaskStatus]]]'}


class StatsTests(ClassModel):
    name = 'TestStatsTests'
    fields = {'task_results': 'Seq[Tuple[Ref:Name,Map[Str,Seq[Ref:TR]]]]'}


class ResTasks(ClassModel):
    name = 'TestResultStatsTasks'
    fields = {'classify': TASKS_DICT}


class ResTests(ClassModel):
    name = 'TestResultStatsTests'
    fields = {'classify': TESTS_DICT}


class ResByLabels(ClassModel):
    name = 'TestResultStatsTestsByLabels'
    fields = {'classify': 'Seq[Map[Str,Int]]', 'n_labels': 'Int'}


def make_world(dict_type):
    w = World()
    w.enum('TaskStatus', TASKF)
    w.enum('TestOutcome', SF)
    w.globals['LOGGER'] = SNamespace('LOGGER', dropped=True)
    for m in (StatsTest, StatsTests, ResTasks, ResTests, ResByLabels):
        w.class_models[m.name] = m(w)
        w.globals[m.name] = SClass(m.name)
    mk1 = th.func('mk_nf1', zsort(NAME), zsort(NF))
    mk2 = th.func('mk_nf2', zsort(NAME), zsort(T('Ref', 'FP')), zsort(NF))
    w.globals['nf'] = lambda I, n: SV(NF, mk1(n.t))
    w.globals['nf2'] = lambda I, n, fp: SV(NF, mk2(n.t, fp.t))

    def new_nf(I, args, kwargs):
        if len(args) == 1:
            return SV(NF, mk1(args[0].t))
        return SV(NF, mk2(args[0].t, args[1].t))
    w.construct_hooks['NameFingerprint'] = new_nf
    w.globals['NameFingerprint'] = SClass('NameFingerprint')
    w.globals['defaultdict'] = SClass('defaultdict')
    w.construct_hooks['defaultdict'] = lambda I, args, kwargs: I.world.lib.empty_of(I, parse_type(dict_type))
    w.globals['TestResult'] = SClass('TestResult')
    w.globals['empty_of'] = lambda I, t: I.world.lib.empty_of(I, parse_type(t))
    # a test result: verdict, test (with name), fingerprint of the test
    verdict = th.func('verdict', zsort(TR), z3.BoolSort())
    w.ref_truth = {'TR': lambda t: verdict(t)}
    w.globals['verdict'] = lambda I, r: SV(BOOL, verdict(r.t))
    w.ref_attrs['TR'] = {'test': 'Ref:Test'}
    w.ref_attrs['Test'] = {'name': 'Ref:Name'}
    fpf = th.func('fingerprint_of', zsort(T('Ref', 'Test')), zsort(T('Ref', 'FP')))
    w.globals['fingerprint'] = lambda I, t: SV(T('Ref', 'FP'), fpf(t.t))

    def isinstance_hook(I, x, cls):
        if isinstance(x, SV) and x.typ == TR:
            return True
        return NotImplemented
    w.isinstance_hook = isinstance_hook

    def construct_result(clsname):
        def f(I, args, kwargs):
            return I.alloc(clsname, {'test': kwargs.get('test'), 'classify': kwargs.get('classify')})
        return f
    for c in ('TestResultStatsTasks', 'TestResultStatsTests'):
        w.construct_hooks[c] = construct_result(c)
    return w


def _count_sum(enum, members, d):
    return ' + '.join(f'len({d}[{enum}.{m}])' for m in members)


def c_tasks_evaluate():
    members = extract.enum_members(TASKF, 'TaskStatus')
    tr = 'self.task_results'
    st = lambda i: f'{tr}[{i}][1]["status"]'      # noqa
    listed = 'all(any({C}[{st_i}][j] is nf({tr}[i][0]) for j in range(len({C}[{st_i}]))) for i in range({n}))'
    only = 'all(all(any({st_i} == s and nf({tr}[i][0]) is {C}[s][j] for i in range({n})) for j in range(len({C}[s]))) for s in {C})'
    total = '{sum} == {n}'
    nonempty = 'all(len({C}[s]) > 0 for s in {C})'

    def clauses(C, n):
        f = dict(C=C, tr=tr, n=n, sum=_count_sum('TaskStatus', members, C), st_i=st('i'))
        return [listed.format(**f), only.format(**f), total.format(**f), nonempty.format(**f)]
    post = clauses('result.classify', f'len({tr})')
    # ghost witnesses: slots[i] = position of task i in its list; owners[s][j] = index of the task stored at classify[s][j]
    inv = ['len(slots) == done',
           f'all(0 <= slots[i] and slots[i] < len(status_dict[{st("i")}]) and status_dict[{st("i")}][slots[i]] is nf({tr}[i][0]) for i in range(done))',
           'all(len(owners[s]) == len(status_dict[s]) for s in Statuses)',
           f'all(all(0 <= owners[s][j] and owners[s][j] < done and {st("owners[s][j]")} == s and status_dict[s][j] is nf({tr}[owners[s][j]][0]) '
           'for j in range(len(status_dict[s]))) for s in Statuses)',
           total.format(sum=_count_sum('TaskStatus', members, 'status_dict'), n='done'),
           nonempty.format(C='status_dict'),
           f'same({tr}, old({tr}))']
    return Contract(
        SF, 'TestStatsTasks.evaluate', params={'self': 'Obj:TestStatsTasks'},
        requires=[f'all("status" in {tr}[i][1] for i in range(len({tr})))'],
        # the existential clauses of the property ("is listed under", "is an observed task") are stated with their ghost witnesses
        # (slots / owners), which is stronger: exists-introduction gives the property's wording
        ensures=[('every-task-listed-under-its-status', inv[1].replace('status_dict', 'result.classify').replace('range(done)', f'range(len({tr}))')),
                 ('every-listed-entry-is-a-task-with-that-status', inv[3].replace('status_dict', 'result.classify').replace('< done', f'< len({tr})')),
                 ('list-lengths-add-up-to-the-number-of-tasks', post[2]), ('no-status-without-task', post[3]),
                 ('input-untouched', f'same({tr}, old({tr}))')],
        signals={},
        loops={0: LoopSpec('for (task_name, task_result) in self.task_results', inv,
                           vars={'status_dict': TASKS_DICT, 'slots': 'Seq[Int]', 'owners': 'DMap[Enum:TaskStatus,Seq[Int]]'},
                           ghost_names={'slots', 'owners'},
                           ghost_init=['slots = empty_of("Seq[Int]")', 'owners = empty_of("DMap[Enum:TaskStatus,Seq[Int]]")'],
                           ghost_step=["slots.append(len(status_dict[task_result['status']]) - 1)", "owners[task_result['status']].append(done)"])})


VERDICT_TASKS = 'result == all(implies(len(self.classify[s]) > 0, s == TaskStatus.DONE) for s in self.classify)'
VERDICT_TESTS = 'result == all(implies(len(self.classify[s]) > 0, s == TestOutcome.SUCCESS) for s in self.classify)'


def c_bool(cls, expr, enumname):
    return Contract(SF, f'{cls}.__bool__', params={'self': f'Obj:{cls}'}, returns='Bool',
                    ensures=[('success-iff-everything-observed-succeeded', expr), ('pure', 'same(self.classify, old(self.classify))')], signals={})


def c_bylabels(method):
    if method == 'oracles':
        ens = [('one-oracle-per-combination', 'len(result) == len(self.classify) and all(result[k] == (self.classify[k]["OK"] == self.classify[k]["total"]) for k in range(len(result)))')]
        ret = 'Seq[Bool]'
    elif method == '__bool__':
        ens = [('success-iff-every-combination-succeeded', 'result == all(self.classify[k]["OK"] == self.classify[k]["total"] for k in range(len(self.classify)))')]
        ret = 'Bool'
    else:
        ens = []
        ret = None
    ens.append(('pure', 'same(self.classify, old(self.classify))'))
    return Contract(SF, f'TestResultStatsTestsByLabels.{method}', params={'self': 'Obj:TestResultStatsTestsByLabels'}, returns=ret,
                    requires=['all("OK" in self.classify[k] and "total" in self.classify[k] and "KO" in self.classify[k] for k in range(len(self.classify)))'],
                    ensures=ens, signals={})


def c_counts():
    return Contract(SF, 'classification_counts', params={'classify': TASKS_DICT, 'status_first': 'Enum:TaskStatus'},
                    ensures=[('C13-the-classification-is-not-written', 'same(classify, old(classify))')], signals={}, variant='frame')


# ---- TestStatsTestsByLabels._build_labels_lod: one iteration of the inner loop (one test result)
VAL = T('Ref', 'Val')
LABELS = 'Map[Str,Ref:Val]'


def lod_world():
    from pyvc.verify import World
    w = World()
    w.globals['LOGGER'] = SNamespace('LOGGER', dropped=True)
    ok, ko = z3.Const('TestOutcome_SUCCESS_as_label', zsort(VAL)), z3.Const('TestOutcome_FAILURE_as_label', zsort(VAL))
    w.globals['TestOutcome'] = SNamespace('TestOutcome', {'SUCCESS': SV(VAL, ok), 'FAILURE': SV(VAL, ko)})
    w.globals['Strings'] = SV(T('Set', T('Str')), z3.K(z3.StringSort(), z3.BoolVal(True)))
    w.lod_distinct = ok != ko

    class TRes(ClassModel):
        name = 'TestResultX'
        fields = {}

        def m___bool__(self, I, me):
            return I.getfield(me, 'verdict')
    w.class_models['TestResultX'] = TRes(w)
    w.class_models['TestX'] = type('TestX', (ClassModel,), {'name': 'TestX', 'fields': {}})(w)
    return w


def lod_body(fn):
    import ast as _ast
    outer = [st for st in fn.body if isinstance(st, _ast.For)]
    if len(outer) != 1:
        raise Undecided('_build_labels_lod is no longer one loop over the task results')
    inner = [st for st in outer[0].body if isinstance(st, _ast.For)]
    if len(inner) != 1 or not (isinstance(inner[0].target, _ast.Name) and inner[0].target.id == 'test_result'):
        raise Undecided('_build_labels_lod no longer has an inner loop `for test_result in ...`')
    return inner[0].body


def lod_setup(I, scope):
    from pyvc.values import parse_type
    I.path.assume(I.world.lod_distinct)
    labels = I.fresh(parse_type(LABELS), 'labels')
    test = I.alloc('TestX', {'labels': labels, 'name': I.fresh(VAL, 'test_name')})
    tr = I.alloc('TestResultX', {'test': test, 'verdict': I.fresh(BOOL, 'verdict')})
    scope.set('test_result', tr)
    scope.set('labels_lod', [])
    scope.set('the_labels', labels)
    I.lod_tr = tr


def c_lod():
    others = ('all(implies(k != "_test_name" and k != "_result", (k in labels_lod[0]) == (k in the_labels) and implies(k in the_labels, same(labels_lod[0][k], the_labels[k]))) '
              'for k in Strings)')
    return Contract(SF, 'TestStatsTestsByLabels._build_labels_lod', params={}, signals={}, variant='one-test-result',
                    ensures=[('C18-one-entry-per-test-result', 'len(labels_lod) == 1'),
                             ('C18-the-reserved-label-_test_name-is-the-name-of-the-test-whatever-the-user-labels', 'same(labels_lod[0]["_test_name"], test_result.test.name)'),
                             ('C18-the-reserved-label-_result-is-the-outcome-of-the-test-whatever-the-user-labels',
                              'same(labels_lod[0]["_result"], TestOutcome.SUCCESS) == test_result.verdict and same(labels_lod[0]["_result"], TestOutcome.FAILURE) == (not test_result.verdict)'),
                             ('C18-every-other-label-is-the-label-of-the-test', others),
                             ('C18-the-labels-of-the-test-are-not-modified', 'same(test_result.test.labels, the_labels)')])


# ---- TestStatsTests.evaluate: one iteration of the inner loop (one evaluated test result)
def tests_inner_body(fn):
    import ast as _ast
    outer = [st for st in fn.body if isinstance(st, _ast.For)]
    if len(outer) != 1:
        raise Undecided('TestStatsTests.evaluate is no longer one loop over the task results')
    inner = [st for st in outer[0].body if isinstance(st, _ast.For)]
    if len(inner) != 1 or not (isinstance(inner[0].target, _ast.Name) and inner[0].target.id == 'test_result'):
        raise Undecided('TestStatsTests.evaluate no longer has an inner loop `for test_result in ...`')
    return inner[0].body


def c_tests_inner():
    S, F = 'TestOutcome.SUCCESS', 'TestOutcome.FAILURE'
    entry = 'nf2(test_result.test.name, fingerprint(test_result.test))'

    def grows(st, cond):
        return (f'len(status_dict[{st}]) == len(old(status_dict)[{st}]) + (1 if {cond} else 0) and '
                f'all(status_dict[{st}][j] is old(status_dict)[{st}][j] for j in range(len(old(status_dict)[{st}]))) and '
                f'implies({cond}, status_dict[{st}][len(old(status_dict)[{st}])] is {entry})')
    return Contract(SF, 'TestStatsTests.evaluate', params={'test_result': 'Ref:TR', 'task_name': 'Ref:Name', 'status_dict': TESTS_DICT}, signals={}, variant='one-test-result',
                    ensures=[('C18-a-passing-result-is-listed-once-as-success', grows(S, 'verdict(test_result)')),
                             ('C18-a-failing-result-is-listed-once-as-failure', grows(F, 'not verdict(test_result)')),
                             ('C18-nothing-else-is-listed', 'same(status_dict[TestOutcome.MISSING], old(status_dict)[TestOutcome.MISSING]) and '
                              'same(status_dict[TestOutcome.NOT_A_TEST], old(status_dict)[TestOutcome.NOT_A_TEST])')])


def units(tier):
    return ['tasks_evaluate', 'tests_evaluate_inner', 'bool_tasks', 'bool_tests', 'bylabels_oracles', 'bylabels_bool', 'labels_lod', 'counts_frame', 'native']


def _replay_native(name, inp):
    out = sn.sweep('quick', 0)
    if out['failures']:
        fl = out['failures'][0]
        return {'reproduced': True, 'observed': fl['observed'], 'input_found': fl['input'], 'by': 'native sweep'}
    if 'C13' in name or 'counts' in name:
        from . import C13
        return C13.replay(name, None)
    return {'reproduced': False, 'note': 'native sweep found no failing input'}


def run_unit(unit, tier, seed, known):
    import logging
    import warnings
    logging.disable(logging.CRITICAL)
    warnings.filterwarnings('ignore')
    if unit == 'native':
        return {'bounded': [sn.sweep(tier, seed)]}
    if unit == 'tasks_evaluate':
        w = make_world(TASKS_DICT)
        w.globals['Statuses'] = SV(T('Set', T('Enum', 'TaskStatus')), z3.K(zsort(T('Enum', 'TaskStatus')), z3.BoolVal(True)))
        res = verify_function(w, c_tasks_evaluate())
    elif unit == 'bool_tasks':
        w = make_world(TASKS_DICT)
        res = verify_function(w, c_bool('TestResultStatsTasks', VERDICT_TASKS, 'TaskStatus'))
    elif unit == 'bool_tests':
        w = make_world(TESTS_DICT)
        res = verify_function(w, c_bool('TestResultStatsTests', VERDICT_TESTS, 'TestOutcome'))
    elif unit == 'bylabels_oracles':
        w = make_world(TESTS_DICT)
        res = verify_function(w, c_bylabels('oracles'))
    elif unit == 'bylabels_bool':
        w = make_world(TESTS_DICT)
        w.add(c_bylabels('oracles'))
        res = verify_function(w, c_bylabels('__bool__'))
    elif unit == 'tests_evaluate_inner':
        res = verify_function(make_world(TESTS_DICT), c_tests_inner(), body_of=tests_inner_body)
    elif unit == 'labels_lod':
        res = verify_function(lod_world(), c_lod(), setup=lod_setup, body_of=lod_body)
    elif unit == 'counts_frame':
        w = make_world(TASKS_DICT)
        res = verify_function(w, c_counts())
    else:
        raise KeyError(unit)
    return {'functions': [prop.discharge(res, tier, ID, lambda m, r: {'note': 'see model text'}, _replay_native)]}


def replay(name, inp):
    return _replay_native(name or '', inp)
