'''C02 -- scheduler property; units shared with the other scheduler properties (contracts/sched_units.py).'''
from . import sched_units as su
from . import sched_props as sp

ID = 'C02'
LEVEL = 'proof'
EXPLANATION = ("Outcome depends on graph and results only: exact skip/release rules as postconditions of decide_new_state* (skip iff a hard dependency FAILED/SKIPPED, release iff all dependencies final), worker iteration contract (raise / None / not a pair / bad status / non-mapping update / non-final status => FAILED, well-formed result keeps its status, do() once per dequeue, nothing escapes), at-most-once hand-over from the Owicki-Gries invariant, and the schedule-independence lemma (two solutions of the local rules on a ranked graph cannot first disagree anywhere). Safety reading: whenever execute_tasks returns; termination is C03's undecided part.")
ASSUMPTIONS = su.ASSUMPTIONS
TRUSTED = su.TRUSTED
UNITS = 'decide decide_waiting last_end_time enqueue worker master schedule scheduler_init backend_init og independence env_locks merge_done dg_add_node dg_add_dependency dg_remove_node dg_flatten dg_histories env_conformance native_sweep'.split()


def units(tier):
    return list(UNITS)


def run_unit(unit, tier, seed, known):
    return sp.run_unit(ID, unit, tier, seed, known)


def replay(name, inp):
    return sp.replay(name, inp)
