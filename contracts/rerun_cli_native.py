'''Native bounded stand-in for the command-level half of C04 (labelled bounded): `valjean run` (RunCommand.execute: build_graphs, read_env, schedule,
write_env) executed two or three times on the same output directory for small jobs mixing hard edges, soft edges and tasks without any edge.
Oracle from the statement of C04: a run re-executes exactly the tasks whose persisted environment was lost since the previous run and everything that
depends on them (hard or soft, transitively); every other task is not executed and its recorded entry (results and clocks) is left untouched.'''
import os
import shutil
import tempfile

JOB_SRC = """
from pathlib import Path
from valjean.cosette.pythontask import PythonTask
from valjean.cosette.task import TaskStatus

ROOT = Path({root!r})
SHAPE = {shape!r}


def mk(name, deps, soft):
    def fn(*, env, config):
        out = Path(config.query('path', 'output-root'), name)
        out.mkdir(parents=True, exist_ok=True)
        counter = ROOT / (name + '.count')
        k = int(counter.read_text()) + 1 if counter.exists() else 1
        counter.write_text(str(k))
        if (ROOT / (name + '.fail')).exists():
            return {{name: {{'output_dir': str(out), 'result': 'failed run %d' % k}}}}, TaskStatus.FAILED
        return {{name: {{'output_dir': str(out), 'result': 'run %d' % k}}}}, TaskStatus.DONE
    return PythonTask(name, fn, env_kwarg='env', config_kwarg='config', deps=deps, soft_deps=soft)


def job():
    made = {{}}
    for name, hard, soft in SHAPE:
        made[name] = mk(name, [made[h] for h in hard], [made[s] for s in soft])
    return [made[name] for name in {returned!r}]
"""

# (name, hard dependencies, soft dependencies) in an order where dependencies come first; the tasks job() returns
SHAPES = {
    'one task without any edge': ([('iso', (), ())], ['iso']),
    'hard chain plus a task without any edge': ([('a', (), ()), ('b', ('a',), ()), ('c', ('b',), ()), ('iso', (), ())], ['c', 'iso']),
    'soft edges only': ([('a', (), ()), ('b', (), ('a',)), ('c', (), ('a', 'b'))], ['c']),
    'hard and soft edges, a soft-only dependent, an isolated task': ([('fetch', (), ()), ('build', ('fetch',), ()), ('summary', (), ('build',)), ('notes', (), ())],
                                                                     ['summary', 'notes']),
    'diamond with one soft side': ([('a', (), ()), ('l', ('a',), ()), ('r', (), ('a',)), ('z', ('l',), ('r',))], ['z']),
}


def _dependents(shape, lost):
    out = set(lost)
    changed = True
    while changed:
        changed = False
        for name, hard, soft in shape:
            if name not in out and (set(hard) | set(soft)) & out:
                out.add(name)
                changed = True
    return out


def _counts(tmp, names):
    out = {}
    for nm in names:
        p = os.path.join(tmp, nm + '.count')
        out[nm] = int(open(p).read()) if os.path.exists(p) else 0
    return out


def run_history(label, lost_seq, workers, fname='valjean.env'):
    '''lost_seq: for each run after the first one, the tasks whose persisted environment file is removed before that run'''
    import argparse
    from valjean.config import Config
    from valjean.cambronne.commands.run import RunCommand
    from valjean.cosette.task import TaskStatus
    shape, returned = SHAPES[label]
    names = [s[0] for s in shape]
    tmp = tempfile.mkdtemp(prefix='c04cli_', dir='/var/tmp')
    probs = []
    try:
        root = os.path.join(tmp, 'output')
        # run_job imports the job file as a module named after the file: one name per history, or a later history would get the cached module of an earlier one
        job_file = os.path.join(tmp, 'job_c04_' + os.path.basename(tmp).replace('-', '_') + '.py')
        with open(job_file, 'w') as f:
            f.write(JOB_SRC.format(root=tmp, shape=shape, returned=returned))
        config = Config({'path': {'log-root': os.path.join(tmp, 'log'), 'output-root': root, 'report-root': os.path.join(tmp, 'report')}})
        args = argparse.Namespace(job_file=job_file, job_args=[], job_kwargs={}, workers=workers, env_filename=fname, env_format='pickle')
        env = RunCommand().execute(args, config)
        first = _counts(tmp, names)
        if any(v != 1 for v in first.values()) or any(env[nm]['status'] != TaskStatus.DONE for nm in names):
            return [f'first run: executions {first}, statuses { {nm: env[nm]["status"].name for nm in names} }']
        prev_env = {nm: dict(env[nm]) for nm in names}
        prev_counts = first
        for k, lost in enumerate(lost_seq):
            for nm in lost:
                if nm.startswith('!'):
                    shutil.rmtree(os.path.join(root, nm[1:]))          # the whole output directory of the task is wiped, not only its environment file
                else:
                    os.remove(os.path.join(root, nm, fname))
            lost = tuple(nm.lstrip('!') for nm in lost)
            env = RunCommand().execute(args, config)
            counts = _counts(tmp, names)
            ran = {nm for nm in names if counts[nm] != prev_counts[nm]}
            want = _dependents(shape, lost)
            if ran != want:
                probs.append(f'run {k + 2} (persisted environment lost for {sorted(lost)}): executed {sorted(ran)}, expected exactly {sorted(want)}')
            twice = [nm for nm in names if counts[nm] - prev_counts[nm] > 1]
            if twice:
                probs.append(f'run {k + 2}: {twice} executed more than once')
            for nm in names:
                if env[nm]['status'] != TaskStatus.DONE:
                    probs.append(f'run {k + 2}: {nm} ended {env[nm]["status"].name}')
                elif nm not in want and nm not in ran and dict(env[nm]) != prev_env[nm]:
                    probs.append(f'run {k + 2}: the recorded entry of {nm} (not re-executed) changed: {prev_env[nm]} -> {dict(env[nm])}')
            for nm, hard, soft in shape:
                for d in tuple(hard) + tuple(soft):
                    if env[nm]['status'] == TaskStatus.DONE and env[d]['status'] == TaskStatus.DONE and not env[d]['end_clock'] <= env[nm]['start_clock']:
                        probs.append(f'run {k + 2}: {nm} is DONE although its dependency {d} finished after it started')
            prev_env = {nm: dict(env[nm]) for nm in names}
            prev_counts = counts
            if probs:
                break
    except Exception as e:      # noqa
        probs.append(f'raised {e!r}')
    finally:
        shutil.rmtree(tmp, ignore_errors=True)
    return probs


def run_failing(label, failing, workers, fname='valjean.env'):
    """one `valjean run` in which one task fails: the tasks behind a HARD edge are skipped, those behind a soft edge run (the two graphs keep their roles)"""
    import argparse
    from valjean.config import Config
    from valjean.cambronne.commands.run import RunCommand
    shape, returned = SHAPES[label]
    names = [s[0] for s in shape]
    tmp = tempfile.mkdtemp(prefix='c04cli_', dir='/var/tmp')
    probs = []
    try:
        root = os.path.join(tmp, 'output')
        job_file = os.path.join(tmp, 'job_c04_' + os.path.basename(tmp).replace('-', '_') + '.py')
        with open(job_file, 'w') as f:
            f.write(JOB_SRC.format(root=tmp, shape=shape, returned=returned))
        open(os.path.join(tmp, failing + '.fail'), 'w').write('x')
        config = Config({'path': {'log-root': os.path.join(tmp, 'log'), 'output-root': root, 'report-root': os.path.join(tmp, 'report')}})
        args = argparse.Namespace(job_file=job_file, job_args=[], job_kwargs={}, workers=workers, env_filename=fname, env_format='pickle')
        env = RunCommand().execute(args, config)
        want = {}
        for name, hard, soft in shape:
            want[name] = 'FAILED' if name == failing else ('SKIPPED' if any(want[h] in ('FAILED', 'SKIPPED') for h in hard) else 'DONE')
        got = {nm: env[nm]['status'].name for nm in names}
        if got != want:
            probs.append(f'{failing} fails: statuses {got}, expected {want}')
        counts = _counts(tmp, names)
        wantc = {nm: (0 if want[nm] == 'SKIPPED' else 1) for nm in names}
        if counts != wantc:
            probs.append(f'{failing} fails: executions {counts}, expected {wantc}')
    except Exception as e:      # noqa
        probs.append(f'raised {e!r}')
    finally:
        shutil.rmtree(tmp, ignore_errors=True)
    return probs


def histories(label, tier):
    shape, _ = SHAPES[label]
    names = [s[0] for s in shape]
    out = [[()], [(), ()]]
    out += [[(nm,)] for nm in names]
    out += [[(nm,), ()] for nm in names[:2]]
    out += [[('!' + nm,)] for nm in names]              # the output directory of one task wiped between the runs
    if tier != 'quick':
        out += [[(a, b)] for a in names for b in names if a < b]
        out += [[(a,), (b,)] for a in names for b in names]
    return out


def sweep(tier, seed):
    import logging
    import warnings
    logging.disable(logging.CRITICAL)
    warnings.filterwarnings('ignore')
    fails, n = [], 0
    for label in SHAPES:
        for hist in histories(label, tier):
            for workers in ((2,) if tier == 'quick' else (1, 3)):
                n += 1
                probs = run_history(label, hist, workers)
                if probs:
                    fails.append({'input': {'job': label, 'tasks': SHAPES[label][0], 'persisted_environment_lost_before_each_later_run': [list(h) for h in hist], 'workers': workers},
                                  'observed': probs[:3], 'expected': 'exactly the tasks whose environment was lost and their (hard or soft) dependents are executed again; '
                                                                      'the others are not executed and keep their entries'})
            if len(fails) >= 6:
                break
        for failing in [s_[0] for s_ in SHAPES[label][0]]:
            n += 1
            probs = run_failing(label, failing, 2)
            if probs:
                fails.append({'input': {'job': label, 'tasks': SHAPES[label][0], 'failing_task': failing, 'workers': 2}, 'observed': probs[:3],
                              'expected': 'the tasks behind a hard edge are skipped, the others run once'})
    return {'name': 'rerun-command-native', 'evaluations': n, 'distinct': n, 'failures': fails[:8], 'exhaustive': False,
            'bound': f'`valjean run` (RunCommand.execute) 2-3 times on one output directory for {len(SHAPES)} jobs of 1-4 tasks (hard chain, soft edges only, mixed, diamond, tasks '
                     'without any edge); between runs nothing / one task (quick) or up to two tasks (thorough) lose their persisted environment file, or one task loses its whole output directory; executions counted '
                     'by the tasks themselves; entries and clocks compared between runs; plus one run per job and task in which that task fails (hard dependents skipped, soft dependents run)',
            'samples': [{'job': 'hard and soft edges, a soft-only dependent, an isolated task', 'persisted_environment_lost_before_each_later_run': [[]]}]}


def replay(inp):
    if inp and inp.get('job') in SHAPES and 'failing_task' in inp:
        probs = run_failing(inp['job'], inp['failing_task'], inp.get('workers', 2))
        return {'reproduced': bool(probs), 'observed': probs[:3]}
    if inp and inp.get('job') in SHAPES:
        probs = run_history(inp['job'], [tuple(h) for h in inp['persisted_environment_lost_before_each_later_run']], inp.get('workers', 2))
        return {'reproduced': bool(probs), 'observed': probs[:3]}
    out = sweep('quick', 0)
    return {'reproduced': bool(out['failures']), 'observed': out['failures'][:1]}


if __name__ == '__main__':
    import json
    import sys
    out = sweep(sys.argv[1] if len(sys.argv) > 1 else 'quick', 0)
    print(out['evaluations'], len(out['failures']))
    for f in out['failures']:
        print(json.dumps(f)[:900])
