'''Shared native machinery for C12 / C13 / C18 (labelled bounded wherever it is used as a stand-in):
a factory of test results of every kind with small datasets, deep snapshots, and the read-only operation catalogue.'''
import copy
import itertools
import pickle


def datasets(values, errors, shift=0.0):
    import numpy as np
    from collections import OrderedDict
    from valjean.eponine.dataset import Dataset
    n = len(values)
    bins = OrderedDict([('e', np.arange(n + 1, dtype=float))])
    return Dataset(np.array(values, dtype=float) + shift, np.array(errors, dtype=float), bins=bins, name='ds', what='flux')


def make_results(patterns=None):
    '''yield (kind, label, result) for every result kind with a built-in representation; `patterns`: failing-bin patterns over 3 bins'''
    import numpy as np
    from valjean.gavroche.test import TestEqual, TestApproxEqual, TestResultFailed
    from valjean.gavroche.stat_tests.student import TestStudent
    from valjean.gavroche.stat_tests.bonferroni import TestBonferroni, TestHolmBonferroni
    from valjean.gavroche.stat_tests.chi2 import TestChi2
    from valjean.gavroche.diagnostics.metadata import TestMetadata
    from valjean.gavroche.diagnostics.stats import TestStatsTasks, TestStatsTests, TestStatsTestsByLabels
    from valjean.cosette.task import TaskStatus
    pats = patterns or [(0, 0, 0), (1, 0, 0), (0, 1, 1), (1, 1, 1)]
    basic = []
    for pat in pats:
        ref = datasets([1.0, 2.0, 3.0], [0.1, 0.1, 0.1])
        oth = datasets([1.0 + 5 * pat[0], 2.0 + 5 * pat[1], 3.0 + 5 * pat[2]], [0.1, 0.1, 0.1])
        tag = ''.join(map(str, pat))
        labels = {'pat': tag, 'kind': 'num'}
        teq = TestEqual(ref, oth, name=f'eq{tag}', labels=labels)
        tap = TestApproxEqual(ref, oth, name=f'ap{tag}', labels=labels)
        tst = TestStudent(ref, oth, name=f'st{tag}', labels=labels, ndf=20)
        tst2 = TestStudent(ref, oth, oth, name=f'st2{tag}', labels=labels)
        tch = TestChi2(ref, oth, name=f'chi{tag}', labels=labels)
        tbo = TestBonferroni(name=f'bo{tag}', test=TestStudent(ref, oth, name=f'stb{tag}', ndf=20), alpha=0.05, labels=labels)
        tho = TestHolmBonferroni(name=f'ho{tag}', test=TestStudent(ref, oth, name=f'sth{tag}', ndf=20), alpha=0.05, labels=labels)
        for kind, t in (('equal', teq), ('approx', tap), ('student', tst), ('student2', tst2), ('chi2', tch), ('bonferroni', tbo), ('holm', tho)):
            r = t.evaluate()
            basic.append((kind, tag, r))
            yield kind, tag, r
    # undefined comparisons: NaN on one side only (the t value is NaN, the bin fails)
    refn = datasets([1.0, 2.0, 3.0], [0.1, 0.1, 0.1])
    othn = datasets([1.0, float('nan'), 3.0], [0.1, 0.1, 0.1])
    for kind, t in (('student', TestStudent(refn, othn, name='st-nan', ndf=20)), ('chi2', TestChi2(refn, othn, name='chi-nan')),
                    ('bonferroni', TestBonferroni(name='bo-nan', test=TestStudent(refn, othn, name='stb-nan', ndf=20), alpha=0.05)),
                    ('holm', TestHolmBonferroni(name='ho-nan', test=TestStudent(refn, othn, name='sth-nan', ndf=20), alpha=0.05))):
        r = t.evaluate()
        yield kind, 'nan', r
    # metadata
    for same in (True, False):
        md = TestMetadata({'a': {'code': 'T4', 'v': 1}, 'b': {'code': 'T4', 'v': 1 if same else 2}}, name=f'md{int(same)}', labels={'kind': 'md'})
        r = md.evaluate()
        basic.append(('metadata', str(same), r))
        yield 'metadata', str(same), r
    # failed evaluation
    tf = TestEqual(datasets([1.0], [0.1]), datasets([1.0], [0.1]), name='failed')
    yield 'failed', '-', TestResultFailed(tf, 'something went wrong')
    # as the evaluation task builds it: the message IS the exception that was raised (valjean/gavroche/eval_test_task.py)
    yield 'failed', 'exception', TestResultFailed(tf, ValueError('bins differ', 3))
    # statistics of tasks
    for statuses in ([], [TaskStatus.DONE], [TaskStatus.DONE, TaskStatus.DONE], [TaskStatus.DONE, TaskStatus.FAILED], [TaskStatus.FAILED, TaskStatus.SKIPPED],
                     [TaskStatus.SKIPPED]):
        tr = [(f'task{i}', {'status': s}) for i, s in enumerate(statuses)]
        yield 'stats_tasks', '/'.join(s.name for s in statuses) or 'empty', TestStatsTasks(name='stats_tasks', task_results=tr).evaluate()
    # statistics of tests, and by labels
    res_ok = [r for k, tag, r in basic if bool(r)][:3]
    res_ko = [r for k, tag, r in basic if not bool(r)][:3]
    for label, groups in (('empty', []), ('ok', [res_ok]), ('ko', [res_ko]), ('mixed', [res_ok[:1], res_ko[:1]]), ('missing', [None, res_ok[:1]])):
        tr = [(f'task{i}', ({'result': g} if g is not None else {'status': 'x'})) for i, g in enumerate(groups)]
        yield 'stats_tests', label, TestStatsTests(name='stats_tests', task_results=tr).evaluate()
        if label != 'empty' and any(g for g in groups if g):
            try:
                yield 'stats_by_labels', label, TestStatsTestsByLabels(name='stats_by_labels', task_results=tr, by_labels=('kind', 'pat')).evaluate()
            except Exception:     # noqa   (labels missing in every result: the documented exception)
                pass


def snap(x, depth=0, seen=None):
    '''deep, comparable snapshot (bit-for-bit for arrays; NaN-safe)'''
    import numpy as np
    seen = seen if seen is not None else {}
    if depth > 12:
        return '<deep>'
    if isinstance(x, np.ndarray):
        return ('nd', x.dtype.str, x.shape, x.tobytes())
    if isinstance(x, (np.generic,)):
        return ('ng', x.dtype.str, x.tobytes())
    if isinstance(x, float):
        return ('f', repr(x))
    if isinstance(x, (int, str, bytes, bool, type(None))):
        return x
    if isinstance(x, (list, tuple)):
        return (type(x).__name__, tuple(snap(y, depth + 1, seen) for y in x))
    if isinstance(x, (set, frozenset)):
        return ('set', tuple(sorted(repr(snap(y, depth + 1, seen)) for y in x)))
    if isinstance(x, dict):
        return (type(x).__name__, tuple((repr(k), snap(v, depth + 1, seen)) for k, v in x.items()))
    if id(x) in seen:
        return ('ref', seen[id(x)])
    seen[id(x)] = len(seen)
    d = getattr(x, '__dict__', None)
    if d is not None:
        return (type(x).__name__, tuple((k, snap(v, depth + 1, seen)) for k, v in sorted(d.items()) if k != 'lock'))
    return repr(x)


def _call0(x):
    '''value of an attribute, or of a method that takes no argument'''
    if callable(x):
        try:
            return x()
        except TypeError:
            return None
    return x


def read_only_ops():
    '''name -> callable(result); every operation of the C13 statement'''
    from valjean.javert.representation import (TableRepresenter, FullTableRepresenter, PlotRepresenter, FullPlotRepresenter,
                                                FullRepresenter, Representation)
    from valjean.javert.verbosity import Verbosity
    from valjean.fingerprint import fingerprint
    ops = {
        'bool': lambda r: bool(r),
        'oracles': lambda r: r.oracles() if hasattr(r, 'oracles') else None,
        'counts': lambda r: [_call0(getattr(r, m)) for m in ('nb_rejected', 'rejected_proportion', 'nb_missing_labels', 'only_failed_comparisons', 'test_pvalue',
                                                             'chi2_per_ndf', 'sort_ordering') if hasattr(r, m)],
        'fingerprint': lambda r: fingerprint(r.test),
        'pickle': lambda r: len(pickle.dumps(r)),
        'copy': lambda r: copy.copy(r),
    }
    for v in Verbosity:
        for rn, rep in (('table', TableRepresenter), ('fulltable', FullTableRepresenter), ('plot', PlotRepresenter), ('full', FullRepresenter)):
            ops[f'repr:{rn}:{v.name}'] = (lambda r, rep=rep, v=v: Representation(rep(), verbosity=v)(r))
    from valjean.javert.rst import Rst
    ops['rst:DEFAULT'] = lambda r: Rst(Representation(TableRepresenter(), verbosity=Verbosity.DEFAULT)).format_result(r)
    ops['rst:FULL_DETAILS'] = lambda r: Rst(Representation(FullTableRepresenter(), verbosity=Verbosity.FULL_DETAILS)).format_result(r)
    return ops
