'''C06 -- Bonferroni and Holm-Bonferroni flag exactly the bins their definitions reject.'''
import ast
import z3

from pyvc import prop, theory as th
from pyvc.values import SV, SObj, SClass, SNamespace, SFunc, T, INT, BOOL, NUM, Undecided, lift, coerce
from pyvc.engine import Contract, LoopSpec
from pyvc.verify import verify_function, ClassModel
from pyvc.libspec import SArr
from . import C05
from . import stat_native as snat

ID = 'C06'
LEVEL = 'proof'
BF = 'valjean/gavroche/stat_tests/bonferroni.py'
EXPLANATION = ('Contracts on the real TestBonferroni.bonferroni_correction (flag_i <=> not (p_i > level): at most the level, or undefined), '
               'TestHolmBonferroni.holm_bonferroni_method (loop invariant over the sorted p-values: level alpha/(m - j) at sorted position j, flag = not (p >= level); un-sorting by '
               'the inverse permutation: the bin at original position pos, of rank r = inv[pos] + 1, is flagged iff not (p[pos] >= alpha/(m - r + 1)), ranks ordered like the '
               'p-values, NaN last), the verdicts / oracles of both result classes (true iff nothing is flagged) and the constructors\' two-sided levels; lemmas: an undefined '
               'p-value is never accepted, Bonferroni-flagged => Holm-flagged (except the recorded boundary p = level/m at rank 1), bin-by-bin pass => both corrections pass. '
               'Obligations from the AST, z3 over extended reals and permutations (argsort contract).')
ASSUMPTIONS = C05.ASSUMPTIONS[:2] + [
    'numpy.argsort returns a permutation that sorts increasingly with NaN last, and argsort of a permutation is its inverse; flatten / reshape keep the C-order flat sequence; '
    'np.array(list)[perm] has element j equal to list[perm[j]]',
    'the level is the one the static methods receive (the constructors halve their alpha argument: two-sided); rank-1 arrays stand for every shape through flatten / reshape',
    'A-log: LOGGER calls dropped',
]
TRUSTED = C05.TRUSTED


def _world():
    w = C05._world()
    w.globals['notge'] = lambda I, p, a: SV(BOOL, z3.Not(th.num_le(coerce(a if isinstance(a, SV) else lift(a), NUM).t, coerce(p if isinstance(p, SV) else lift(p), NUM).t)))
    return w


ARR = lambda I, base: I.world.lib.fresh_array(I, base)      # noqa


def c_bonferroni():
    return Contract(BF, 'TestBonferroni.bonferroni_correction', params={'pvalues': ARR, 'bonf_signi_level': 'Num'},
                    ensures=[('C06-flagged-iff-at-most-the-level-or-undefined', 'all(same(result[i], not (pvalues[i] > bonf_signi_level)) for i in range(pvalues.size))'),
                             ('C06-flags-at-the-original-positions', 'result.size == pvalues.size'),
                             ('C06-an-undefined-p-value-is-never-accepted', 'all(implies(isnan(pvalues[i]), result[i]) for i in range(pvalues.size))'),
                             ('p-values-untouched', 'pvalues is old(pvalues)')],
                    returns=lambda I, base: I.world.lib.fresh_array(I, base, dtype='bool'), signals={})


def c_holm():
    m = 'flat_pvals.size'
    inv = ['len(alpha_i) == done', 'len(rejected_hyp) == done',
           f'all(same(alpha_i[j], alpha / ({m} - (j + 1) + 1)) for j in range(done))',
           'all(rejected_hyp[j] == notge(flat_pvals[sorted_inds[j]], alpha_i[j]) for j in range(done))']
    return Contract(
        BF, 'TestHolmBonferroni.holm_bonferroni_method', params={'pvalues': ARR, 'alpha': 'Num'},
        requires=['pvalues.size >= 1'],
        ensures=[('C06-one-level-and-one-flag-per-bin-at-its-original-position', 'result[0].size == pvalues.size and result[1].size == pvalues.size'),
                 # rank of the bin at position pos is inv_sort[pos] + 1
                 ('C06-level-of-the-bin-of-rank-r-is-alpha-over-m-minus-r-plus-1',
                  'all(same(result[0][pos], alpha / (pvalues.size - (inv_sort[pos] + 1) + 1)) for pos in range(pvalues.size))'),
                 ('C06-flagged-iff-not-at-least-its-level', 'all(result[1][pos] == notge(pvalues[pos], result[0][pos]) for pos in range(pvalues.size))'),
                 ('C06-ranks-are-a-permutation-ordered-like-the-p-values',
                  'all(0 <= inv_sort[pos] and inv_sort[pos] < pvalues.size and sorted_inds[inv_sort[pos]] == pos for pos in range(pvalues.size)) and '
                  'all(implies(inv_sort[a] < inv_sort[b], pvalues[a] <= pvalues[b] or isnan(pvalues[b])) for a in range(pvalues.size) for b in range(pvalues.size))'),
                 ('C06-an-undefined-p-value-is-never-accepted', 'all(implies(isnan(pvalues[pos]), result[1][pos]) for pos in range(pvalues.size))')],
        signals={},
        loops={0: LoopSpec('for (_i, pval) in enumerate(flat_pvals[sorted_inds])', inv, vars={'alpha_i': 'Seq[Num]', 'rejected_hyp': 'Seq[Bool]', 'denom': 'Int'})})


class Res(ClassModel):
    name = 'Res'
    fields = {}


def _result_world(nd):
    w = _world()
    for cname in ('TestResultBonferroni', 'TestResultHolmBonferroni'):
        w.class_models[cname] = type(cname, (ClassModel,), {'name': cname, 'fields': {}})(w)

    def setup(I, scope):
        L = I.world.lib
        rn = [L.fresh_array(I, f'rejected{k}', dtype='bool') for k in range(nd)]
        cls = scope.lookup('__cls__') if scope.has('__cls__') else 'TestResultBonferroni'
        scope.set('self', I.alloc(cls, {'rejected_null_hyp': rn}))
    return w, setup


def c_res(cls, method, nd):
    if method == 'oracles':
        per = ' and '.join(f'result[{k}] == (not any(self.rejected_null_hyp[{k}][i] for i in range(self.rejected_null_hyp[{k}].size)))' for k in range(nd))
        ens = [('C06-one-verdict-per-dataset-true-iff-nothing-is-flagged', f'len(result) == {nd} and {per}')]
        ret = None
    else:
        conj = ' and '.join(f'not any(self.rejected_null_hyp[{k}][i] for i in range(self.rejected_null_hyp[{k}].size))' for k in range(nd))
        ens = [('C06-verdict-true-exactly-when-nothing-is-flagged', f'result == ({conj})')]
        ret = 'Bool'
    return Contract(BF, f'{cls}.{method}', params={}, returns=ret, ensures=ens, signals={}, variant=f'{nd}-datasets')


# ---- evaluate(): the corrections are applied to every p-value array of the underlying result, unconditionally, with the test's own level
RESULT_FIELDS = {'TestResultBonferroni': ('test', 'first_test_res', 'rejected_null_hyp'), 'TestResultHolmBonferroni': ('test', 'first_test_res', 'alphas_i', 'rejected_null_hyp')}


def _super_call(I, me, name, args, kwargs):
    # assumed contracts of the parents' constructors (valjean/gavroche/test.py: TestResult.__init__ stores the test; Test.__init__ stores name, description, labels)
    if name == '__init__' and len(args) == 1 and not kwargs:
        I.setfield(me, 'test', args[0])
        return None
    if name == '__init__' and not args:
        for k in ('name', 'description', 'labels'):
            I.setfield(me, k, kwargs.get(k))
        return None
    raise Undecided(f'super().{name}')


def _eval_world(nd, cls):
    w = _world()
    w.super_call = _super_call
    w.inline_properties = True      # ntests is a @property of the class under verification: its real body is executed
    for cname in RESULT_FIELDS:
        w.globals[cname] = SClass(cname)
    for cname in ('TestBonferroni', 'TestHolmBonferroni', 'TestResultBonferroni', 'TestResultHolmBonferroni', 'UnderlyingResult', 'DsRef'):
        w.class_models[cname] = type(cname, (ClassModel,), {'name': cname, 'fields': {}})(w)

    class Under(ClassModel):
        name = 'UnderlyingTest'
        fields = {}

        def m_evaluate(self, I, me):
            I.trace.append(('underlying-evaluate',))
            return I.underlying_result
    w.class_models['UnderlyingTest'] = Under(w)
    w.class_models['UnderlyingResult'].m___bool__ = lambda I, me: I.fresh(BOOL, 'underlying_verdict')

    def new_result(cname):
        def build(I, args, kwargs):
            # the constructors' contracts (verified by the units init_*): every argument is stored under its own name
            return I.alloc(cname, dict(zip(RESULT_FIELDS[cname], args)))
        return build
    for cname in RESULT_FIELDS:
        w.construct_hooks[cname] = new_result(cname)
    w.add(c_bonferroni())

    def setup(I, scope):
        L = I.world.lib
        I.trace = []
        pv = [L.fresh_array(I, f'pvalue{k}') for k in range(nd)]
        I.underlying_result = I.alloc('UnderlyingResult', {'pvalue': pv})
        under = I.alloc('UnderlyingTest', {})
        me = I.alloc(cls, {'test': under, 'alpha': I.fresh(NUM, 'alpha'), 'bonf_signi_level': I.fresh(NUM, 'bonf_signi_level')})
        scope.set('self', me)
        scope.set('underlying_result', I.underlying_result)
        I.holm_calls = []
    return w, setup


def c_evaluate_bonferroni(nd):
    per = ' and '.join(f'result.rejected_null_hyp[{k}].size == underlying_result.pvalue[{k}].size and '
                       f'all(same(result.rejected_null_hyp[{k}][i], not (underlying_result.pvalue[{k}][i] > self.bonf_signi_level)) for i in range(underlying_result.pvalue[{k}].size))'
                       for k in range(nd))
    return Contract(BF, 'TestBonferroni.evaluate', params={}, returns='Obj:TestResultBonferroni',
                    ensures=[('C06-every-bin-of-every-dataset-is-flagged-iff-at-most-the-bonferroni-level-or-undefined', f'len(result.rejected_null_hyp) == {nd} and {per}'),
                             ('C06-the-result-keeps-the-underlying-result-and-the-test', 'result.first_test_res is underlying_result and result.test is self')],
                    signals={}, variant=f'{nd}-datasets')


def c_evaluate_holm(nd):
    return Contract(BF, 'TestHolmBonferroni.evaluate', params={}, returns='Obj:TestResultHolmBonferroni',
                    ensures=[('C06-the-result-keeps-the-underlying-result-and-the-test', 'result.first_test_res is underlying_result and result.test is self')],
                    signals={}, variant=f'{nd}-datasets')


def _holm_check(nd):
    def check(I, scope, outcome):
        # holm_bonferroni_method (verified above) is applied once per p-value array, in order, with the overall level; its outputs are reported unchanged
        L = f'{BF}::TestHolmBonferroni.evaluate[{nd}-datasets]'
        calls = I.holm_calls
        I.path.oblige(f'{L}::post::C06-holm-is-applied-to-every-p-value-array-in-order-with-the-overall-level',
                      len(calls) == nd and all(c[0] is I.underlying_result_pv[k] and c[1] is I.self_alpha for k, c in enumerate(calls)), kind='post',
                      meta={'expr': 'holm_bonferroni_method(pvalue[k], self.alpha) for k = 0 .. n-1, nothing else'})
        result = outcome[1] if outcome[0] == 'return' else None
        ok = False
        if len(calls) == nd and isinstance(result, SObj):
            al, rj = I.getfield(result, 'alphas_i'), I.getfield(result, 'rejected_null_hyp')
            ok = isinstance(al, (list, tuple)) and isinstance(rj, (list, tuple)) and len(al) == nd and len(rj) == nd and \
                all(al[k] is calls[k][2] and rj[k] is calls[k][3] for k in range(nd))
        I.path.oblige(f'{L}::post::C06-levels-and-flags-of-each-dataset-are-those-the-method-returned', ok, kind='post',
                      meta={'expr': 'result.alphas_i[k], result.rejected_null_hyp[k] == holm_bonferroni_method(pvalue[k], self.alpha)'})
    return check


def c_init(cls):
    if cls in RESULT_FIELDS:
        fs = RESULT_FIELDS[cls]
        params = {f: 'Ref:Any' for f in fs}
        ens = [('C06-the-result-stores-what-it-is-given', ' and '.join(f'same(self.{f}, {f})' for f in fs))]
        return Contract(BF, f'{cls}.__init__', params=params, ensures=ens, signals={})
    params = {'name': 'Str', 'description': 'Str', 'labels': 'None', 'test': 'Obj:UnderlyingTest', 'alpha': 'Num'}
    if cls == 'TestBonferroni':      # np.float_: 0-d numpy scalars
        ens = [('C06-the-level-is-two-sided', 'same(self.alpha.item(), alpha / 2.0) and self.test is test'),
               ('C06-the-bonferroni-level-is-the-overall-level-over-the-number-of-bins', 'same(self.bonf_signi_level.item(), (alpha / 2.0) / test.dsref.size)')]
    else:
        ens = [('C06-the-level-is-two-sided', 'same(self.alpha, alpha / 2.0) and self.test is test')]
    return Contract(BF, f'{cls}.__init__', params=params, requires=['test.dsref.size >= 1'], ensures=ens, signals={})


def lemmas():
    out = []
    p, level, m, j = z3.Reals('p level m j')
    base = [0 < level, level < 1, m >= 1]
    # Bonferroni-flagged => Holm-flagged at every rank, except exactly p == level/m at rank 1 (recorded known finding)
    out.append(('C06-a-bin-flagged-by-bonferroni-is-flagged-by-holm-away-from-the-boundary', base + [j >= 0, j <= m - 1, p <= level / m, z3.Not(z3.And(j == 0, p == level / m))],
                p < level / (m - j), 'p <= level/m and not (rank 1 and p == level/m) => p < level/(m - j)'))
    # passes bin by bin at the same level => passes both corrections (the corrections use level/2 of the user's alpha: alpha_c = alpha/2)
    a = z3.Real('a')
    out.append(('C06-passing-bin-by-bin-passes-bonferroni', [0 < a, a < 1, m >= 1, p > a], p > (a / 2) / m, 'p > alpha => p > (alpha/2)/m'))
    out.append(('C06-passing-bin-by-bin-passes-holm', [0 < a, a < 1, m >= 1, j >= 0, j <= m - 1, p > a], p >= (a / 2) / (m - j), 'p > alpha => p >= (alpha/2)/(m - j)'))
    P, Lv = z3.Const('P', th.Num), z3.Const('Lv', th.Num)
    out.append(('C06-an-undefined-p-value-is-never-accepted-by-either-rule', [th.is_nan(P)], z3.And(z3.Not(th.num_lt(Lv, P)), z3.Not(th.num_le(Lv, P))),
                'NaN: not (p > level) and not (p >= level) => flagged by both rules'))
    return out


def units(tier):
    return ['bonferroni', 'holm', 'results', 'evaluate', 'init', 'lemmas', 'native']


def _replay_native(name, inp):
    out = snat.bonferroni_sweep('quick', 0)
    if out['failures']:
        fl = out['failures'][0]
        return {'reproduced': True, 'observed': fl['observed'], 'input_found': fl['input'], 'by': 'native bonferroni / holm sweep'}
    return {'reproduced': False, 'note': 'native sweep found no failing input'}


def run_unit(unit, tier, seed, known):
    import logging
    import warnings
    logging.disable(logging.CRITICAL)
    warnings.filterwarnings('ignore')
    if unit == 'native':
        out = snat.bonferroni_sweep(tier, seed)
        seen = []
        if any(k.get('id') == 'bonferroni-holm-boundary' for k in known):
            w = snat.boundary_witness()
            if w:
                seen.append({'reproduced': True, 'what': w})
        return {'bounded': [out], 'known_seen': seen}
    if unit == 'lemmas':
        recs = []
        for name, hyp, goal, text in lemmas():
            r = prop.lemma(f'{BF}::lemma::{name}', hyp, goal, tier, ID, expr=text)
            if r['status'] == 'refuted':
                r['replay'] = _replay_native(name, None)
            r.pop('model', None)
            recs.append(r)
        return {'lemmas': recs}
    D = lambda res: prop.discharge(res, tier, ID, lambda m, r: {'note': 'see model text'}, _replay_native)      # noqa
    if unit == 'bonferroni':
        return {'functions': [D(verify_function(_world(), c_bonferroni()))]}
    if unit == 'holm':
        return {'functions': [D(verify_function(_world(), c_holm()))]}
    if unit == 'evaluate':
        out = []
        for nd in (1, 2):
            w, setup = _eval_world(nd, 'TestBonferroni')
            out.append(D(verify_function(w, c_evaluate_bonferroni(nd), setup=setup)))
            w, setup = _eval_world(nd, 'TestHolmBonferroni')

            def setup2(I, scope, setup=setup):
                setup(I, scope)
                I.underlying_result_pv = I.getfield(I.underlying_result, 'pvalue')
                I.self_alpha = I.getfield(scope.lookup('self'), 'alpha')

            def m_holm(I, me, pvals, alpha):
                a, r = I.world.lib.fresh_array(I, 'holm_levels'), I.world.lib.fresh_array(I, 'holm_flags', dtype='bool')
                I.holm_calls.append((pvals, alpha, a, r))
                return (a, r)
            w.class_models['TestHolmBonferroni'].m_holm_bonferroni_method = m_holm
            out.append(D(verify_function(w, c_evaluate_holm(nd), setup=setup2, extra_check=_holm_check(nd))))
        return {'functions': out}
    if unit == 'init':
        out = []
        for cls in ('TestBonferroni', 'TestHolmBonferroni', 'TestResultBonferroni', 'TestResultHolmBonferroni'):
            w, _ = _eval_world(1, cls)

            def setup3(I, scope, cls=cls):
                scope.set('self', I.alloc(cls, {}))
                if scope.has('test') and isinstance(scope.lookup('test'), SObj) and cls not in RESULT_FIELDS:
                    nb = I.fresh(INT, 'nbins')
                    ds = I.alloc('DsRef', {'size': nb})
                    I.setfield(scope.lookup('test'), 'dsref', ds)
                    # two compared datasets of the same size: the number of hypotheses is the number of bins, whatever the number of datasets
                    I.setfield(scope.lookup('test'), 'datasets', [I.alloc('DsRef', {'size': nb}) for _ in range(2)])
            out.append(D(verify_function(w, c_init(cls), setup=setup3)))
        return {'functions': out}
    out = []
    for cls in ('TestResultBonferroni', 'TestResultHolmBonferroni'):
        for method in ('oracles', '__bool__'):
            for nd in (1, 2):
                w, setup = _result_world(nd)

                def setup2(I, scope, cls=cls, setup=setup):
                    scope.set('__cls__', cls)
                    setup(I, scope)
                if method == '__bool__':
                    # a verdict written in terms of oracles() is checked against the contract of oracles() (verified above), not against its body
                    co = c_res(cls, 'oracles', nd)
                    co.returns = lambda I, base, nd=nd: [I.fresh(BOOL, f'{base}_{k}') for k in range(nd)]
                    w.add(co)
                out.append(D(verify_function(w, c_res(cls, method, nd), setup=setup2)))
    return {'functions': out}


def replay(name, inp):
    return _replay_native(name or '', inp)
