'''C03 -- scheduler property; units shared with the other scheduler properties (contracts/sched_units.py).'''
from . import sched_units as su
from . import sched_props as sp

ID = 'C03'
LEVEL = 'other'
EXPLANATION = ('Partial (safety core by contract, wake-up argument not mechanised): one worker iteration lets no exception escape, calls task_done once and notify_all once under cond_var after publishing; execute_tasks sends a sentinel to and joins every thread it started on EVERY exit path (normal, DepGraphError before any thread exists, any exception in the master loop), calls wait() only while holding cond_var and never joins while holding it. Absence of a lost wake-up / termination of the master loop is a liveness argument no contract here decides; the native sweep with a hang watchdog is the bounded stand-in for it.')
ASSUMPTIONS = su.ASSUMPTIONS
TRUSTED = su.TRUSTED
UNITS = 'decide decide_waiting last_end_time enqueue worker master schedule scheduler_init backend_init og independence env_locks merge_done dg_add_node dg_add_dependency dg_remove_node dg_flatten dg_histories env_conformance native_sweep'.split()


def units(tier):
    return list(UNITS)


def run_unit(unit, tier, seed, known):
    return sp.run_unit(ID, unit, tier, seed, known)


def replay(name, inp):
    return sp.replay(name, inp)
