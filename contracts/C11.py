'''C11 -- a truncated Tripoli-4 listing gives a parser error or the last complete edition (partial: level other).'''
import ast
import z3

from pyvc import prop, extract, theory as th
from pyvc.values import SV, SObj, SClass, SNamespace, T, INT, BOOL, STR, Undecided, lift, coerce, parse_type, zsort
from pyvc.engine import Contract, PathEnd
from pyvc.verify import verify_function, ClassModel, World
from . import trunc_native as tn

ID = 'C11'
LEVEL = 'other'
SCAN = 'valjean/eponine/tripoli4/scan.py'
PARSE = 'valjean/eponine/tripoli4/parse.py'
EXPLANATION = ('Contracts on the real scanner / parser entry points.  (1) Scanner._get_collres, one iteration of the line loop under the precondition "the line is not '
               'terminated by a newline" (the only line a cut can damage): the iteration ends the loop and calls, writes and rebinds nothing -- a cut line is never '
               'interpreted.  (2) The file object is used only as the iterable of that loop (no look-ahead, no position): with (1) the scan of a prefix performs the '
               'scan of the complete listing up to the cut line, so whatever it raises inside the loop the complete listing raises too (induction over the lines, by hand). '
               '(3) Exception translation: Parser._check_scan, Parser._scan, Parser.__init__ and Parser._parse_listing_worker signal only ParserException given that '
               'Scanner() signals only ScannerException and pyparsing signals ParseException or the builders\' exceptions.  Obligations from the AST, z3 / cvc5 (strings). '
               'The parse actions of the pyparsing grammar, "never hangs" and "same results as the complete listing" are decided only by the labelled bounded stand-in: '
               'every shipped listing cut at every byte of the scanner-interpreted lines and at seeded offsets, parsed with the real Parser under a time limit.')
ASSUMPTIONS = [
    'text-file iteration (open(..., errors="ignore")): the lines read from a byte prefix are the lines of the complete file up to the cut; only the last one can differ, '
    'and it then lacks its newline (universal newlines: a cut between CR and LF yields the complete line)',
    'Scanner(path) on the COMPLETE listing raises nothing but ScannerException (observed on the shipped listings by the bounded unit; not a contract: a malformed '
    'complete line such as " batch number : x" still raises ValueError)',
    'the induction "same lines, same state => same behaviour" over the loop of _get_collres is argued by hand from obligations (1) and (2); it is not machine-checked',
    'gram.parseString signals only ParseException / SpectrumDictBuilderException / MeshDictBuilderException: ASSUMED for the translation contract of _parse_listing_worker, '
    'known to be fragile (array builders re-raise bare IndexError) -- whence the bounded unit',
    'str.split / int(str) / lstrip: uninterpreted (any fields, any string may fail to spell a number)',
    'A-log: LOGGER calls dropped; Chrono dropped',
    'whatever was parsed earlier in the same process: the bounded unit parses thousands of prefixes per process, no contract covers pyparsing\'s global state',
]
TRUSTED = ['z3 / cvc5 unsat answers', 'CPython ast module', 'pyvc engine (symbolic executor, libspec encodings)', 'pyparsing, the grammar modules (grammar.py, common.py, transform.py): executed, not verified']

INTERPRETERS = ('_set_counters_and_flags', '_is_end_flag', '_check_input_data', '_add_time', '_additional_outputs')


# ---------------------------------------------------------------------------------------
# (1) one iteration of the line loop on an unterminated line
def _loop(fn):
    withs = [st for st in fn.body if isinstance(st, ast.With)]
    if len(withs) != 1:
        raise Undecided('Scanner._get_collres no longer has a single with-block')
    loops = [st for st in withs[0].body if isinstance(st, ast.For)]
    if len(loops) != 1 or len(withs[0].body) != 1:
        raise Undecided('the with-block of Scanner._get_collres is no longer a single for-loop over the file')
    return withs[0], loops[0]


def loop_body(fn):
    w, lp = _loop(fn)
    if not (isinstance(lp.target, ast.Name) and lp.target.id == 'line' and isinstance(lp.iter, ast.Name)):
        raise Undecided('the loop of Scanner._get_collres is no longer `for line in <file>`')
    return lp.body


def line_world():
    w = World()
    w.globals['LOGGER'] = SNamespace('LOGGER', dropped=True)
    w.exc_parents['ScannerException'] = 'Exception'

    def ev(I, *e):
        I.trace.append(e)

    class ScannerM(ClassModel):
        name = 'Scanner'
        fields = {}
    for m in INTERPRETERS:
        setattr(ScannerM, 'm_' + m, (lambda m: lambda self, I, me, *a: (ev(I, 'call', m), I.fresh(parse_type('Opt[Str]'), 'ret_' + m))[1])(m))

    class BatchM(ClassModel):
        name = 'BatchResultScanner'
        fields = {}
    for m in ('build_result', 'check_batch_number', 'get_result'):
        setattr(BatchM, 'm_' + m, (lambda m: lambda self, I, me, *a: (ev(I, 'call', m), I.fresh(STR, 'ret_' + m))[1])(m))
    w.class_models['Scanner'] = ScannerM(w)
    w.class_models['BatchResultScanner'] = BatchM(w)

    def new_batch(I, args, kwargs):
        ev(I, 'call', 'BatchResultScanner()')
        return I.alloc('BatchResultScanner', {'batch_counts': {'number': I.fresh(INT, 'bn')}})
    w.construct_hooks['BatchResultScanner'] = new_batch
    w.globals['BatchResultScanner'] = SClass('BatchResultScanner')
    return w


def line_setup(I, scope):
    I.trace = []
    me = I.alloc('Scanner', {'fname': I.fresh(STR, 'fname'), 'partial': I.fresh(BOOL, 'partial'), 'para': I.fresh(BOOL, 'para'),
                             '_fatal_error': I.fresh(parse_type('Seq[Str]'), 'fatal'), 'times': I.fresh(parse_type('Map[Str,Int]'), 'times'),
                             '_collres': I.fresh(parse_type('Map[Int,Str]'), 'collres'), 'last_generator_state': I.fresh(STR, 'lgs')})
    scope.set('self', me)
    I.initial = {'generator_state': I.fresh(parse_type('Seq[Str]'), 'generator_state'), 'current_batch': I.fresh(INT, 'current_batch')}
    # an edition may or may not be open
    if I.path.cond(z3.Bool(I.path.name('an_edition_is_open'))):
        I.initial['_batch_scan'] = I.alloc('BatchResultScanner', {'batch_counts': {'number': I.fresh(INT, 'bn0')}})
    else:
        I.initial['_batch_scan'] = None
    for k, v in I.initial.items():
        scope.set(k, v)

    def on_write(I2, recv, name, value):
        I2.trace.append(('write', name))
    I.hooks['write'] = on_write


def c_line():
    return Contract(SCAN, 'Scanner._get_collres', params={'line': 'Str'}, requires=["not line.endswith('\\n')"], signals={}, variant='one-iteration-on-an-unterminated-line')


def line_check(I, scope, outcome):
    p = I.path
    L = f'{SCAN}::Scanner._get_collres[one-iteration-on-an-unterminated-line]'
    p.oblige(f'{L}::post::C11-an-unterminated-line-ends-the-scan', outcome[0] == 'break', kind='post',
             meta={'expr': 'the iteration leaves the loop (break): nothing after a cut line is read'})
    p.oblige(f'{L}::post::C11-an-unterminated-line-is-never-interpreted', not I.trace, kind='post',
             meta={'expr': 'no scanner method is called and no attribute is written: ' + repr(I.trace[:4])})
    same = all(scope.has(k) and scope.lookup(k) is v for k, v in I.initial.items())
    p.oblige(f'{L}::post::C11-an-unterminated-line-changes-no-scan-state', same, kind='post',
             meta={'expr': 'current_batch, _batch_scan and generator_state are what they were'})


# ---------------------------------------------------------------------------------------
# (2) the file is only iterated
def no_lookahead():
    name = f'{SCAN}::Scanner._get_collres::frame::the-file-is-used-only-as-the-iterable-of-the-line-loop'
    rec = {'name': name, 'kind': 'frame', 'instances': 1, 'backend': 'syntactic check over the real AST', 'seconds': 0.0,
           'expr': 'open() once, bound to one name that occurs only in `for line in <file>`; `line` is never rebound in the loop'}
    try:
        fn = extract.find(SCAN, 'Scanner._get_collres')
        w, lp = _loop(fn)
    except (extract.Missing, Undecided) as e:
        rec.update(status='undecided', reason=str(e))
        return rec
    item = w.items[0]
    fil = item.optional_vars.id if isinstance(item.optional_vars, ast.Name) else None
    opens = [n for n in ast.walk(fn) if isinstance(n, ast.Call) and isinstance(n.func, ast.Name) and n.func.id == 'open']
    uses = [n for n in ast.walk(fn) if isinstance(n, ast.Name) and n.id == fil]
    rebinds = [n for n in ast.walk(lp) if isinstance(n, ast.Name) and n.id == 'line' and isinstance(n.ctx, ast.Store) and n is not lp.target]
    bad = []
    if len(w.items) != 1 or fil is None or len(opens) != 1 or opens[0] is not item.context_expr:
        bad.append('the listing is not opened exactly once by the with-statement')
    if not (isinstance(lp.iter, ast.Name) and lp.iter.id == fil) or len(uses) != 2:
        bad.append(f'the file object `{fil}` is used {len(uses) - 1} time(s) besides its binding (lines {[u.lineno for u in uses]})')
    if rebinds:
        bad.append(f'`line` is rebound inside the loop (line {rebinds[0].lineno})')
    if lp.orelse:
        bad.append('the loop has an else clause')
    if bad:
        rec.update(status='refuted', model_text='; '.join(bad), model_input={'function': 'Scanner._get_collres', 'problems': bad})
    else:
        rec.update(status='discharged')
    return rec


# ---------------------------------------------------------------------------------------
# (3) exception translation in parse.py
def parse_world():
    w = World()
    w.globals['LOGGER'] = SNamespace('LOGGER', dropped=True)
    for e in ('ParserException', 'ScannerException', 'ParseException', 'SpectrumDictBuilderException', 'MeshDictBuilderException'):
        w.exc_parents[e] = 'Exception'

    def ev(I, *e):
        I.trace.append(e)

    class ScanRes(ClassModel):
        name = 'Scanner'
        fields = {'n_editions': 'Int', 'normalend': 'Bool'}

        def m___len__(self, I, me):
            return I.getfield(me, 'n_editions')

        def m___bool__(self, I, me):
            return SV(BOOL, I.getfield(me, 'n_editions').t != 0)

        def m_fatal_error(self, I, me):
            return I.fresh(STR, 'fatal_error')
    w.class_models['Scanner'] = ScanRes(w)

    def new_scanner(I, *args, **kwargs):
        ev(I, 'Scanner()', args[0] if args else None)
        if I.path.cond(z3.Bool(I.path.name('the_scan_fails'))):
            I.raise_('ScannerException')
        n = I.fresh(INT, 'n_editions')
        I.path.assume(n.t >= 0)
        I.scanner = I.alloc('Scanner', {'n_editions': n, 'normalend': I.fresh(BOOL, 'normalend')})
        return I.scanner
    scan_ns = SNamespace('scan', {'Scanner': new_scanner, 'ScannerException': SClass('ScannerException')})
    w.globals['scan'] = scan_ns
    w.globals['ParserException'] = SClass('ParserException')

    class ParserM(ClassModel):
        name = 'Parser'
        fields = {}
    w.class_models['Parser'] = ParserM(w)
    return w


def parser_setup(I, scope):
    I.trace = []
    I.scanner = None
    I.lock_depth = 0

    def with_hook(I2, v, what):
        if isinstance(v, SNamespace) and v.name == 'PYPARSING_LOCK':
            I2.lock_depth += 1 if what == 'enter' else -1
    I.hooks['with'] = with_hook
    scope.set('self', I.alloc('Parser', {'jdd': I.fresh(STR, 'jdd')}))


def c_check_scan():
    return Contract(PARSE, 'Parser._check_scan', params={'scan_res': 'Obj:Scanner'}, requires=['len(scan_res) >= 0'],
                    ensures=[('C11-accepted-means-at-least-one-complete-edition', 'len(scan_res) > 0')],
                    signals={'ParserException': 'len(scan_res) == 0'})


def c_scan_listing():
    return Contract(PARSE, 'Parser._scan_listing', params={}, returns='Obj:Scanner', requires=[], ensures=[('C11-the-listing-of-the-parser-is-scanned', 'len(result) >= 0')],
                    signals={'ScannerException': True})


def c_scan():
    return Contract(PARSE, 'Parser._scan', params={}, returns='Obj:Scanner', ensures=[('C11-a-scan-result-holds-a-complete-edition', 'len(result) > 0')],
                    signals={'ParserException': True, 'ScannerException': True})


def c_init():
    return Contract(PARSE, 'Parser.__init__', params={'jddname': 'Str'},
                    ensures=[('C11-the-parser-holds-a-scan-with-a-complete-edition', 'len(self.scan_res) > 0 and same(self.jdd, jddname)')],
                    signals={'ParserException': True})


def c_worker():
    return Contract(PARSE, 'Parser._parse_listing_worker', params={'gram': 'Obj:Grammar', 'str_to_parse': 'Str'},
                    ensures=[('C11-the-parsed-list-is-returned', 'len(result) >= 0')], signals={'ParserException': True})


def worker_world():
    w = parse_world()
    for e in ('ParseException', 'SpectrumDictBuilderException', 'MeshDictBuilderException'):
        w.globals[e] = SClass(e)
    w.globals['ParserElement'] = SNamespace('ParserElement', dropped=True)
    # the lock: `with PYPARSING_LOCK:` (hook of parser_setup) or explicit acquire() / release() calls -- both counted, so that "held while parsing" and
    # "released on every way out" are obligations of the code as written
    lock = SNamespace('PYPARSING_LOCK')

    def acquire(I, blocking=True, timeout=-1):
        if blocking is False or (isinstance(blocking, SV)):
            if not I.path.cond(z3.Bool(I.path.name('lock_was_free'))):
                return False
        I.lock_depth += 1
        return True

    def release(I):
        I.lock_depth -= 1
        return None
    lock.members['acquire'] = acquire
    lock.members['release'] = release
    w.globals['PYPARSING_LOCK'] = lock

    class Parsed(ClassModel):
        name = 'ParseResults'
        fields = {}

        def m_asList(self, I, me):
            return I.fresh(parse_type('Seq[Ref:Any]'), 'parsed')
    w.class_models['ParseResults'] = Parsed(w)

    class Grammar(ClassModel):
        name = 'Grammar'
        fields = {}

        def m_parseString(self, I, me, s):
            # the grammar re-binds shared sub-grammars while it parses: two parses must not overlap (worker threads of the scheduler)
            I.path.oblige(f'{PARSE}::Parser._parse_listing_worker::structure::C11-the-grammar-is-used-under-the-pyparsing-lock', I.lock_depth >= 1, kind='structure',
                          meta={'expr': 'gram.parseString(...) is called inside `with PYPARSING_LOCK:`'})
            # assumed contract of pyparsing + the parse actions (see ASSUMPTIONS)
            for exc in ('ParseException', 'SpectrumDictBuilderException', 'MeshDictBuilderException'):
                if I.path.cond(z3.Bool(I.path.name('parseString_raises_' + exc))):
                    I.raise_(exc)
            return I.alloc('ParseResults', {})
    w.class_models['Grammar'] = Grammar(w)
    return w


def c_global_variables():
    return Contract(SCAN, 'Scanner.global_variables', params={'batch_number': 'Int'}, requires=['self.batches["packet_length"] >= 1'], signals={},
                    ensures=[('C11-an-edition-whose-times-are-not-all-recorded-yet-is-still-described', 'same(returned["batch_number"], batch_number)')])


def gv_setup(I, scope):
    times = {'initialization_time': I.fresh(INT, 'init_time'), 'simulation_time': I.fresh(parse_type('Map[Int,Int]'), 'simulation_times'),
             'elapsed_time': I.fresh(parse_type('Map[Int,Int]'), 'elapsed_times')}      # any subset of the editions may have a recorded time (cut listing)
    me = I.alloc('Scanner', {'countwarnings': I.fresh(INT, 'nw'), 'counterrors': I.fresh(INT, 'ne'), 'tasks': I.fresh(INT, 'tasks'), 'normalend': I.fresh(BOOL, 'normalend'),
                             'batches': {'batches': I.fresh(parse_type('Opt[Int]'), 'required_batches'), 'packet_length': I.fresh(INT, 'packet_length')},
                             'partial': I.fresh(BOOL, 'partial'), 'fname': I.fresh(STR, 'fname'), 'times': times})
    scope.set('self', me)


def units(tier):
    return ['unterminated_line', 'no_lookahead', 'check_scan', 'scan', 'init', 'worker', 'global_variables', 'native']


def _replay_native(name, inp):
    out = tn.sweep('quick', 0)
    if out['failures']:
        fl = out['failures'][0]
        return {'reproduced': True, 'observed': fl['observed'], 'input_found': fl['input'], 'by': 'native truncation sweep'}
    return {'reproduced': False, 'note': 'native truncation sweep found no failing prefix'}


def run_unit(unit, tier, seed, known):
    import logging
    import warnings
    logging.disable(logging.CRITICAL)
    warnings.filterwarnings('ignore')
    D = lambda res: prop.discharge(res, tier, ID, lambda m, r: {'note': 'see model text'}, _replay_native)      # noqa
    if unit == 'native':
        return {'bounded': [tn.sweep(tier, seed)]}
    if unit == 'no_lookahead':
        rec = no_lookahead()
        if rec['status'] == 'refuted':
            rec['replay'] = _replay_native(rec['name'], None)
        return {'lemmas': [rec]}
    if unit == 'unterminated_line':
        return {'functions': [D(verify_function(line_world(), c_line(), setup=line_setup, body_of=loop_body, extra_check=line_check))]}
    if unit == 'check_scan':
        return {'functions': [D(verify_function(parse_world(), c_check_scan(), setup=parser_setup))]}
    if unit == 'scan':
        w = parse_world()
        w.add(c_check_scan())
        w.add(c_scan_listing())
        return {'functions': [D(verify_function(parse_world(), c_scan_listing(), setup=parser_setup)), D(verify_function(w, c_scan(), setup=parser_setup))]}
    if unit == 'init':
        w = parse_world()
        w.add(c_scan())
        return {'functions': [D(verify_function(w, c_init(), setup=parser_setup))]}
    if unit == 'global_variables':
        w = parse_world()
        w.exc_parents['KeyError'] = 'LookupError'
        return {'functions': [D(verify_function(w, c_global_variables(), setup=gv_setup))]}
    if unit == 'worker':
        def lock_released(I, scope, outcome):
            # whatever the way out (the parsed list, ParserException for a rejected edition, anything else): the re-entrant lock is not left held -- a thread that
            # stays alive (a pool worker) would keep every other parse of the process waiting for ever
            what = 'normal return' if outcome[0] == 'return' else f'exception {getattr(outcome[1], "cls", outcome[1])}'
            I.path.oblige(f'{PARSE}::Parser._parse_listing_worker::exit-paths::C11-the-pyparsing-lock-is-released-on-every-way-out', I.lock_depth == 0, kind='post',
                          meta={'expr': f'PYPARSING_LOCK is not held when the function is left ({what}; acquisitions minus releases = {I.lock_depth})'})
        return {'functions': [D(verify_function(worker_world(), c_worker(), setup=parser_setup, extra_check=lock_released))]}
    raise KeyError(unit)


def replay(name, inp):
    if inp and 'listing' in inp:
        return tn.replay(inp)
    return _replay_native(name or '', inp)
