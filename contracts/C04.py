'''C04 -- scheduler property; units shared with the other scheduler properties (contracts/sched_units.py).'''
from . import sched_units as su
from . import sched_props as sp

ID = 'C04'
LEVEL = 'proof'
EXPLANATION = ('Re-run executes exactly the out-of-date tasks: postconditions of decide_new_state on a DONE task (kept only if every dependency is DONE with end <= start and no hard dependency FAILED/SKIPPED, environment untouched; an up-to-date task is kept), last_end_time (None iff no dependency or one without end clock, else the maximum; loop invariant), worker publishes the clocks of this run before the status, merge_done_tasks merges exactly the DONE entries. Two-run histories on all DAGs <= 3 tasks run natively as the labelled bounded stand-in.')
ASSUMPTIONS = su.ASSUMPTIONS
TRUSTED = su.TRUSTED
UNITS = 'decide decide_waiting last_end_time enqueue worker master schedule scheduler_init og independence env_locks merge_done dg_add_node dg_add_dependency dg_remove_node dg_flatten dg_histories env_conformance native_rerun native_sweep'.split()


def units(tier):
    return list(UNITS)


def run_unit(unit, tier, seed, known):
    return sp.run_unit(ID, unit, tier, seed, known)


def replay(name, inp):
    return sp.replay(name, inp)
