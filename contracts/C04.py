'''C04 -- scheduler property; units shared with the other scheduler properties (contracts/sched_units.py).'''
from . import sched_units as su
from . import sched_props as sp

ID = 'C04'
LEVEL = 'proof'
EXPLANATION = ('Re-run executes exactly the out-of-date tasks: postconditions of decide_new_state on a DONE task (kept only if every dependency is DONE with end <= start and no hard dependency FAILED/SKIPPED, environment untouched; an up-to-date task is kept), last_end_time (None iff no dependency or one without end clock, else the maximum; loop invariant), worker publishes the clocks of this run before the status, merge_done_tasks merges exactly the DONE entries; build_graphs puts every collected task into both graphs with exactly its hard / soft edges (nested loop invariants over abstract node and edge sets) and RunCommand.execute reads back the environment of every node before scheduling. Two-run histories on all DAGs <= 3 tasks at the scheduler level, and `valjean run` 2-3 times on small jobs at the command level, run natively as the labelled bounded stand-ins.')
ASSUMPTIONS = su.ASSUMPTIONS
TRUSTED = su.TRUSTED
UNITS = 'decide decide_waiting last_end_time enqueue worker master schedule scheduler_init backend_init og independence env_locks merge_done dg_add_node dg_add_dependency dg_remove_node dg_flatten dg_histories env_conformance native_rerun native_sweep build_graphs run_command read_env native_command'.split()


def units(tier):
    return list(UNITS)


def _replay_command(name, inp):
    from . import rerun_cli_native as rc
    return rc.replay(inp if inp and 'job' in inp else None)


def run_unit(unit, tier, seed, known):
    if unit == 'build_graphs':
        from . import graphs_units as gu
        return gu.unit_build_graphs(tier, ID, _replay_command)
    if unit == 'run_command':
        # RunCommand.execute reads back the environment of every node of the hard graph and schedules what it read (contract shared with C14)
        from . import C14
        from pyvc.verify import verify_function
        from pyvc import prop
        res = verify_function(C14.exec_world(), C14.c_execute(), setup=C14.exec_setup, extra_check=C14.exec_check)
        return {'functions': [prop.discharge(res, tier, ID, lambda m, r: {'note': 'see model text'}, _replay_command)]}
    if unit == 'read_env':
        from . import env_units
        return env_units.unit_read_env(tier, ID, _replay_command)
    if unit == 'native_command':
        from . import rerun_cli_native as rc
        return {'bounded': [rc.sweep(tier, seed)]}
    return sp.run_unit(ID, unit, tier, seed, known)


def replay(name, inp):
    if inp and 'job' in inp:
        return _replay_command(name, inp)
    return sp.replay(name, inp)
