'''Native bounded stand-in for C10 (labelled bounded): listings with KNOWN numbers.

The shipped Tripoli-4 listings are re-written: every energy-group line of every spectrum table ("E1 - E2 <tab> score <tab> sigma% ...") and every
"number of batches used: N <tab> score <tab> sigma%" line gets fresh, pairwise distinct numbers (either sign), and -- second variant -- the
lines of every table are printed in the reverse order.  The re-written listing is parsed with the real Parser and every number is looked up:
value == printed score, error == score * sigma% / 100, energy bin == the printed boundaries in increasing order, under the response and scoring zone
(response_index / score_index) under which the line was printed.'''
import glob
import os
import re
import tempfile

F = r'[-+]?\d\.\d+e[-+]\d+'
GROUP = re.compile(rf'^({F}) - ({F})\t({F})\t({F})(\t.*)?$')
MESH = re.compile(rf'^(\t \((\d+),(\d+),(\d+)\)\t )({F})\t({F})\s*$')
ERANGE = re.compile(rf'^Energy range \(in MeV\): ({F}) - ({F})\s*$')
INTEG = re.compile(rf'^(number of batches used: \d+\t)({F})\t({F})\s*$')


def repo_root():
    return os.environ.get('REPO', '/repo')


def listings():
    d = os.path.join(repo_root(), 'tests', 'eponine', 'tripoli4', 'data')
    # Green bands (results per source / step) and perturbation listings store their spectra under other keys and indices: not covered by this oracle
    skip = ('failure', 'missing_vals', 'greenband', 'pertu_')
    return sorted(f for f in glob.glob(os.path.join(d, '*.res*')) if not any(x in os.path.basename(f) for x in skip))


def fmt(x):
    return '%.6e' % x


def rewrite(text, reverse, negatives=True, start=0):
    '''-> (new text); numbers are made distinct: the k-th rewritten line holds score_k, sigma_k'''
    out, k = [], start
    lines = text.split('\n')
    i = 0
    while i < len(lines):
        ln = lines[i]
        m = GROUP.match(ln)
        if m:
            # a table: the maximal run of group lines (blank lines are not part of a run)
            j = i
            run = []
            while j < len(lines) and GROUP.match(lines[j]):
                run.append(lines[j])
                j += 1
            new = []
            for r in run:
                mm = GROUP.match(r)
                k += 1
                score = (1 + k) * 1.000001e-02 * (-1 if negatives and k % 7 == 3 else 1)
                sigma = 0.0 if k % 5 == 0 else 0.5 + (k % 97) * 0.25
                # a table printed in the other direction lists its lines AND the two boundaries of every group the other way round
                e1, e2 = (mm.group(2), mm.group(1)) if reverse else (mm.group(1), mm.group(2))
                new.append(f'{e1} - {e2}\t{fmt(score)}\t{fmt(sigma)}{mm.group(5) or ""}')
            if reverse:
                new.reverse()
            out.extend(new)
            i = j
            continue
        m = INTEG.match(ln)
        if m:
            k += 1
            score = (1 + k) * 1.000001e-02 * (-1 if negatives and k % 7 == 3 else 1)
            sigma = 0.0 if k % 5 == 0 else 0.5 + (k % 97) * 0.25
            out.append(f'{m.group(1)}{fmt(score)}\t{fmt(sigma)}')
            i += 1
            continue
        m = MESH.match(ln)
        if m:
            k += 1
            score = (1 + k) * 1.000001e-02 * (-1 if negatives and k % 7 == 3 else 1)
            sigma = 0.0 if k % 5 == 0 else 0.5 + (k % 97) * 0.25
            out.append(f'{m.group(1)}{fmt(score)}\t{fmt(sigma)}')
            i += 1
            continue
        out.append(ln)
        i += 1
    return '\n'.join(out), k - start


def printed(block):
    '''what a result block prints: {(response_index, score_index): {'groups': [(e_lo, e_hi, score, sigma)], 'integrated': [(score, sigma)]}}'''
    tags = {}
    ri, si = -1, -1
    last_group_score = None
    erange = None
    for ln in block.split('\n'):
        if ln.startswith('RESPONSE FUNCTION :'):
            ri += 1
            si = -1
        elif 'scoring mode :' in ln:
            si += 1
            erange = None
        elif 'ENERGY INTEGRATED RESULTS' in ln:
            erange = None          # what follows is integrated over the energy ranges printed above
        m = GROUP.match(ln)
        if m:
            e1, e2, sc, sg = (float(m.group(n)) for n in (1, 2, 3, 4))
            tags.setdefault((ri, si), {'groups': [], 'integrated': []})['groups'].append((min(e1, e2), max(e1, e2), sc, sg))
            last_group_score = ((ri, si), sc)
            continue
        m = ERANGE.match(ln)
        if m:
            erange = (min(float(m.group(1)), float(m.group(2))), max(float(m.group(1)), float(m.group(2))))
            continue
        m = MESH.match(ln)
        if m:
            tags.setdefault((ri, si), {'groups': [], 'integrated': []}).setdefault('mesh', []).append(
                ((int(m.group(2)), int(m.group(3)), int(m.group(4))), erange, float(m.group(5)), float(m.group(6))))
            continue
        m = INTEG.match(ln)
        if m:
            # the integrated result closes the table printed just before it (same response / zone): remember one score of that table as an anchor
            anchor = last_group_score[1] if last_group_score is not None and last_group_score[0] == (ri, si) else None
            tags.setdefault((ri, si), {'groups': [], 'integrated': []})['integrated'].append((float(m.group(2)), float(m.group(3)), anchor))
    return tags


def check_edition(res, block):
    import numpy as np
    from valjean.eponine.dataset import Dataset
    probs, nchecked, known = [], 0, []
    tags = printed(block)
    items = {}
    for it in res.get('list_responses', []):
        items.setdefault((it.get('response_index'), it.get('score_index')), []).append(it)
    for key, pr in sorted(tags.items()):
        its = items.get(key)
        if not its:
            if pr['groups']:
                probs.append(f'no parsed response for response_index, score_index = {key} although {len(pr["groups"])} group line(s) are printed there')
            continue
        # every 7-d dataset with energy bins of that response / zone (a response may hold a mesh and a spectrum)
        dss = [d for it in its if isinstance(it.get('results'), dict) for d in it['results'].values()
               if isinstance(d, Dataset) and d.value.ndim == 7 and 'e' in d.bins and not np.all(np.isnan(d.error))]
        elsewhere = [d for k2, its2 in items.items() if k2 != key for it in its2 if isinstance(it.get('results'), dict) for d in it['results'].values()
                     if isinstance(d, Dataset) and d.value.ndim == 7]
        hit_count = {}
        for (lo, hi, sc, sg) in pr['groups']:
            nchecked += 1
            hits = []
            for d in dss:
                for idx in zip(*np.where(d.value == sc)):
                    hits.append((d, idx))
            if not hits and any(d.value.shape[0] * d.value.shape[1] * d.value.shape[2] > 1 for d in dss):
                # recorded known finding: ParseResult._make_datasets skips the spectrum of a response that also holds a mesh
                known.append(f'{key}: group {lo!r} - {hi!r}')
                continue
            if len(hits) != 1:
                other = sum(int(np.count_nonzero(d.value == sc)) for d in elsewhere)
                probs.append(f'{key}: the score {sc!r} printed for the group {lo!r} - {hi!r} is found {len(hits)} time(s) in the results of that response / zone'
                             + (f' and {other} time(s) under another response / zone' if other else ''))
                continue
            d, idx = hits[0]
            hit_count[id(d)] = hit_count.get(id(d), 0) + 1
            err = d.error[idx]
            if not np.isclose(err, sc * sg * 0.01, rtol=1e-12, atol=0.0):
                probs.append(f'{key}: error {err!r} for score {sc!r} with sigma {sg!r} %: expected {sc * sg * 0.01!r}')
            eb = d.bins['e']
            ie = idx[3]
            if not (len(eb) == d.value.shape[3] + 1 and eb[ie] == lo and eb[ie + 1] == hi):
                got = (eb[ie], eb[ie + 1]) if len(eb) == d.value.shape[3] + 1 else tuple(eb)
                probs.append(f'{key}: the score printed for the group {lo!r} - {hi!r} is attached to the energy bin {got!r}')
            if np.any(np.diff(eb) <= 0):
                probs.append(f'{key}: energy bins are not increasing: {eb.tolist()[:6]}')
        for d in dss:
            if id(d) in hit_count:
                ncells = int(np.count_nonzero(~np.isnan(d.value)))
                if ncells != hit_count[id(d)]:
                    probs.append(f'{key}: {hit_count[id(d)]} printed group line(s) were read into a spectrum of {ncells} filled cell(s)')
        for (cell, er, sc, sg) in pr.get('mesh', []):
            nchecked += 1
            hits = [(d, idx) for d in dss for idx in zip(*np.where(d.value == sc))]
            if len(hits) != 1:
                probs.append(f'{key}: the tally {sc!r} printed for the mesh cell {cell} is found {len(hits)} time(s) in the results of that response / zone')
                continue
            d, idx = hits[0]
            if not np.isclose(d.error[idx], sc * sg * 0.01, rtol=1e-12, atol=0.0):
                probs.append(f'{key}: mesh cell {cell}: error {d.error[idx]!r} for tally {sc!r} with sigma {sg!r} %')
            if tuple(int(x) for x in idx[:3]) != cell:
                probs.append(f'{key}: the tally printed for the mesh cell {cell} is attached to the cell {tuple(int(x) for x in idx[:3])}')
            eb = d.bins.get('e')
            if er is not None and eb is not None and len(eb) == d.value.shape[3] + 1 and not (eb[idx[3]] == er[0] and eb[idx[3] + 1] == er[1]):
                probs.append(f'{key}: the tally of the mesh cell {cell} printed under the energy range {er} is attached to the energy bin {(eb[idx[3]], eb[idx[3] + 1])}')
            if len(probs) > 6:
                break
        for (sc, sg, anchor) in pr['integrated']:
            nchecked += 1
            cands = [d for it in its if isinstance(it.get('results'), dict) for k3, d in it['results'].items() if isinstance(d, Dataset) and 'integrated' in k3]
            if not cands:
                continue          # layouts whose integrated results are stored otherwise (time steps): not covered
            ok = [d for d in cands if int(np.count_nonzero(d.value == sc)) == 1]
            if len(ok) != 1:
                probs.append(f'{key}: the integrated score {sc!r} is found {len(ok)} time(s) as score_integrated of that response / zone ({[np.ravel(d.value).tolist() for d in cands][:3]})')
            elif not np.isclose(float(ok[0].error[ok[0].value == sc][0]), sc * sg * 0.01, rtol=1e-12, atol=0.0):
                probs.append(f'{key}: integrated error {float(ok[0].error[ok[0].value == sc][0])!r} for score {sc!r}, sigma {sg!r} %')
            elif anchor is not None and ok[0].value.ndim == 7:
                # the integrated result of a time / angle step sits on the bin of the table it closes (every dimension but the energy)
                pos_i = tuple(int(x[0]) for x in np.where(ok[0].value == sc))
                where = [(d, tuple(int(x[0]) for x in np.where(d.value == anchor))) for d in dss if int(np.count_nonzero(d.value == anchor)) == 1]
                if where:
                    d, pos_a = where[0]
                    for dim in (0, 1, 2, 4, 5, 6):
                        if ok[0].value.shape[dim] > 1 and d.value.shape[dim] == ok[0].value.shape[dim] and pos_i[dim] != pos_a[dim]:
                            names = list(d.bins)
                            probs.append(f'{key}: the integrated result {sc!r} printed after the table of bin {pos_a[dim]} along {names[dim]!r} is attached to bin {pos_i[dim]}')
                            break
        if len(probs) > 6:
            break
    return probs, nchecked, known


def one_listing(args):
    import logging
    import warnings
    import sys
    path, reverse, start = args
    logging.disable(logging.CRITICAL)
    warnings.filterwarnings('ignore')
    sys.setrecursionlimit(max(sys.getrecursionlimit(), 3000))
    from valjean.eponine.tripoli4.parse import Parser, ParserException
    text = open(path, encoding='utf-8', errors='ignore').read()
    new, k = rewrite(text, reverse, start=start)
    inp = {'listing': os.path.relpath(path, repo_root()), 'tables_printed_in_reverse_order': reverse, 'rewritten_lines': k, 'first_number_index': start}
    if k == 0:
        return 0, [], []
    fails, n, known_seen = [], 0, []
    with tempfile.TemporaryDirectory(prefix='c10_', dir='/var/tmp') as td:
        tmp = os.path.join(td, os.path.basename(path))
        with open(tmp, 'w', encoding='utf-8') as f:
            f.write(new)
        try:
            p = Parser(tmp)
            batches = p.batch_numbers()
        except ParserException as e:
            return 1, [{'input': inp, 'observed': f'the re-written listing does not scan: {e}', 'expected': 'same layout, other numbers: parses'}], []
        # the requested edition is the one returned, whether it is asked for by batch number or by (positive or negative) index
        if len(batches) > 1:
            for idx in range(-len(batches), len(batches)):
                n += 1
                try:
                    r = p.parse_from_index(idx)
                except ParserException as e:
                    fails.append({'input': dict(inp, edition_index=idx), 'observed': f'parse_from_index({idx}) raised {e}', 'expected': f'edition {batches[idx]}'})
                    continue
                got = r.res.get('batch_data', {}).get('batch_number')
                ebn = r.res.get('batch_data', {}).get('edition_batch_number', got)
                if got != batches[idx] or ebn != batches[idx]:
                    fails.append({'input': dict(inp, edition_index=idx), 'observed': f'parse_from_index({idx}) returned the edition of batch {got} (printed edition number {ebn})',
                                  'expected': f'the edition of batch {batches[idx]} ({batches})'})
                    break
        for b in batches:
            try:
                r = p.parse_from_number(b)
            except ParserException as e:
                fails.append({'input': dict(inp, edition=b), 'observed': f'the re-written listing does not parse: {e}', 'expected': 'same layout, other numbers: parses'})
                continue
            probs, nc, kn = check_edition(r.res, p.scan_res[b])
            n += nc
            if kn:
                known_seen.append(dict(inp, edition=b, lines=kn[:2]))
            if probs:
                fails.append({'input': dict(inp, edition=b), 'observed': probs[:4], 'expected': 'every printed number read back where it was printed'})
    return n, fails, known_seen


def sweep(tier, seed):
    from concurrent.futures import ProcessPoolExecutor
    files = listings()
    starts = (0,) if tier == 'quick' else (0, 1, 2, 3, 4, 5, 6, 1000, 123456)      # other starts move the negative scores and the sigma values to other lines
    jobs = [(p, rev, st + 7 * (seed % 5)) for p in files for rev in (False, True) for st in starts]
    n, fails, known_seen = 0, [], []
    with ProcessPoolExecutor(max_workers=min(16, os.cpu_count() or 4)) as ex:
        for cnt, fl, ks in ex.map(one_listing, jobs):
            n += cnt
            fails.extend(fl)
            known_seen.extend(ks)
    return {'name': 'rewritten-listings-native', 'evaluations': n, 'distinct': n, 'failures': fails[:10], 'exhaustive': False, 'known_seen_inputs': known_seen[:3],
            'bound': f'{len(files)} shipped listings that parse; every energy-group line, every mesh-cell line and every "number of batches used" line re-written with pairwise distinct scores of either sign '
                     '(no zero score) and sigma% in 0.5 .. 24.5, every fifth one exactly 0' + ('' if tier == 'quick' else ', 9 number sequences') + '; tables as printed and with the order of their lines reversed; every edition parsed; every re-written number looked up '
                     '(value, error = value * sigma% / 100, energy bin = printed boundaries / energy range, mesh cell indices, response_index / score_index of the place of printing); keff, '
                     'perturbation, Green bands and other layouts, and Apollo3 HDF5 files are NOT covered',
            'samples': [{'listing': 'tests/eponine/tripoli4/data/vov.d.res.ceav5', 'tables_printed_in_reverse_order': True}]}


def replay(inp):
    path = os.path.join(repo_root(), inp['listing'])
    n, fails, _ = one_listing((path, bool(inp.get('tables_printed_in_reverse_order')), int(inp.get('first_number_index', 0))))
    return {'reproduced': bool(fails), 'observed': [f['observed'] for f in fails[:2]]}


if __name__ == '__main__':
    import json
    import sys
    sys.path.insert(0, repo_root())
    out = sweep('quick', 0)
    print(out['evaluations'], len(out['failures']))
    for f in out['failures']:
        print(json.dumps(f)[:900])
