'''C01 -- scheduler property; units shared with the other scheduler properties (contracts/sched_units.py).'''
from . import sched_units as su
from . import sched_props as sp

ID = 'C01'
LEVEL = 'proof'
EXPLANATION = ('A task starts only after its dependencies are final and published: contracts on decide_new_state / decide_new_state_waiting / _enqueue (loop invariant: every task put in the queue is PENDING with all dependencies final) and on one iteration of WorkerThread.run (trace of atomic Env actions: update and clocks applied before the status is published), generated from the real AST; an Owicki-Gries invariant over those contracts (sched_og.py) is discharged by z3 for every action of master and workers, for any number of workers. The Env methods themselves are assumed contracts (structural lock obligations + exhaustive single-entry conformance); a settrace preemption sweep and a native scheduler sweep run as labelled bounded stand-ins.')
ASSUMPTIONS = su.ASSUMPTIONS
TRUSTED = su.TRUSTED
UNITS = 'decide decide_waiting last_end_time enqueue worker master schedule scheduler_init backend_init og independence env_locks merge_done dg_add_node dg_add_dependency dg_remove_node dg_flatten dg_histories env_conformance native_park native_sweep'.split()


def units(tier):
    return list(UNITS)


def run_unit(unit, tier, seed, known):
    return sp.run_unit(ID, unit, tier, seed, known)


def replay(name, inp):
    return sp.replay(name, inp)
