'''Contracts on valjean/cosette/env.py used by C04 and C14: merge_done_tasks, from_file, to_file.'''
import ast
import z3

from pyvc import prop, theory as th
from pyvc.values import SV, SObj, SClass, SNamespace, SFunc, T, INT, BOOL, STR, Undecided, lift, coerce, zsort, map_dom, map_val
from pyvc.engine import Contract, LoopSpec
from pyvc.verify import World, ClassModel, verify_function
from pyvc.libspec import SMapItems

ENVF = 'valjean/cosette/env.py'
TASKF = 'valjean/cosette/task.py'
ENTRY = 'Map[Str,Enum:TaskStatus]'
DICT = f'Map[Ref:Name,{ENTRY}]'


class EnvDict(ClassModel):
    '''Env as the mapping it wraps.  Entries are maps from key strings to values; only the value under 'status' is
    ever inspected by the functions under contract here, so every value is given the sort of a status (abstraction by
    parametricity: the code cannot tell the difference; stated in the evidence).'''
    name = 'Env'
    fields = {'dictionary': DICT}

    def m_items(self, I, env):
        return SMapItems(I.getfield(env, 'dictionary'), 'items')

    def m___setitem__(self, I, env, key, value):
        d = I.getfield(env, 'dictionary')
        I.setfield(env, 'dictionary', I.world.lib.store(I, d, key, value))
        return None

    def m___getitem__(self, I, env, key):
        return I.world.lib.getitem(I, I.getfield(env, 'dictionary'), key)

    def m___contains__(self, I, env, key):
        return I.world.lib.contains(I, I.getfield(env, 'dictionary'), key)


def make_world():
    w = World()
    w.enum('TaskStatus', TASKF, ordered=False)
    w.globals['LOGGER'] = SNamespace('LOGGER', dropped=True)
    w.class_models['Env'] = EnvDict(w)
    w.globals['Names'] = SV(T('Set', T('Ref', 'Name')), z3.K(zsort(T('Ref', 'Name')), z3.BoolVal(True)))
    return w


DONE_IN = "k in {dom} and other.dictionary[k]['status'] == TaskStatus.DONE"


def c_merge_done():
    merged = ('all(implies(' + DONE_IN + ', k in self.dictionary and same(self.dictionary[k], old(other.dictionary)[k])) for k in Names)')
    kept = ('all(implies(not (' + DONE_IN + '), (k in self.dictionary) == (k in old(self.dictionary)) and '
            'implies(k in old(self.dictionary), same(self.dictionary[k], old(self.dictionary)[k]))) for k in Names)')
    other_same = 'same(other.dictionary, old(other.dictionary))'
    return Contract(
        ENVF, 'Env.merge_done_tasks', params={'self': 'Obj:Env', 'other': 'Obj:Env'},
        requires=["all('status' in other.dictionary[k] for k in other.dictionary)"],
        ensures=[('C04-C14-exactly-the-DONE-entries-are-merged', merged.format(dom='other.dictionary')),
                 ('C14-nothing-else-changes', kept.format(dom='other.dictionary')),
                 ('other-unchanged', other_same)],
        signals={},
        loops={0: LoopSpec('for (task_name, status) in other.items()',
                           [merged.format(dom='done'), kept.format(dom='done'), other_same],
                           vars={'self.dictionary': DICT})})


def replay_merge(name, inp):
    '''native oracle: merge_done_tasks on all small pairs of environments'''
    import itertools
    from valjean.cosette.env import Env
    from valjean.cosette.task import TaskStatus
    ents = [None] + [{'status': s, 'v': i} for i, s in enumerate(TaskStatus)]
    for a0, a1, b0, b1 in itertools.product(ents, repeat=4):
        mine = Env({k: dict(v) for k, v in (('x', a0), ('y', a1)) if v is not None})
        other = Env({k: dict(v) for k, v in (('x', b0), ('y', b1)) if v is not None})
        before, obefore = {k: dict(v) for k, v in mine.items()}, {k: dict(v) for k, v in other.items()}
        try:
            mine.merge_done_tasks(other)
        except Exception as e:       # noqa
            return {'reproduced': True, 'observed': repr(e), 'expected': 'no exception', 'input_found': {'self': before, 'other': obefore}}
        want = dict(before)
        for k, v in obefore.items():
            if v['status'] == TaskStatus.DONE:
                want[k] = v
        if {k: dict(v) for k, v in mine.items()} != want or {k: dict(v) for k, v in other.items()} != obefore:
            return {'reproduced': True, 'observed': repr(dict(mine.items())), 'expected': repr(want), 'input_found': {'self': repr(before), 'other': repr(obefore)}}
    return {'reproduced': False, 'note': 'all pairs of environments over 2 names x 6 entries agree with the specification'}


def unit_merge_done(tier, pid):
    w = make_world()
    res = verify_function(w, c_merge_done())
    return {'functions': [prop.discharge(res, tier, pid, lambda m, r: {'note': 'see model text'}, replay_merge)],
            'assumptions': ["Env entries are modelled as maps whose values all have the sort of a status: merge_done_tasks inspects only entry['status'] "
                            '(parametricity abstraction)']}


# ---------------------------------------------------------------------------------------
# C14: Env.from_file / Env.to_file / read_env / write_env
COMMONF = 'valjean/cambronne/common.py'
PICKLE_RAISES = ('EOFError', 'UnpicklingError', 'ValueError', 'AttributeError', 'ImportError', 'IndexError', 'MemoryError', 'SomeOtherException')


def ev(I, *e):
    I.trace.append(e)


class PathModel(ClassModel):
    '''pathlib.Path as the string it denotes (assumed: str(Path(a) / b / c) == a + "/" + b + "/" + c up to normalisation)'''
    name = 'Path'
    fields = {}

    def m___truediv__(self, I, p, other):
        o = other if isinstance(other, SV) else lift(other)
        if o.typ.kind == 'Opt':
            from pyvc.values import opt_is_none, opt_get
            I.require(z3.Not(opt_is_none(o)), 'TypeError', 'Path / None')
            o = opt_get(o)
        if o.typ.kind != 'Str':
            o = I.world.lib.b_str(I, o)
        return I.alloc('Path', {'s': SV(STR, z3.Concat(I.getfield(p, 's').t, z3.StringVal('/'), o.t))})

    # questions about the file system: its state is not part of the program state under contract -- any answer (a fresh boolean per question)
    def _fs_question(self, I, p, what):
        return SV(BOOL, z3.Bool(I.path.name(f'fs_{what}')))

    def m_is_dir(self, I, p):
        return self._fs_question(I, p, 'is_dir')

    def m_is_file(self, I, p):
        return self._fs_question(I, p, 'is_file')

    def m_exists(self, I, p):
        return self._fs_question(I, p, 'exists')

    def p_parent(self, I, p):
        return I.alloc('Path', {'s': SV(STR, z3.String(I.path.name('parent_of_path')))})

    def p_name(self, I, p):
        return SV(STR, z3.String(I.path.name('name_of_path')))


def make_file_world(entry_val='Enum:TaskStatus'):
    w = make_world()
    w.exc_parents.update({'UnpicklingError': 'Exception', 'PicklingError': 'Exception', 'SomeOtherException': 'Exception', 'EOFError': 'Exception',
                          'MemoryError': 'Exception', 'ImportError': 'Exception', 'FileNotFoundError': 'OSError'})
    w.globals['Env'] = SClass('Env')
    w.class_models['Path'] = PathModel(w)
    w.globals['Path'] = SClass('Path')

    def new_path(I, args, kwargs):
        (x,) = args
        x = x if isinstance(x, SV) else lift(x)
        if x.typ.kind != 'Str':
            x = I.world.lib.b_str(I, x)
        return I.alloc('Path', {'s': x})
    w.construct_hooks['Path'] = new_path
    lib_str = w.lib.b_str

    def b_str(I, x=''):
        if isinstance(x, SObj) and x.cls == 'Path':
            return I.getfield(x, 's')
        return lib_str(I, x)
    w.lib.b_str = b_str

    def pickle_load(I, f):
        '''contract of pickle.load (Python documentation): returns the object, or raises -- UnpicklingError, and "other exceptions may also
        be raised during unpickling, including (but not necessarily limited to) AttributeError, EOFError, ImportError, and IndexError"'''
        ev(I, 'pickle.load', f)
        for exc in PICKLE_RAISES:
            if I.path.cond(z3.Bool(I.path.name('load_raises_' + exc))):
                I.raise_(exc)
        if I.path.cond(z3.Bool(I.path.name('unpickled_is_an_Env'))):
            return w.class_models['Env'].fresh(I, 'unpickled')
        return I.alloc('ForeignObject', {})

    def pickle_dump(I, obj, f):
        ev(I, 'pickle.dump', obj, f)
        return None
    w.globals['pickle'] = SNamespace('pickle', {'load': pickle_load, 'dump': pickle_dump})

    def open_file(I, node, scope):
        args = [I.eval(a, scope) for a in node.args]
        ev(I, 'open', args[0], args[1] if len(args) > 1 else 'r')
        if I.path.cond(z3.Bool(I.path.name('open_fails'))):
            I.raise_('FileNotFoundError' if I.path.cond(z3.Bool(I.path.name('missing'))) else 'OSError')
        fobj = I.alloc('File', {'path': args[0], 'mode': args[1] if len(args) > 1 else 'r'})
        return ('file', fobj)
    w.open_file = open_file

    def new_env(I, args, kwargs):
        if not args:
            d = w.lib.empty_of(I, parse_type_(DICT))
            return I.alloc('Env', {'dictionary': d})
        (src,) = args
        if isinstance(src, dict):
            d = w.lib.empty_of(I, parse_type_(DICT))
            e = I.alloc('Env', {'dictionary': d})
            for k, v in src.items():
                w.class_models['Env'].m___setitem__(I, e, k, v)
            return e
        raise Undecided('Env(...) of a symbolic mapping')
    w.construct_hooks['Env'] = new_env
    return w


def parse_type_(s):
    from pyvc.values import parse_type
    return parse_type(s)


def c_from_file():
    return Contract(ENVF, 'Env.from_file', params={'cls': 'Class:Env', 'path': 'Str', 'fmt': 'Str'},
                    ensures=[('C14-an-environment-or-nothing', 'result is None or isinstance(result, Env)')],
                    signals={})       # C14: nothing escapes, whatever the file holds


def file_setup(I, scope):
    I.trace = []


def c_to_file(whole):
    return Contract(ENVF, 'Env.to_file', params={'self': 'Obj:Env', 'path': 'Str', 'task_name': 'None' if whole else 'Ref:Name', 'fmt': 'Str'},
                    requires=[] if whole else ['task_name in self.dictionary'], signals={}, variant='whole-env' if whole else 'one-task')


def to_file_check(I, scope, outcome):
    p = I.path
    whole = scope.lookup('task_name') is None if not isinstance(scope.lookup('task_name'), SV) else False
    L = f"{ENVF}::Env.to_file[{'whole-env' if whole else 'one-task'}]"
    if outcome[0] != 'return':
        return
    opens = [e for e in I.trace if e[0] == 'open']
    dumps = [e for e in I.trace if e[0] == 'pickle.dump']
    me = scope.lookup('self')
    p.oblige(f'{L}::post::opens-the-destination-for-writing-once', len(opens) == 1 and opens[0][2] == 'wb' and opens[0][1] is scope.lookup('path'), kind='post',
             meta={'expr': "exactly one open(path, 'wb')"})
    p.oblige(f'{L}::post::at-most-one-dump', len(dumps) <= 1, kind='post', meta={'expr': 'pickle.dump is called at most once'})
    if len(dumps) == 1:
        obj = dumps[0][1]
        if whole:
            ok = obj is me
            p.oblige(f'{L}::post::dumps-the-whole-environment', bool(ok), kind='post', meta={'expr': 'the dumped object is self'})
        else:
            name = scope.lookup('task_name')
            sc = Scope_(None, {'dumped': obj, 'self': me, 'task_name': name})
            t = I.spec('isinstance(dumped, Env) and all((k in dumped.dictionary) == (k is task_name) for k in Names) '
                       'and same(dumped.dictionary[task_name], old(self.dictionary)[task_name])', sc)
            p.oblige(f'{L}::post::C14-dumps-exactly-the-entry-of-the-task', t, kind='post',
                     meta={'expr': 'the dumped object is an Env holding exactly {task_name: self[task_name]}'})
        p.oblige(f'{L}::post::dump-goes-to-the-opened-file', isinstance(dumps[0][2], SObj) and dumps[0][2].cls == 'File', kind='post',
                 meta={'expr': 'pickle.dump writes into the file opened on path'})
    p.oblige(f'{L}::frame::environment-untouched', I.spec('same(self.dictionary, old(self.dictionary))', scope), kind='frame',
             meta={'expr': 'to_file does not modify the environment'})


def Scope_(parent, vars):
    from pyvc.engine import Scope
    return Scope(parent, vars)


def c_read_env():
    only_done = "all(env.dictionary[k]['status'] == TaskStatus.DONE for k in env.dictionary)"

    def from_file_result(I, base):
        # contract of Env.from_file as verified by unit from_file: None, or an Env (whose entries carry a status: A-env-entries)
        if I.path.cond(z3.Bool(I.path.name('file_unreadable'))):
            return None
        e = I.world.class_models['Env'].fresh(I, base)
        I.path.assume(I.spec("all('status' in e.dictionary[k] for k in e.dictionary)", Scope_(None, {'e': e})))
        return e
    c_ff = Contract(ENVF, 'Env.from_file', params={'cls': 'Class:Env', 'path': 'Str', 'fmt': 'Str'}, returns=from_file_result, signals={})
    # ghost counter: every name of the list is looked at (no early exit from the loop); per name: its file is read once and, when readable, merged once (trace, below)
    c = Contract(COMMONF, 'read_env', params={'root': 'Str', 'names': 'Seq[Str]', 'filename': 'Opt[Str]', 'fmt': 'Str'},
                 ensures=[('C14-only-DONE-entries-are-reported', only_done.replace('env.', 'result.')), ('returns-an-environment', 'isinstance(result, Env)'),
                          ('C04-C14-the-environment-of-every-listed-task-is-looked-for', 'filename is None or ghost_visited == len(names)')],
                 signals={},
                 loops={0: LoopSpec('for task_name in names', [only_done, 'ghost_visited == done'], vars={'env.dictionary': DICT, 'ghost_visited': 'Int'},
                                    ghost_names={'ghost_visited'}, ghost_init=['ghost_visited = 0'], ghost_step=['ghost_visited = ghost_visited + 1'])})
    return c, c_ff


def read_env_setup(I, scope):
    file_setup(I, scope)
    scope.set('ghost_visited', SV(INT, z3.IntVal(0)))
    I.trace = getattr(I, 'trace', None) or []


def read_env_step(I, scope, ordinal):
    '''one iteration of `for task_name in names`: Env.from_file is called once, on root/task_name/filename, and a readable result is merged once'''
    p = I.path
    L = f'{COMMONF}::read_env'
    calls = [e for e in I.calls_seen if e[0] == 'Env.from_file']
    merges = [e for e in I.calls_seen if e[0] == 'Env.merge_done_tasks']
    p.oblige(f'{L}::inv-step::C04-C14-the-file-of-the-task-is-read-once', len(calls) == 1, kind='inv-step', meta={'expr': f'one Env.from_file per listed task (calls: {len(calls)})'})
    if len(calls) == 1:
        res = calls[0][1]
        p.oblige(f'{L}::inv-step::C04-C14-a-readable-environment-is-merged-once', (len(merges) == 1 and merges[0][2] is res) if res is not None else len(merges) == 0, kind='inv-step',
                 meta={'expr': 'env.merge_done_tasks(persisted_env) exactly when from_file returned an environment'})


def unit_from_file(tier, pid):
    w = make_file_world()
    res = verify_function(w, c_from_file(), setup=file_setup)
    return {'functions': [prop.discharge(res, tier, pid, _conc_pickle, _replay_persist)],
            'assumptions': ['pickle.load signals any Exception subclass (Python documentation), returns an arbitrary object otherwise; open() signals OSError']}


def unit_to_file(tier, pid):
    out = []
    for whole in (True, False):
        w = make_file_world()
        res = verify_function(w, c_to_file(whole), setup=file_setup, extra_check=to_file_check)
        out.append(prop.discharge(res, tier, pid, _conc_pickle, _replay_persist))
    return {'functions': out, 'assumptions': ['pickle.dump does not raise for picklable payloads (the property quantifies over picklable payloads)']}


def unit_read_env(tier, pid, replay=None):
    w = make_file_world()
    c, c_ff = c_read_env()
    w.add(c_ff)
    cm = c_merge_done()
    cm.modifies = ['self.dictionary']
    w.add(cm)
    def setup(I, scope):
        read_env_setup(I, scope)
        I.calls_seen = []
        orig = I.apply_contract

        def apply_contract(cc, args, kwargs, recv=None, node=None):
            out = orig(cc, args, kwargs, recv=recv, node=node)
            I.calls_seen.append((cc.qual, out, (args[0] if args else None)))
            return out
        I.apply_contract = apply_contract

    def stmt_hook(I, st, scope):
        # the calls of one iteration: the list is emptied when the first statement of the loop body starts
        if isinstance(st, ast.Assign) and any(isinstance(t, ast.Name) and t.id == 'task_file' for t in st.targets):
            I.calls_seen = []
    res = verify_function(w, c, setup=setup, hooks={'step-end': read_env_step, 'stmt': stmt_hook})
    return {'functions': [prop.discharge(res, tier, pid, _conc_pickle, replay or _replay_persist)],
            'assumptions': ['A-env-entries: every entry of a persisted Env carries a status key (entries are written by Env.set_status / the scheduler)']}


def _conc_pickle(model, res):
    out = {}
    for d in model.decls():
        n = d.name()
        if n.startswith(('load_raises_', 'unpickled_is', 'open_fails', 'missing', 'file_unreadable')) and z3.is_true(model[d]):
            out[n.split('!')[0]] = True
    return out


def _replay_persist(name, inp):
    from . import persist_native as pn
    out = pn.sweep('quick', 0)
    if out['failures']:
        fl = out['failures'][0]
        return {'reproduced': True, 'observed': fl['observed'], 'input_found': fl['input'], 'by': 'native persisted-environments sweep'}
    return {'reproduced': False, 'note': 'native sweep found no failing input'}


# ---------------------------------------------------------------------------------------
# write_env: one iteration over env.items()
ENTRY2 = 'Map[Str,Ref:Val]'
DICT2 = f'Map[Ref:Name,{ENTRY2}]'


class EnvDict2(EnvDict):
    fields = {'dictionary': DICT2}

    def m_to_file(self, I, env, path, *, task_name=None, fmt='pickle'):
        ev(I, 'to_file', path, task_name)
        return None


def c_write_env():
    return Contract(COMMONF, 'write_env', params={'env': 'Obj:Env', 'filename': 'Opt[Str]', 'fmt': 'Str'}, signals={},
                    loops={0: LoopSpec('for (task_name, subenv) in env.items()', ['same(env.dictionary, old(env.dictionary))'],
                                       vars={'written_files': 'Seq[Str]', 'task_file': 'Str'})})


def write_env_step(I, scope, ordinal):
    p = I.path
    L = f'{COMMONF}::write_env'
    calls = [e for e in I.trace if e[0] == 'to_file']
    sub = scope.lookup('subenv')
    name = scope.lookup('task_name')
    has_dir = I.spec("'output_dir' in subenv", scope)
    if len(calls) == 0:
        p.oblige(f'{L}::inv-step::C14-every-entry-with-an-output-dir-is-written-whatever-its-status', z3.Not(has_dir), kind='inv-step',
                 meta={'expr': "an entry is skipped only when it has no 'output_dir' (a FAILED entry must overwrite the file of an earlier DONE one)"})
        return
    p.oblige(f'{L}::inv-step::C14-one-file-per-entry', len(calls) == 1, kind='inv-step', meta={'expr': 'at most one to_file per entry'})
    path, tname = calls[0][1], calls[0][2]
    p.oblige(f'{L}::inv-step::C14-only-entries-with-an-output-dir-are-written', has_dir, kind='inv-step', meta={'expr': "to_file only for entries with 'output_dir'"})
    p.oblige(f'{L}::inv-step::C14-the-file-holds-the-entry-of-that-task', isinstance(tname, SV) and tname.t.eq(name.t), kind='inv-step',
             meta={'expr': 'to_file(..., task_name=task_name)'})
    fname = scope.lookup('filename')
    from pyvc.values import opt_get
    od = I.world.lib.b_str(I, SV(parse_type_('Ref:Val'), map_val(sub)[z3.StringVal('output_dir')]))
    want = z3.Concat(od.t, z3.StringVal('/'), opt_get(fname).t)
    p.oblige(f'{L}::inv-step::C14-the-file-is-output_dir-slash-filename', isinstance(path, SV) and path.t == want, kind='inv-step',
             meta={'expr': "the file is str(Path(subenv['output_dir']) / filename)"})


def write_env_stmt(I, st, scope):
    # the trace of one iteration starts at the first statement of the loop body
    if isinstance(st, ast.If) and 'output_dir' in ast.unparse(st.test):
        I.trace = []


def unit_write_env(tier, pid):
    w = make_file_world()
    w.class_models['Env'] = EnvDict2(w)
    res = verify_function(w, c_write_env(), setup=file_setup, hooks={'step-end': write_env_step, 'stmt': write_env_stmt})
    return {'functions': [prop.discharge(res, tier, pid, _conc_pickle, _replay_persist)]}
