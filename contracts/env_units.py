'''Contracts on valjean/cosette/env.py used by C04 and C14: merge_done_tasks, from_file, to_file.'''
import ast
import z3

from pyvc import prop, theory as th
from pyvc.values import SV, SObj, SClass, SNamespace, SFunc, T, INT, BOOL, STR, Undecided, lift, coerce, zsort, map_dom, map_val
from pyvc.engine import Contract, LoopSpec
from pyvc.verify import World, ClassModel, verify_function
from pyvc.libspec import SMapItems

ENVF = 'valjean/cosette/env.py'
TASKF = 'valjean/cosette/task.py'
ENTRY = 'Map[Str,Enum:TaskStatus]'
DICT = f'Map[Ref:Name,{ENTRY}]'


class EnvDict(ClassModel):
    '''Env as the mapping it wraps.  Entries are maps from key strings to values; only the value under 'status' is
    ever inspected by the functions under contract here, so every value is given the sort of a status (abstraction by
    parametricity: the code cannot tell the difference; stated in the evidence).'''
    name = 'Env'
    fields = {'dictionary': DICT}

    def m_items(self, I, env):
        return SMapItems(I.getfield(env, 'dictionary'), 'items')

    def m___setitem__(self, I, env, key, value):
        d = I.getfield(env, 'dictionary')
        I.setfield(env, 'dictionary', I.world.lib.store(I, d, key, value))
        return None

    def m___getitem__(self, I, env, key):
        return I.world.lib.getitem(I, I.getfield(env, 'dictionary'), key)

    def m___contains__(self, I, env, key):
        return I.world.lib.contains(I, I.getfield(env, 'dictionary'), key)


def make_world():
    w = World()
    w.enum('TaskStatus', TASKF, ordered=False)
    w.globals['LOGGER'] = SNamespace('LOGGER', dropped=True)
    w.class_models['Env'] = EnvDict(w)
    w.globals['Names'] = SV(T('Set', T('Ref', 'Name')), z3.K(zsort(T('Ref', 'Name')), z3.BoolVal(True)))
    return w


DONE_IN = "k in {dom} and other.dictionary[k]['status'] == TaskStatus.DONE"


def c_merge_done():
    merged = ('all(implies(' + DONE_IN + ', k in self.dictionary and same(self.dictionary[k], old(other.dictionary)[k])) for k in Names)')
    kept = ('all(implies(not (' + DONE_IN + '), (k in self.dictionary) == (k in old(self.dictionary)) and '
            'implies(k in old(self.dictionary), same(self.dictionary[k], old(self.dictionary)[k]))) for k in Names)')
    other_same = 'same(other.dictionary, old(other.dictionary))'
    return Contract(
        ENVF, 'Env.merge_done_tasks', params={'self': 'Obj:Env', 'other': 'Obj:Env'},
        requires=["all('status' in other.dictionary[k] for k in other.dictionary)"],
        ensures=[('C04-C14-exactly-the-DONE-entries-are-merged', merged.format(dom='other.dictionary')),
                 ('C14-nothing-else-changes', kept.format(dom='other.dictionary')),
                 ('other-unchanged', other_same)],
        signals={},
        loops={0: LoopSpec('for (task_name, status) in other.items()',
                           [merged.format(dom='done'), kept.format(dom='done'), other_same],
                           vars={'self.dictionary': DICT})})


def replay_merge(name, inp):
    '''native oracle: merge_done_tasks on all small pairs of environments'''
    import itertools
    from valjean.cosette.env import Env
    from valjean.cosette.task import TaskStatus
    ents = [None] + [{'status': s, 'v': i} for i, s in enumerate(TaskStatus)]
    for a0, a1, b0, b1 in itertools.product(ents, repeat=4):
        mine = Env({k: dict(v) for k, v in (('x', a0), ('y', a1)) if v is not None})
        other = Env({k: dict(v) for k, v in (('x', b0), ('y', b1)) if v is not None})
        before, obefore = {k: dict(v) for k, v in mine.items()}, {k: dict(v) for k, v in other.items()}
        try:
            mine.merge_done_tasks(other)
        except Exception as e:       # noqa
            return {'reproduced': True, 'observed': repr(e), 'expected': 'no exception', 'input_found': {'self': before, 'other': obefore}}
        want = dict(before)
        for k, v in obefore.items():
            if v['status'] == TaskStatus.DONE:
                want[k] = v
        if {k: dict(v) for k, v in mine.items()} != want or {k: dict(v) for k, v in other.items()} != obefore:
            return {'reproduced': True, 'observed': repr(dict(mine.items())), 'expected': repr(want), 'input_found': {'self': repr(before), 'other': repr(obefore)}}
    return {'reproduced': False, 'note': 'all pairs of environments over 2 names x 6 entries agree with the specification'}


def unit_merge_done(tier, pid):
    w = make_world()
    res = verify_function(w, c_merge_done())
    return {'functions': [prop.discharge(res, tier, pid, lambda m, r: {'note': 'see model text'}, replay_merge)],
            'assumptions': ["Env entries are modelled as maps whose values all have the sort of a status: merge_done_tasks inspects only entry['status'] "
                            '(parametricity abstraction)']}
