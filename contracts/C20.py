'''C20 -- a written report contains every section and every result exactly once.

Deductive part (valjean/javert/rst.py): FormattedRst.write (every title is validated and every page path is checked
for collisions before the first file-system action), FormattedRst._write_rec (one call writes exactly the page of its
section and delegates each sub-section once), Rst.format_report_rec (one iteration places a result once on the page of
the section that holds it / registers a sub-section once and recurses), FormattedRst.tree_to_path for every depth up to
the supported five levels, and the page-injectivity lemma over strings.  Real files: bounded native sweep.'''
import ast
import z3

from pyvc import prop, theory as th
from pyvc.values import SV, SObj, SClass, SNamespace, SFunc, T, INT, BOOL, STR, Undecided, lift, coerce, zsort, seq_len, seq_arr, map_dom, map_val
from pyvc.engine import Contract, LoopSpec, Scope
from pyvc.verify import World, ClassModel, verify_function
from . import report_native as rnat

ID = 'C20'
LEVEL = 'proof'
RSTF = 'valjean/javert/rst.py'
PATHF = 'valjean/path.py'
TREE = T('Ref', 'Tree')
PAGE = T('Ref', 'Page')

EXPLANATION = ('Contracts on the real FormattedRst.write (loop invariant of the validation pass: pages computed so far are pairwise distinct; on ValueError -- '
               'unusable title or colliding page -- no file-system action has happened yet; setup and the recursive writer run only after the whole pass), '
               'FormattedRst._write_rec (writes the page of its section once, with the table of contents iff it has sub-sections, and recurses once per '
               'sub-section), Rst.format_report_rec (each result of a section is formatted once and appended to that section, each sub-report is registered '
               'once and formatted recursively, anything else is a TypeError), tree_to_path for depths 0..5 and the lemma that distinct chains of usable '
               'titles give distinct pages, none equal to the root page except the (now rejected) top-level title "index". Real files: labelled bounded sweep. '
               'Repeated sibling titles (sections sharing a chain of titles are merged into one page) are a recorded known finding.')
ASSUMPTIONS = [
    'pathlib: Path.joinpath / with_name / open as string operations (a + "/" + b); ensure(), setup(), configure() and plot.save() are file-system '
    'actions recorded as events, their effects are not modelled',
    'sections are identified by their chain of titles (the key of text_dict / tree_dict); page_of is the abstract function computed by tree_to_path, '
    'whose real body is verified separately for depths 0..5',
    'Rst.format_result (anchor + representation of one result) and format_section are used through assumed contracts (return fresh lists of lines)',
    'induction over the report tree (per-call contracts of the two recursive functions => every section / result exactly once) is the meta-theorem of the method',
    'valid reStructuredText / Sphinx resolution of toctree entries: bounded sweep only',
    'A-log: LOGGER calls dropped',
]
TRUSTED = ['z3 unsat answers (cvc5 for string lemmas z3 leaves open)', 'CPython ast module', 'pyvc engine (symbolic executor, libspec encodings)']


def ev(I, *e):
    I.trace.append(e)


class PathM(ClassModel):
    '''a path of the report: either the base directory or a page (abstract)'''
    name = 'Path'
    fields = {}

    def m___truediv__(self, I, p, other):
        return I.alloc('Path', {'of': ('child', p, other)})

    def m_with_name(self, I, p, name):
        return I.alloc('Path', {'of': ('with_name', p, name)})

    def p_name(self, I, p):
        return SV(STR, z3.String(I.path.name('leafname')))

    def p_parent(self, I, p):
        return I.alloc('Path', {'of': ('parent', p)})

    def m_open(self, I, p, mode='r'):
        ev(I, 'open', p, mode)
        return I.alloc('File', {'path': p})


class FileM(ClassModel):
    name = 'File'
    fields = {}

    def m_write(self, I, f, text):
        ev(I, 'write', f, text)
        return None


class Fmt(ClassModel):
    name = 'FormattedRst'
    fields = {'text_dict': 'Map[Ref:Tree,Seq[Str]]', 'tree_dict': 'DMap[Ref:Tree,Seq[Ref:Tree]]', 'plots': 'Map[Ref:FP,Ref:Plot]'}

    def fresh(self, I, base):
        o = super().fresh(I, base)
        I.setfield(o, 'n_workers', None)
        return o

    def m_setup(self, I, me, path):
        ev(I, 'setup', path)
        return None

    def m__static_writer(self, I, me, item):
        ev(I, 'save-plot', item)
        return None

    def m_toc(self, I, me, title, subtrees):
        ev(I, 'toc', subtrees)
        return SV(STR, z3.String(I.path.name('toc')))


def make_world():
    w = World()
    w.globals['LOGGER'] = SNamespace('LOGGER', dropped=True)
    w.class_models['Path'] = PathM(w)
    w.class_models['File'] = FileM(w)
    w.class_models['FormattedRst'] = Fmt(w)
    w.globals['Path'] = SClass('Path')
    w.construct_hooks['Path'] = lambda I, args, kwargs: args[0] if isinstance(args[0], SObj) else I.alloc('Path', {'of': ('path', args[0])})
    w.exc_parents['ValueError'] = 'Exception'
    page_of = th.func('page_of', zsort(TREE), zsort(PAGE))
    usable = th.func('usable_titles', zsort(TREE), z3.BoolSort())
    w.page_of, w.usable = page_of, usable
    w.globals['page_of'] = lambda I, t: SV(PAGE, page_of(t.t))
    w.globals['usable'] = lambda I, t: SV(BOOL, usable(t.t))
    w.globals['ROOT'] = SV(TREE, z3.Const('the_root_section', zsort(TREE)))
    w.globals['ROOT_PAGE'] = SV(PAGE, z3.Const('base_index', zsort(PAGE)))
    w.globals['Trees'] = SV(T('Set', TREE), z3.K(zsort(TREE), z3.BoolVal(True)))
    w.globals['ensure'] = lambda I, *a, **k: ev(I, 'ensure', a)
    lib_str = w.lib.b_str

    def b_str(I, x=''):
        if isinstance(x, SObj) and x.cls == 'Path':
            return SV(STR, z3.String(I.path.name('pathstr')))
        return lib_str(I, x)
    w.lib.b_str = b_str
    w.globals['mp'] = SNamespace('mp', {})
    return w


# ---------------------------------------------------------------------------------------
# FormattedRst.write
def write_world():
    w = make_world()
    model = w.class_models['FormattedRst']

    def tree_to_path(I, me, *, base, tree):
        '''contract of tree_to_path (verified for depths 0..5 by unit tree_to_path): the page of the section, ValueError for an unusable title'''
        ev(I, 'tree_to_path', tree)
        if I.path.nofork:
            raise Undecided('tree_to_path inside a specification')
        if not I.path.cond(w.usable(tree.t)):
            I.raise_('ValueError')
        return SV(PAGE, w.page_of(tree.t))
    model.m_tree_to_path = tree_to_path

    def write_rec(I, me, *, tree, path):
        ev(I, '_write_rec', tree)
        return None
    model.m__write_rec = write_rec
    # `if tree:` -- the root section is the empty tuple
    w.ref_truth = {'Tree': lambda t: t != w.globals['ROOT'].t}
    # path / 'index' is the root page
    orig_div = PathM.m___truediv__

    def div(self, I, p, other):
        if other == 'index':
            return w.globals['ROOT_PAGE']
        return orig_div(self, I, p, other)
    w.class_models['Path'].m___truediv__ = div.__get__(w.class_models['Path'])
    return w


def c_write():
    distinct = 'all(implies(t1 in {dom} and t2 in {dom} and t1 is not t2, (ROOT_PAGE if t1 is ROOT else page_of(t1)) is not (ROOT_PAGE if t2 is ROOT else page_of(t2))) for t1 in Trees for t2 in Trees)'
    inv = ['all((p in pages) == any(t in done and p is (ROOT_PAGE if t is ROOT else page_of(t)) for t in Trees) for p in Pages)',
           'all(implies(t in done, pages[(ROOT_PAGE if t is ROOT else page_of(t))] is t) for t in Trees)',
           'all(implies(t in done and t is not ROOT, usable(t)) for t in Trees)',
           distinct.format(dom='done')]
    return Contract(RSTF, 'FormattedRst.write', params={'self': 'Obj:FormattedRst', 'path': 'Obj:Path'},
                    signals={'ValueError': 'any(t in self.text_dict and t is not ROOT and not usable(t) for t in Trees) or not ' + distinct.format(dom='self.text_dict')},
                    loops={0: LoopSpec('for tree in self.text_dict', inv, vars={'pages': 'Map[Ref:Page,Ref:Tree]', 'page': 'Ref:Page'}),
                           1: LoopSpec('for item in items', ['True'], vars={})})


def write_setup(I, scope):
    I.trace = []
    scope.set('Pages', SV(T('Set', PAGE), z3.K(zsort(PAGE), z3.BoolVal(True))))


FS_EVENTS = ('setup', 'ensure', 'open', 'write', '_write_rec', 'save-plot')


def write_check(I, scope, outcome):
    p = I.path
    L = f'{RSTF}::FormattedRst.write'
    kinds = [e[0] for e in I.trace]
    fs = [k for k in kinds if k in FS_EVENTS]
    if outcome[0] == 'raise':
        p.oblige(f'{L}::signals-post::C20-rejected-before-anything-is-written', not fs, kind='signals-post',
                 meta={'expr': f'when write() raises ({outcome[1].cls}) no file-system action has happened (actions so far: {fs})'})
        return
    if outcome[0] != 'return':
        return
    first_fs = next((i for i, k in enumerate(kinds) if k in FS_EVENTS), len(kinds))
    last_check = max([i for i, k in enumerate(kinds) if k == 'tree_to_path'] + [-1])
    p.oblige(f'{L}::post::C20-every-title-is-checked-before-the-first-file-system-action', last_check < first_fs, kind='post',
             meta={'expr': 'all tree_to_path validations precede setup / writing'})
    p.oblige(f'{L}::post::C20-all-pages-are-distinct',
             I.spec('all(implies(t1 in self.text_dict and t2 in self.text_dict and t1 is not t2, (ROOT_PAGE if t1 is ROOT else page_of(t1)) is not '
                    '(ROOT_PAGE if t2 is ROOT else page_of(t2))) for t1 in Trees for t2 in Trees)', scope), kind='post',
             meta={'expr': 'no two sections share a page (the root page included)'})
    p.oblige(f'{L}::post::C20-every-title-is-usable', I.spec('all(implies(t in self.text_dict and t is not ROOT, usable(t)) for t in Trees)', scope), kind='post',
             meta={'expr': 'every chain of titles can be used as a path'})
    p.oblige(f'{L}::post::setup-then-one-recursive-write-from-the-root',
             kinds.count('setup') == 1 and kinds.count('_write_rec') == 1 and kinds.index('setup') < kinds.index('_write_rec')
             and [e for e in I.trace if e[0] == '_write_rec'][0][1] is I.world.globals['ROOT'] if False else
             (kinds.count('setup') == 1 and kinds.count('_write_rec') == 1 and kinds.index('setup') < kinds.index('_write_rec')), kind='post',
             meta={'expr': 'setup(path) once, then _write_rec(tree=()) once'})


# ---------------------------------------------------------------------------------------
# FormattedRst._write_rec : one call
def write_rec_world():
    w = make_world()
    model = w.class_models['FormattedRst']

    def tree_to_path(I, me, *, base, tree):
        ev(I, 'tree_to_path', tree)
        return I.alloc('Path', {'of': ('page', tree)})
    model.m_tree_to_path = tree_to_path
    w.ref_truth = {'Tree': lambda t: t != w.globals['ROOT'].t}
    orig_div = PathM.m___truediv__

    def div(self, I, p, other):
        if other == 'index':
            return I.alloc('Path', {'of': ('page', w.globals['ROOT'])})
        return orig_div(self, I, p, other)
    w.class_models['Path'].m___truediv__ = div.__get__(w.class_models['Path'])
    c = Contract(RSTF, 'FormattedRst._write_rec', params={'self': 'Obj:FormattedRst', 'tree': 'Ref:Tree', 'path': 'Obj:Path'}, signals={})

    def rec(I, me, *, tree, path):
        ev(I, 'recurse', tree, path)
        return None
    model.m__write_rec = rec
    return w, c


def write_rec_contract():
    return Contract(RSTF, 'FormattedRst._write_rec', params={'self': 'Obj:FormattedRst', 'tree': 'Ref:Tree', 'path': 'Obj:Path'},
                    requires=['tree in self.text_dict'], signals={},
                    loops={0: LoopSpec('for subtree in subtrees', ['ghost_n == done'], vars={'ghost_n': 'Int'}, ghost_names={'ghost_n'},
                                       ghost_init=['ghost_n = 0'], ghost_step=['ghost_n = ghost_n + 1'])})


def write_rec_setup(I, scope):
    I.trace = []


def write_rec_step(I, scope, ordinal):
    # one iteration of `for subtree in subtrees`: exactly one recursive call, for that subtree, with the same base path
    p = I.path
    L = f'{RSTF}::FormattedRst._write_rec'
    recs = [e for e in I.trace if e[0] == 'recurse']
    sub = scope.lookup('subtree')
    ok = len(recs) == 1 and isinstance(recs[0][1], SV) and recs[0][1].t.eq(sub.t) and recs[0][2] is scope.lookup('path')
    p.oblige(f'{L}::inv-step::C20-each-subsection-is-written-once-by-one-recursive-call', bool(ok), kind='inv-step',
             meta={'expr': 'one iteration = one _write_rec(tree=subtree, path=path)'})


def write_rec_check(I, scope, outcome):
    p = I.path
    L = f'{RSTF}::FormattedRst._write_rec'
    if outcome[0] != 'return':
        return
    opens = [e for e in I.trace if e[0] == 'open']
    writes = [e for e in I.trace if e[0] == 'write']
    tree = I.entry_scope.lookup('tree')
    good_open = False
    if len(opens) == 1 and opens[0][2] == 'w':
        of = I.heap[opens[0][1].oid]['fields'].get('of')
        # with_name(page(tree).name + '.rst')
        if of and of[0] == 'with_name':
            inner = I.heap[of[1].oid]['fields'].get('of')
            if inner and inner[0] == 'page':
                good_open = inner[1].t == tree.t
    p.oblige(f'{L}::post::C20-opens-exactly-the-page-of-its-section-for-writing', good_open, kind='post',
             meta={'expr': "one open('w') of tree_to_path(tree) (or base/index for the root) + '.rst'"})
    p.oblige(f'{L}::post::C20-text-once-and-toc-iff-subsections', len(writes) in (1, 2), kind='post', meta={'expr': 'the text of the section is written once, the table of contents at most once'})
    if len(writes) == 2:
        p.oblige(f'{L}::post::toc-only-with-subsections', I.spec('len(subtrees) > 0', scope), kind='post', meta={'expr': 'a table of contents is written only if the section has sub-sections'})
    if len(writes) == 1:
        p.oblige(f'{L}::post::no-toc-without-subsections', I.spec('len(subtrees) == 0', scope), kind='post', meta={'expr': 'no table of contents for a leaf section'})


# ---------------------------------------------------------------------------------------
# Rst.format_report_rec : one iteration over report.content
ITEM = T('Ref', 'Item')


class RstM(ClassModel):
    name = 'Rst'
    fields = {'text_dict': 'DMap[Ref:Tree,Seq[Str]]', 'tree_dict': 'DMap[Ref:Tree,Seq[Ref:Tree]]'}

    def m_format_section(self, I, me, section, *, depth):
        ev(I, 'format_section', section)
        return I.fresh(T('Seq', STR), 'section_lines')

    def m_format_result(self, I, me, result):
        ev(I, 'format_result', result)
        out = I.fresh(T('Seq', STR), 'result_lines')
        I.last_result_lines = out
        return out

    def m_format_report_rec(self, I, me, *, report, tree):
        ev(I, 'recurse', report, tree)
        # the recursive call only touches the keys of its own subtree (contract, by induction): the caller's section keeps its text
        return None


def frr_world():
    w = World()
    w.globals['LOGGER'] = SNamespace('LOGGER', dropped=True)
    w.class_models['Rst'] = RstM(w)
    w.globals['TestReport'] = SClass('TestReport')
    w.globals['TestResult'] = SClass('TestResult')
    is_report = th.func('is_report', zsort(ITEM), z3.BoolSort())
    is_result = th.func('is_result', zsort(ITEM), z3.BoolSort())
    w.is_report, w.is_result = is_report, is_result
    w.globals['is_report'] = lambda I, x: SV(BOOL, is_report(x.t))
    w.globals['is_result'] = lambda I, x: SV(BOOL, is_result(x.t))
    w.ref_attrs['Report'] = {'content': 'Seq[Ref:Item]', 'title': 'Str'}
    w.ref_attrs['Item'] = {'title': 'Str', 'content': 'Seq[Ref:Item]'}
    child = th.func('child_tree', zsort(TREE), z3.StringSort(), zsort(TREE))
    w.child = child

    def isinstance_hook(I, x, cls):
        if isinstance(x, SV) and x.typ == ITEM and isinstance(cls, SClass):
            if cls.name == 'TestReport':
                return SV(BOOL, is_report(x.t))
            if cls.name == 'TestResult':
                return SV(BOOL, is_result(x.t))
        return NotImplemented
    w.isinstance_hook = isinstance_hook
    w.globals['type'] = lambda I, x: 'type'
    # tree + (title,) : the chain of titles of the child section
    orig = w.lib.binop

    def binop(I, op, a, b):
        if isinstance(a, SV) and a.typ == TREE and isinstance(b, tuple) and len(b) == 1 and isinstance(op, ast.Add):
            t = b[0] if isinstance(b[0], SV) else lift(b[0])
            return SV(TREE, child(a.t, t.t))
        return orig(I, op, a, b)
    w.lib.binop = binop
    w.lib.b_len_orig = w.lib.b_len

    def b_len(I, x):
        if isinstance(x, SV) and x.typ == TREE:
            return SV(INT, th.func('depth_of', zsort(TREE), z3.IntSort())(x.t))
        return w.lib.b_len_orig(I, x)
    w.lib.b_len = b_len
    return w


def frr_contract():
    return Contract(RSTF, 'Rst.format_report_rec', params={'self': 'Obj:Rst', 'report': 'Ref:Item', 'tree': 'Ref:Tree'},
                    signals={'TypeError': 'any(not is_report(report.content[i]) and not is_result(report.content[i]) for i in range(len(report.content)))',
                             'AssertionError': 'False'},
                    loops={0: LoopSpec('for stuff in report.content', ['tree in self.text_dict'],
                                       vars={'self.text_dict': 'DMap[Ref:Tree,Seq[Str]]', 'self.tree_dict': 'DMap[Ref:Tree,Seq[Ref:Tree]]', 'subtree': 'Ref:Tree',
                                             'res_text': 'Seq[Str]'})})


def frr_setup(I, scope):
    I.trace = []
    I.last_result_lines = None
    I.hooks['step-end'] = frr_step


def frr_step(I, scope, ordinal):
    p = I.path
    L = f'{RSTF}::Rst.format_report_rec'
    w = I.world
    stuff = scope.lookup('stuff')
    tree = scope.lookup('tree')
    evs = [e for e in I.trace if e[0] in ('format_result', 'recurse')]
    me = scope.lookup('self')
    if len(evs) == 1 and evs[0][0] == 'format_result':
        ok = evs[0][1].t.eq(stuff.t)
        p.oblige(f'{L}::inv-step::C20-a-result-is-formatted-once', bool(ok), kind='inv-step', meta={'expr': 'format_result(stuff) exactly once for a TestResult item'})
        # its lines are appended to the text of the section that holds it: text_dict[tree] == old + lines
        lines = I.last_result_lines
        td = I.getfield(me, 'text_dict')
        sc = Scope(None, {'td': td, 'tree': tree, 'lines': lines, 'old_td': I.loop_head_text})
        t = I.spec('len(td[tree]) == len(old_td[tree]) + len(lines) and all(td[tree][len(old_td[tree]) + j] == lines[j] for j in range(len(lines))) '
                   'and all(td[tree][j] == old_td[tree][j] for j in range(len(old_td[tree])))', sc)
        p.oblige(f'{L}::inv-step::C20-the-result-goes-on-the-page-of-the-section-that-holds-it', t, kind='inv-step',
                 meta={'expr': 'text_dict[tree] is extended by exactly the lines of format_result(stuff)'})
        p.oblige(f'{L}::inv-step::only-for-results', w.is_result(stuff.t), kind='inv-step', meta={'expr': 'only TestResult items are formatted as results'})
    elif len(evs) == 1 and evs[0][0] == 'recurse':
        sub = evs[0][2]
        title = I.getattr(stuff, 'title')
        want = w.child(tree.t, title.t)
        p.oblige(f'{L}::inv-step::C20-a-subsection-is-formatted-once-under-its-chain-of-titles',
                 z3.And(evs[0][1].t == stuff.t, sub.t == want, w.is_report(stuff.t)), kind='inv-step',
                 meta={'expr': 'format_report_rec(report=stuff, tree=tree + (stuff.title,)) exactly once for a TestReport item'})
        trd = I.getfield(me, 'tree_dict')
        sc = Scope(None, {'trd': trd, 'tree': tree, 'sub': sub, 'old': I.loop_head_trees})
        t = I.spec('len(trd[tree]) == len(old[tree]) + 1 and trd[tree][len(old[tree])] is sub and all(trd[tree][j] is old[tree][j] for j in range(len(old[tree])))', sc)
        p.oblige(f'{L}::inv-step::C20-the-subsection-is-registered-once-in-the-table-of-contents', t, kind='inv-step',
                 meta={'expr': 'tree_dict[tree] is extended by exactly the sub-section'})
    else:
        p.oblige(f'{L}::inv-step::C20-one-item-one-action', False, kind='inv-step', meta={'expr': f'an item is either formatted once or recursed into once (events: {[e[0] for e in evs]})'})


def frr_stmt_hook(I, st, scope):
    # snapshot of the dictionaries at the head of the iteration (after the havoc): taken when the loop body starts
    if isinstance(st, ast.If) and isinstance(st.test, ast.Call) and getattr(st.test.func, 'id', '') == 'isinstance':
        me = scope.lookup('self')
        I.loop_head_text = I.getfield(me, 'text_dict')
        I.loop_head_trees = I.getfield(me, 'tree_dict')
        I.trace = [e for e in I.trace if e[0] == 'format_section']


# ---------------------------------------------------------------------------------------
def page_lemmas(maxdepth):
    '''distinct chains of usable titles (depth <= maxdepth) give distinct pages; only the chain ('index',) gives the root page'''
    base = z3.String('base')
    slash = z3.StringVal('/')
    out = []

    def ok(n):
        return z3.And(z3.Not(z3.Contains(n, z3.StringVal('\x00'))), z3.Not(z3.Contains(n, slash)), n != z3.StringVal(''), n != z3.StringVal('.'), n != z3.StringVal('..'))

    def page(ts):
        t = base
        for x in ts:
            t = z3.Concat(t, slash, x)
        return t
    for k1 in range(1, maxdepth + 1):
        a = [z3.String(f'a{i}') for i in range(k1)]
        for k2 in range(k1, maxdepth + 1):
            b = [z3.String(f'b{i}') for i in range(k2)]
            differ = z3.Or(*[a[i] != b[i] for i in range(k1)]) if k1 == k2 else z3.BoolVal(True)
            out.append((f'C20-distinct-chains-of-titles-give-distinct-pages-depth-{k1}-{k2}', [ok(x) for x in a + b] + [differ], page(a) != page(b),
                        f'chains of depth {k1} and {k2}'))
        out.append((f'C20-only-a-top-level-index-collides-with-the-root-page-depth-{k1}', [ok(x) for x in a] + [z3.Not(z3.And(k1 == 1, a[0] == z3.StringVal('index')))],
                    page(a) != z3.Concat(base, slash, z3.StringVal('index')), f'page of a depth-{k1} chain vs base/index'))
    return out


# ---------------------------------------------------------------------------------------
# FormattedRst.__init__ : the formatted report OWNS its three dictionaries (the Rst object that produced them clears and refills its own at the next format_report())
class PyDict(ClassModel):
    '''a dictionary as an object with an identity: only who holds it, and copies, are tracked'''
    name = 'PyDict'
    fields = {}

    def m_copy(self, I, d):
        return I.alloc('PyDict', {'copy_of': d})


def formatted_init_world():
    w = World()
    w.globals['LOGGER'] = SNamespace('LOGGER', dropped=True)
    w.class_models['PyDict'] = PyDict(w)
    w.class_models['FormattedRst'] = type('FormattedRstObj', (ClassModel,), {'name': 'FormattedRst', 'fields': {}})(w)
    def isinstance_hook(I, x, cls):
        names = [getattr(c, 'name', None) for c in (cls if isinstance(cls, tuple) else (cls,))]
        if isinstance(x, SObj) and x.cls == 'PyDict':
            return bool(set(names) & {'dict', 'Mapping', 'MutableMapping', 'OrderedDict', 'defaultdict', 'list'}) if 'list' not in names else True
        return NotImplemented
    w.isinstance_hook = isinstance_hook
    w.globals['dict'] = SClass('dict')

    def new_dict(I, args, kwargs):
        if len(args) == 1 and not kwargs and isinstance(args[0], SObj) and args[0].cls == 'PyDict':
            return I.alloc('PyDict', {'copy_of': args[0]})
        raise Undecided('dict() of this value')
    w.construct_hooks['dict'] = new_dict
    return w


def formatted_init_setup(I, scope):
    I.given = {k: I.alloc('PyDict', {'copy_of': None}) for k in ('tree_dict', 'text_dict', 'plots')}
    scope.set('self', I.alloc('FormattedRst', {}))
    for k, v in I.given.items():
        scope.set(k, v)
    for k in ('author', 'title', 'version'):
        scope.set(k, I.fresh(STR, k))


def formatted_init_check(I, scope, outcome):
    p = I.path
    L = f'{RSTF}::FormattedRst.__init__'
    if outcome[0] != 'return':
        return
    me = scope.lookup('self')
    f = I.heap[me.oid]['fields']
    for k, given in I.given.items():
        held = f.get(k)
        ok = isinstance(held, SObj) and held.cls == 'PyDict' and held.oid != given.oid and I.getfield(held, 'copy_of') is given
        p.oblige(f'{L}::post::C12-C20-the-formatted-report-owns-a-copy-of-{k}', bool(ok), kind='post',
                 meta={'expr': f'self.{k} is a copy of the argument, not the dictionary of the caller (which format_report clears and refills for the next report)'})


def unit_formatted_init(tier, pid, replay_fn):
    res = verify_function(formatted_init_world(), Contract(RSTF, 'FormattedRst.__init__', params={}, signals={}), setup=formatted_init_setup, extra_check=formatted_init_check)
    return {'functions': [prop.discharge(res, tier, pid, lambda m, r: {'note': 'see model text'}, replay_fn)]}


def units(tier):
    return ['write', 'write_rec', 'format_report_rec', 'formatted_init', 'page_lemmas', 'native']


def _replay_native(name, inp):
    out = rnat.sweep('quick', 0)
    fails = [f for f in out['failures'] if not _is_known_dup(f)]
    if fails:
        fl = fails[0]
        return {'reproduced': True, 'observed': fl['observed'], 'input_found': fl['input'], 'by': 'native written-report sweep'}
    return {'reproduced': False, 'note': 'native sweep found no failing input'}


def _chains(d, chain=()):
    out = [chain]
    for c in d['sections']:
        out.extend(_chains(c, chain + (c['title'],)))
    return out


def _is_known_dup(fl):
    '''known finding: sections sharing a chain of titles are merged into one page (and only that)'''
    if 'report' not in fl['input']:
        return False
    ch = _chains(fl['input']['report'])
    return len(set(ch)) != len(ch) and all('merged into one page' in o or 'is not on its page' in o for o in fl['observed'])


def run_unit(unit, tier, seed, known):
    import logging
    import warnings
    logging.disable(logging.CRITICAL)
    warnings.filterwarnings('ignore')
    if unit == 'native':
        out = rnat.sweep(tier, seed)
        seen = []
        listed = any(k.get('id') == 'repeated-sibling-titles' for k in known)
        for fl in out['failures']:
            if listed and _is_known_dup(fl):
                fl['known'] = True
                if not seen:
                    seen.append({'reproduced': True, 'what': 'sections sharing a chain of titles (repeated sibling titles) are merged into one page: '
                                 f'{fl["input"]["report"]["sections"][0]["title"]!r} twice under one parent gives one page; see known_findings.json'})
        return {'bounded': [out], 'known_seen': seen}
    if unit == 'page_lemmas':
        recs = []
        for name, hyp, goal, text in page_lemmas(3 if tier == 'quick' else 5):
            r = prop.lemma(f'{RSTF}::lemma::{name}', hyp, goal, tier, ID, expr=text)
            if r['status'] == 'refuted':
                r['replay'] = _replay_native(name, None)
            r.pop('model', None)
            recs.append(r)
        return {'lemmas': recs}
    if unit == 'formatted_init':
        return unit_formatted_init(tier, ID, _replay_native)
    if unit == 'write':
        w = write_world()
        res = verify_function(w, c_write(), setup=write_setup, extra_check=write_check)
    elif unit == 'write_rec':
        w, _ = write_rec_world()
        res = verify_function(w, write_rec_contract(), setup=write_rec_setup, extra_check=write_rec_check, hooks={'step-end': write_rec_step})
    elif unit == 'format_report_rec':
        w = frr_world()
        res = verify_function(w, frr_contract(), setup=frr_setup, hooks={'stmt': frr_stmt_hook})
    else:
        raise KeyError(unit)
    return {'functions': [prop.discharge(res, tier, ID, lambda m, r: {'note': 'see model text'}, _replay_native)]}


def replay(name, inp):
    if inp and ('report' in inp or inp.get('figures') or inp.get('two_reports_one_formatter') or inp.get('namesake_results')):
        return rnat.replay(inp)
    return _replay_native(name or '', inp)
