'''Owicki-Gries glue for C01 / C02: a global invariant preserved by every atomic action of every thread
(DESIGN.md section 3).  The action summaries below are *not* read from the code: each conjunct quotes the
contract clause (verified on the real code by the units named) it is taken from.  The lemmas are the
inductive steps; the induction over the length of the interleaving is the (trusted) soundness theorem of
the method.  They hold for any number of workers: the state is indexed by tasks, not by threads.'''
import z3

from pyvc import theory as th

Task = th.usort('Task')
Status, S = th.enum_sort('TaskStatus') if 'TaskStatus' in th._enums else (None, None)


def _mk():
    global Status, S
    Status, S = th.enum_sort('TaskStatus')


def state(suffix):
    f = lambda n, r: z3.Function(n + suffix, Task, r)       # noqa
    return {'st': f('st', Status), 'present': f('present', z3.BoolSort()), 'left': f('left', z3.BoolSort()),
            'inq': f('inq', z3.BoolSort()), 'running': f('running', z3.BoolSort()), 'exec': f('exec', z3.BoolSort()),
            'applied': f('applied', z3.BoolSort()), 'clocked': f('clocked', z3.BoolSort()),
            'cursor': z3.Int('cursor' + suffix)}


dep = z3.Function('dep', Task, Task, z3.BoolSort())       # dep(t, d): t depends on d (hard or soft)
hard = z3.Function('hard', Task, Task, z3.BoolSort())
rank = z3.Function('rank', Task, z3.IntSort())
outcome_ok = z3.Function('outcome_ok', Task, z3.BoolSort())   # ghost: t.do returns a well-formed (mapping|None, DONE) result


def final(s):
    return z3.Or(s == S['DONE'], s == S['FAILED'], s == S['SKIPPED'])


def bad(s):
    return z3.Or(s == S['FAILED'], s == S['SKIPPED'])


def status_of(σ, t):
    '''env.get_status view: absent entries read as WAITING (contract of Env.get_status)'''
    return z3.If(σ['present'](t), σ['st'](t), S['WAITING'])


def static_axioms():
    t, d = z3.Consts('t d', Task)
    return [z3.ForAll([t, d], z3.Implies(hard(t, d), dep(t, d))),                 # Scheduler.__init__: hard graph <= full graph
            z3.ForAll([t, d], z3.Implies(dep(t, d), rank(d) < rank(t))),          # contract of topological_sort (ghost rank)
            z3.ForAll([t, d], z3.Implies(rank(t) == rank(d), t == d))]            # ... positions are distinct (RANKED)


def inv(σ):
    t, d, x = z3.Consts('t d x', Task)
    st = lambda u: status_of(σ, u)     # noqa
    return {
        'A-queued-or-running-is-PENDING-and-not-left': z3.ForAll([t], z3.Implies(z3.Or(σ['inq'](t), σ['running'](t)),
                                                                           z3.And(st(t) == S['PENDING'], z3.Not(σ['left'](t))))),
        'B-PENDING-is-queued-or-running': z3.ForAll([t], z3.Implies(st(t) == S['PENDING'], z3.Or(σ['inq'](t), σ['running'](t)))),
        'C-C01-started-tasks-have-final-settled-deps': z3.ForAll([t, d], z3.Implies(
            z3.And(z3.Or(σ['inq'](t), σ['running'](t), σ['exec'](t)), dep(t, d)),
            z3.And(final(st(d)), z3.Not(σ['left'](d)), z3.Not(σ['inq'](d)), z3.Not(σ['running'](d))))),
        'D-executed-tasks-are-settled-DONE-or-FAILED': z3.ForAll([t], z3.Implies(σ['exec'](t), z3.And(
            z3.Not(σ['left'](t)), z3.Not(σ['inq'](t)), z3.Not(σ['running'](t)), z3.Or(st(t) == S['DONE'], st(t) == S['FAILED'])))),
        'E-not-both-queued-and-running': z3.ForAll([t], z3.Not(z3.And(σ['inq'](t), σ['running'](t)))),
        'G-left-tasks-behind-the-cursor-are-WAITING': z3.ForAll([x], z3.Implies(z3.And(σ['left'](x), rank(x) < σ['cursor']), st(x) == S['WAITING'])),
        'J1-C01-DONE-of-this-run-has-its-update-and-clocks': z3.ForAll([d], z3.Implies(z3.And(σ['exec'](d), st(d) == S['DONE']),
                                                                                     z3.And(σ['applied'](d), σ['clocked'](d)))),
        'H-C02-no-release-past-a-failed-hard-dep': z3.ForAll([t, d], z3.Implies(
            z3.And(z3.Or(σ['inq'](t), σ['running'](t), σ['exec'](t)), hard(t, d)), z3.Not(bad(st(d))))),
        'K-C02-skipped-this-run-has-a-failed-hard-dep': z3.BoolVal(True),
    }


def same_except(σ, τ, t0, fields):
    '''frame: every state function of `fields` agrees outside t0; all other functions are unchanged'''
    u = z3.Const('u', Task)
    out = []
    for k in ('st', 'present', 'left', 'inq', 'running', 'exec', 'applied', 'clocked'):
        if k in fields:
            out.append(z3.ForAll([u], z3.Implies(u != t0, τ[k](u) == σ[k](u))))
        else:
            out.append(z3.ForAll([u], τ[k](u) == σ[k](u)))
    return out


def act_master_decide(σ, τ, t):
    '''one step of the `for task in tasks` loop of _enqueue under env.atomically (master, holding cond_var).
    Summary clauses <- contracts (unit):
      guard            : task is the next element of tasks_left in rank order                     (_enqueue::requires RANKED, loop rule)
      r == PENDING  => deps present & final, no failed/skipped hard dep   (decide_new_state::post::C01-release-needs-final-deps,
                                                                           ::C02-no-release-past-failed-hard-dep)
      r is None     => status unchanged and DONE                          (::C04-kept-only-if-was-done, ::C04-kept-leaves-env-untouched)
      r not None    => status' == r                                       (::new-status)
      only task's entry changes                                           (::frame-others)
      queue.put(task) iff r == PENDING; kept in tasks_left iff r == WAITING (_enqueue::inv, ::post::left-are-waiting,
                                                                           ::post::C01-queued-tasks-have-final-deps)'''
    d, x = z3.Consts('d x', Task)
    st = lambda u: status_of(σ, u)     # noqa
    st2 = lambda u: status_of(τ, u)    # noqa
    is_none = z3.Bool('r_is_none')
    r = z3.Const('r', Status)
    guard = z3.And(σ['left'](t), rank(t) >= σ['cursor'],
                   z3.ForAll([x], z3.Implies(z3.And(σ['left'](x), rank(x) < rank(t)), rank(x) < σ['cursor'])))
    post = [
        z3.Implies(z3.And(z3.Not(is_none), r == S['PENDING']),
                   z3.ForAll([d], z3.Implies(dep(t, d), z3.And(σ['present'](d), final(st(d)))))),
        z3.Implies(z3.And(z3.Not(is_none), r == S['PENDING']), z3.ForAll([d], z3.Implies(hard(t, d), z3.Not(bad(st(d)))))),
        z3.Implies(z3.Not(is_none), z3.Or(r == S['PENDING'], r == S['SKIPPED'], r == S['WAITING'])),
        z3.Implies(is_none, z3.And(st(t) == S['DONE'], τ['present'](t) == σ['present'](t), τ['st'](t) == σ['st'](t))),
        z3.Implies(z3.Not(is_none), z3.And(τ['present'](t), τ['st'](t) == r)),
        τ['inq'](t) == z3.And(z3.Not(is_none), r == S['PENDING']),
        τ['left'](t) == z3.And(z3.Not(is_none), r == S['WAITING']),
        τ['running'](t) == σ['running'](t), τ['exec'](t) == σ['exec'](t), τ['applied'](t) == σ['applied'](t), τ['clocked'](t) == σ['clocked'](t),
        τ['cursor'] == rank(t) + 1,
    ] + same_except(σ, τ, t, ('st', 'present', 'left', 'inq', 'running', 'exec', 'applied', 'clocked'))
    # a task handed to the master is never running / queued / executed: it is still in tasks_left (A, D)
    return guard, post


def act_master_new_pass(σ, τ):
    '''`while tasks_left:` starts a new pass over the remaining tasks: nothing but the cursor changes
    (_enqueue::post::left-are-waiting gives G for the whole list, so the cursor may restart anywhere)'''
    u = z3.Const('u', Task)
    guard = z3.ForAll([u], z3.Implies(σ['left'](u), rank(u) < σ['cursor']))
    post = [z3.ForAll([u], τ[k](u) == σ[k](u)) for k in ('st', 'present', 'left', 'inq', 'running', 'exec', 'applied', 'clocked')]
    post.append(z3.ForAll([u], z3.Implies(τ['left'](u), rank(u) >= τ['cursor'])))
    return guard, post


def act_worker_dequeue(σ, τ, t):
    '''queue.get() returns an item that was put and not yet returned (assumed Queue contract)'''
    guard = σ['inq'](t)
    post = [z3.Not(τ['inq'](t)), τ['running'](t), τ['st'](t) == σ['st'](t), τ['present'](t) == σ['present'](t), τ['left'](t) == σ['left'](t),
            τ['exec'](t) == σ['exec'](t), τ['applied'](t) == σ['applied'](t), τ['clocked'](t) == σ['clocked'](t), τ['cursor'] == σ['cursor']]
    post += same_except(σ, τ, t, ('inq', 'running'))
    return guard, post


def act_worker_apply(σ, τ, t):
    '''Env.apply(update) / set_start_end_clock by the worker running t, *before* the status is published
    (WorkerThread.run::yield-inv::C01-update-applied-before-status, ::C04-clocks-before-status,
     ::frame::only-the-dequeued-task-is-written).  A-update: the update does not write status or clock keys.'''
    guard = σ['running'](t)
    post = [τ['st'](t) == σ['st'](t), τ['present'](t), τ['left'](t) == σ['left'](t), τ['inq'](t) == σ['inq'](t),
            τ['running'](t) == σ['running'](t), τ['exec'](t) == σ['exec'](t),
            z3.Implies(σ['applied'](t), τ['applied'](t)), z3.Implies(σ['clocked'](t), τ['clocked'](t)), τ['cursor'] == σ['cursor'],
            # set_start_end_clock on a missing entry would create it without a status: excluded, a running task is present (A)
            z3.Implies(z3.Not(σ['present'](t)), z3.BoolVal(False))]
    post += same_except(σ, τ, t, ('applied', 'clocked', 'present'))
    return guard, post


def act_worker_publish(σ, τ, t):
    '''Env.set_status(task, status), the last Env action of an iteration
    (WorkerThread.run::post::C02-published-status-is-DONE-or-FAILED, ::publishes-exactly-one-status,
     ::yield-inv::C01-update-applied-before-status, ::C04-clocks-before-status, ::frame::only-the-dequeued-task-is-written)'''
    guard = z3.And(σ['running'](t), z3.Implies(outcome_ok(t), z3.And(σ['applied'](t))), σ['clocked'](t))
    post = [τ['present'](t), z3.Or(τ['st'](t) == S['DONE'], τ['st'](t) == S['FAILED']),
            z3.Implies(τ['st'](t) == S['DONE'], outcome_ok(t)),
            z3.Not(τ['running'](t)), τ['exec'](t), τ['inq'](t) == σ['inq'](t), τ['left'](t) == σ['left'](t),
            τ['applied'](t) == σ['applied'](t), τ['clocked'](t) == σ['clocked'](t), τ['cursor'] == σ['cursor']]
    post += same_except(σ, τ, t, ('st', 'present', 'running', 'exec'))
    return guard, post


def initial(σ):
    '''start of execute_tasks: every task of the sorted graph is in tasks_left, nothing is queued / running /
    executed; the initial environment holds no PENDING entry (C03 quantifier: empty or DONE/FAILED/SKIPPED entries)'''
    t = z3.Const('t', Task)
    return [z3.ForAll([t], z3.And(σ['left'](t), z3.Not(σ['inq'](t)), z3.Not(σ['running'](t)), z3.Not(σ['exec'](t)),
                                  status_of(σ, t) != S['PENDING'], rank(t) >= σ['cursor']))]


def lemmas():
    '''[(name, assumptions, goal, text)]'''
    _mk()
    σ, τ = state(''), state("'")
    t0 = z3.Const('t0', Task)
    I0, I1 = inv(σ), inv(τ)
    hyp = static_axioms() + list(I0.values())
    out = []
    for name, goal in I1.items():
        g0 = inv(σ)[name]
        out.append((f'og::init::{name}', static_axioms() + initial(σ), g0, 'the invariant holds when execute_tasks starts'))
    acts = {'master-decide': act_master_decide(σ, τ, t0), 'master-new-pass': act_master_new_pass(σ, τ),
            'worker-dequeue': act_worker_dequeue(σ, τ, t0), 'worker-apply-or-clock': act_worker_apply(σ, τ, t0),
            'worker-publish': act_worker_publish(σ, τ, t0)}
    for an, (guard, post) in acts.items():
        for name, goal in I1.items():
            out.append((f'og::{an}::preserves::{name}', hyp + [guard] + post, goal, f'{an} preserves {name}'))
    # consequences (the property-level statements)
    t, d = z3.Consts('t d', Task)
    out.append(('og::theorem::C01-a-running-task-sees-final-deps-with-their-updates', hyp,
                z3.ForAll([t, d], z3.Implies(z3.And(σ['running'](t), dep(t, d)),
                                             z3.And(final(status_of(σ, d)),
                                                    z3.Implies(z3.And(σ['exec'](d), status_of(σ, d) == S['DONE']), z3.And(σ['applied'](d), σ['clocked'](d)))))),
                'C01 as a consequence of the invariant'))
    out.append(('og::theorem::C02-a-task-is-handed-to-a-worker-at-most-once', hyp + [act_master_decide(σ, τ, t0)[0]],
                z3.And(z3.Not(σ['exec'](t0)), z3.Not(σ['inq'](t0)), z3.Not(σ['running'](t0))),
                'the master only decides tasks that were never queued, are not running and were not executed'))
    # vacuity canaries: the hypotheses of each step are satisfiable
    for an, (guard, post) in acts.items():
        out.append((f'og::vacuity::{an}', [], z3.Not(z3.And(*(hyp + [guard] + post))), 'canary: must NOT be provable'))
    return out


# ---------------------------------------------------------------------------------------
def schedule_independence():
    '''C02 lemma: two status maps that satisfy the local rules at every node of a ranked graph, with the same task
    outcomes, are equal.  "A least-rank disagreement exists" is refuted.'''
    _mk()
    s1 = z3.Function('s1', Task, Status)
    s2 = z3.Function('s2', Task, Status)
    t, d = z3.Consts('t d', Task)

    def rules(s):
        skip = lambda u: z3.Exists([d], z3.And(hard(u, d), bad(s(d))))     # noqa
        return z3.ForAll([t], z3.And(z3.Or(s(t) == S['DONE'], s(t) == S['FAILED'], s(t) == S['SKIPPED']),
                                     (s(t) == S['SKIPPED']) == skip(t),
                                     z3.Implies(z3.Not(skip(t)), (s(t) == S['DONE']) == outcome_ok(t))))
    w = z3.Const('w', Task)
    least = z3.And(s1(w) != s2(w), z3.ForAll([t], z3.Implies(rank(t) < rank(w), s1(t) == s2(t))))
    return [('og::lemma::C02-schedule-independence-no-least-disagreement', static_axioms() + [rules(s1), rules(s2)], z3.Not(least),
             'two solutions of the local rules cannot first disagree at any node (well-founded ranks => they are equal)')]
