'''Native bounded stand-in for C19 (labelled bounded): the real RunTask / run() with real child processes.'''
import itertools
import os
import shutil
import sys
import tempfile

NAMES = ['a', 'a b', 'ab', 'index', 'conf', 'x.y', '', '.', '..', 'a/b', 'nul\0l', ' ', '-', 'a\nb']


def _cfg(root):
    from valjean.config import Config
    c = Config()
    c.set('path', 'output-root', root)
    return c


def _cmd(k, code, missing=False):
    if missing:
        return [f'/nonexistent/program-{k}', 'arg']
    return [sys.executable, '-c', f'import sys; print("out-{k}"); print("err-{k}", file=sys.stderr); sys.exit({code})']


def one_task(root, name, spec):
    '''spec: list of exit codes, or "missing" markers; returns problems'''
    from valjean.cosette.run import RunTask
    from valjean.cosette.env import Env
    from valjean.cosette.task import TaskStatus
    clis = [_cmd(k, c if c != 'missing' else 0, missing=(c == 'missing')) for k, c in enumerate(spec)]
    probs = []
    try:
        task = RunTask.from_clis(name, clis)
    except Exception as e:      # noqa
        return [f'constructor raised {e!r}'], None
    try:
        out = task.do(env=Env(), config=_cfg(root))
    except Exception as e:      # noqa
        return None, e            # the task raises: the worker maps it to FAILED (C02 contract)
    try:
        env_up, status = out
    except Exception:           # noqa
        return [f'do() returned {out!r}'], None
    ent = env_up.get(name, {})
    # expected: commands run up to and including the first non-zero one
    ran = []
    for c in spec:
        if c == 'missing':
            break
        ran.append(c)
        if c != 0:
            break
    if 'missing' in spec[:len(ran) + 1] and (not ran or ran[-1] == 0):
        probs.append(f'a command that cannot be started did not make the task raise / fail: status {status}')
    if ent.get('return_codes') != ran:
        probs.append(f'return codes {ent.get("return_codes")} != those of the commands actually run {ran}')
    want = TaskStatus.DONE if all(c == 0 for c in ran) and len(ran) == len(spec) else TaskStatus.FAILED
    if status != want:
        probs.append(f'status {status} but exit statuses {spec}')
    odir = ent.get('output_dir')
    if odir is None or os.path.realpath(os.path.dirname(odir + '/x')) == os.path.realpath(root) or os.path.realpath(odir) == os.path.realpath(root):
        probs.append(f'output directory {odir!r} is the output root itself, not a directory of this task')
    else:
        rel = os.path.relpath(os.path.realpath(odir), os.path.realpath(root))
        if rel.startswith('..') or os.sep in rel:
            probs.append(f'output directory {odir!r} is not a direct child of the output root')
        for stream, tag in (('stdout', 'out'), ('stderr', 'err')):
            path = ent.get(stream)
            if not path or os.path.dirname(os.path.realpath(path)) != os.path.realpath(odir):
                probs.append(f'{stream} file {path!r} is not in the task directory')
                continue
            text = open(path).read()
            lines = [ln for ln in text.splitlines() if ln.startswith(tag + '-')]
            if lines != [f'{tag}-{k}' for k in range(len(ran))]:
                probs.append(f'{stream} holds {lines}, expected the output of commands 0..{len(ran) - 1} in order')
    return probs, None


def build_case(root, k, conf_rc, build_rc, preconfigured):
    '''a BuildTask whose cmake is a shell script: `cmake <flags> <src>` exits conf_rc, `cmake --build <dir>` exits build_rc; every invocation is logged'''
    import stat
    from valjean.cosette.code import BuildTask
    from valjean.cosette.env import Env
    from valjean.cosette.task import TaskStatus
    sub = tempfile.mkdtemp(prefix=f'build{k}_', dir=root)
    calls = os.path.join(sub, 'calls.log')
    fake = os.path.join(sub, 'fake_cmake.sh')
    with open(fake, 'w') as f:
        f.write('#!/bin/sh\n'
                f'echo "$@" >> {calls}\n'
                'if [ "$1" = "--build" ]; then\n'
                f'  exit $(cat {sub}/build_rc)\n'
                'fi\n'
                f'exit $(cat {sub}/conf_rc)\n')
    os.chmod(fake, os.stat(fake).st_mode | stat.S_IEXEC)
    src = os.path.join(sub, 'src')
    os.makedirs(src)

    def set_rc(c, b):
        open(os.path.join(sub, 'conf_rc'), 'w').write(str(c))
        open(os.path.join(sub, 'build_rc'), 'w').write(str(b))
    old = BuildTask.CMAKE
    BuildTask.CMAKE = fake
    probs = []
    try:
        cfg = _cfg(os.path.join(sub, 'out'))
        if preconfigured:
            set_rc(0, 0)
            BuildTask('proj', src, build_root=os.path.join(sub, 'out'), log_root=os.path.join(sub, 'log')).do(env=Env(), config=cfg)
            os.remove(calls)
        set_rc(conf_rc, build_rc)
        try:
            up, st = BuildTask('proj', src, build_root=os.path.join(sub, 'out'), log_root=os.path.join(sub, 'log')).do(env=Env(), config=cfg)
        except Exception as e:      # noqa
            return [f'BuildTask.do raised {e!r}']
        ran = open(calls).read().splitlines() if os.path.exists(calls) else []
        built = [c for c in ran if c.startswith('--build')]
        want_done = conf_rc == 0 and build_rc == 0
        if (st == TaskStatus.DONE) != want_done:
            probs.append(f'status {st.name} with configure exit {conf_rc} and build exit {build_rc}')
        if conf_rc != 0 and built:
            probs.append('the build step was run although the configure step failed')
        if conf_rc == 0 and len(built) != 1:
            probs.append(f'the build step was run {len(built)} time(s) after a successful configure step')
    finally:
        BuildTask.CMAKE = old
    return probs


def sweep(tier, seed):
    fails, n = [], 0
    codes = [0, 1, 'missing']
    specs = [list(s) for k in (1, 2, 3) for s in itertools.product(codes, repeat=k)]
    if tier == 'quick':
        specs = [s for s in specs if len(s) <= 2] + [[0, 0, 0], [0, 1, 0], [0, 0, 1], [1, 0, 0], [0, 'missing', 0], [0, 0, 'missing']]
    root = tempfile.mkdtemp(prefix='c19_', dir='/var/tmp')
    try:
        # exit-status patterns, a plain name
        for spec in specs:
            n += 1
            probs, exc = one_task(root, f'task{n}', spec)
            if exc is not None:
                if 'missing' not in spec or not isinstance(exc, OSError):
                    fails.append({'input': {'name': f'task{n}', 'exit_statuses': spec}, 'observed': f'do() raised {exc!r}', 'expected': 'OSError only for a command that cannot be started'})
                else:
                    first_missing = spec.index('missing')
                    if any(c != 0 for c in spec[:first_missing]):
                        fails.append({'input': {'name': f'task{n}', 'exit_statuses': spec}, 'observed': 'a command after the first failing one was started', 'expected': 'remaining commands are not run'})
                continue
            if probs:
                fails.append({'input': {'name': f'task{n}', 'exit_statuses': spec}, 'observed': probs[:3], 'expected': 'C19 oracle'})
        # names: every accepted name owns a directory; rejected names make the task fail, not the run
        seen_dirs = {}
        for name in NAMES:
            n += 1
            sub = tempfile.mkdtemp(prefix='names_', dir=root)
            probs, exc = one_task(sub, name, [0])
            inp = {'name': name, 'exit_statuses': [0]}
            if exc is not None:
                if not isinstance(exc, (ValueError, OSError)):
                    fails.append({'input': inp, 'observed': f'do() raised {exc!r}', 'expected': 'ValueError for an invalid file name'})
                if os.listdir(sub):
                    leftovers = os.listdir(sub)
                    if any(f in ('stdout', 'stderr') for f in leftovers):
                        fails.append({'input': inp, 'observed': f'output files {leftovers} written directly into the output root', 'expected': 'nothing outside a task directory'})
                continue
            if probs:
                fails.append({'input': inp, 'observed': probs[:3], 'expected': 'a directory that belongs to that task only'})
        # two tasks never share a directory
        n += 1
        sub = tempfile.mkdtemp(prefix='pair_', dir=root)
        dirs = {}
        for name in ('a', 'a b', 'ab', 'a.b', 'A', 'a ', ' a', 'a\t', 'a\n', 'job', 'job ', 'Job'):
            from valjean.cosette.run import RunTask
            from valjean.cosette.env import Env
            up, st = RunTask.from_clis(name, [_cmd(0, 0)]).do(env=Env(), config=_cfg(sub))
            d = os.path.realpath(up[name]['output_dir'])
            if d in dirs:
                fails.append({'input': {'names': [dirs[d], name]}, 'observed': f'both tasks use {d}', 'expected': 'distinct directories'})
            dirs[d] = name
        # the same task run twice in the same output directory: the capture files hold what the commands of THIS run wrote, nothing of the earlier run
        n += 1
        sub = tempfile.mkdtemp(prefix='again_', dir=root)
        p1, e1 = one_task(sub, 'again', [0, 0, 0])
        p2, e2 = one_task(sub, 'again', [0, 1])
        if e1 or e2 or p1 or p2:
            fails.append({'input': {'name': 'again', 'exit_statuses': [[0, 0, 0], [0, 1]], 'same_output_directory': True}, 'observed': (p1 or p2 or [repr(e1 or e2)])[:3],
                          'expected': 'the capture files of the second run hold the output of the second run only'})
        # the commands run in the directory of the task, and the update records the command lines that were run
        n += 1
        sub = tempfile.mkdtemp(prefix='cwd_', dir=root)
        from valjean.cosette.run import RunTask
        from valjean.cosette.env import Env
        cli = [sys.executable, '-c', 'import os; print("cwd=" + os.path.realpath(os.getcwd()))']
        up, st = RunTask.from_clis('where', [cli]).do(env=Env(), config=_cfg(sub))
        ent = up['where']
        seen = [ln for ln in open(ent['stdout']).read().splitlines() if ln.startswith('cwd=')]
        probs = []
        if seen != ['cwd=' + os.path.realpath(ent['output_dir'])]:
            probs.append(f'the command ran in {seen}, the directory of the task is {os.path.realpath(ent["output_dir"])}')
        if ent.get('clis') != [cli]:
            probs.append(f'the update records the command lines {ent.get("clis")}')
        if probs:
            fails.append({'input': {'name': 'where', 'command': 'print the working directory'}, 'observed': probs, 'expected': 'commands run in the directory that belongs to the task; the recorded command lines are those run'})
        # BuildTask (cosette/code.py): configure then build through a fake cmake whose exit statuses are scripted
        for conf_rc, build_rc, preconfigured in itertools.product((0, 1), (0, 1), (False, True)):
            n += 1
            probs = build_case(root, n, conf_rc, build_rc, preconfigured)
            if probs:
                fails.append({'input': {'build_task': True, 'configure_exit': conf_rc, 'build_exit': build_rc, 'build_dir_configured_by_an_earlier_run': preconfigured},
                              'observed': probs[:3], 'expected': 'DONE iff both steps exit with zero; the build step is not run after a failing configure step'})
    finally:
        shutil.rmtree(root, ignore_errors=True)
    # generated (unnamed) tasks: the name IS the output directory -- tasks running different command lines never get the same one
    from . import tasks_native
    n2, clashes = tasks_native.factory_name_clashes()
    n += n2
    if clashes:
        fails.append({'input': {'unnamed_tasks_of_several_factories': True}, 'observed': clashes[:3], 'expected': 'each task has its own directory: different command lines, different names'})
    return {'name': 'run-task-native', 'evaluations': n, 'distinct': n, 'failures': fails[:8], 'exhaustive': True,
            'bound': f'real RunTask with real child processes: all lists of <= {2 if tier == "quick" else 3} commands with exit status 0 / 1 / missing executable '
                     '(+ selected 3-command lists in the quick tier), both streams; 14 task names incl. empty, ".", "..", with slash / NUL / newline / space; '
                     '12 look-alike names (case, inner / surrounding whitespace) for directory ownership; one task run twice in the same directory; working directory and recorded command lines; BuildTask with a scripted fake cmake: configure / build exit 0 or 1, fresh and already '
                     'configured build directory; names of the unnamed tasks of 5 factories (executable / default arguments / default keywords)', 'samples': [{'name': 'task7', 'exit_statuses': [0, 1, 0]}]}


def replay(inp):
    out = sweep('quick', 0)
    return {'reproduced': bool(out['failures']), 'observed': out['failures'][:1]}
