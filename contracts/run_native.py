'''Native bounded stand-in for C19 (labelled bounded): the real RunTask / run() with real child processes.'''
import itertools
import os
import shutil
import sys
import tempfile

NAMES = ['a', 'a b', 'ab', 'index', 'conf', 'x.y', '', '.', '..', 'a/b', 'nul\0l', ' ', '-', 'a\nb']


def _cfg(root):
    from valjean.config import Config
    c = Config()
    c.set('path', 'output-root', root)
    return c


def _cmd(k, code, missing=False):
    if missing:
        return [f'/nonexistent/program-{k}', 'arg']
    return [sys.executable, '-c', f'import sys; print("out-{k}"); print("err-{k}", file=sys.stderr); sys.exit({code})']


def one_task(root, name, spec):
    '''spec: list of exit codes, or "missing" markers; returns problems'''
    from valjean.cosette.run import RunTask
    from valjean.cosette.env import Env
    from valjean.cosette.task import TaskStatus
    clis = [_cmd(k, c if c != 'missing' else 0, missing=(c == 'missing')) for k, c in enumerate(spec)]
    probs = []
    try:
        task = RunTask.from_clis(name, clis)
    except Exception as e:      # noqa
        return [f'constructor raised {e!r}'], None
    try:
        out = task.do(env=Env(), config=_cfg(root))
    except Exception as e:      # noqa
        return None, e            # the task raises: the worker maps it to FAILED (C02 contract)
    try:
        env_up, status = out
    except Exception:           # noqa
        return [f'do() returned {out!r}'], None
    ent = env_up.get(name, {})
    # expected: commands run up to and including the first non-zero one
    ran = []
    for c in spec:
        if c == 'missing':
            break
        ran.append(c)
        if c != 0:
            break
    if 'missing' in spec[:len(ran) + 1] and (not ran or ran[-1] == 0):
        probs.append(f'a command that cannot be started did not make the task raise / fail: status {status}')
    if ent.get('return_codes') != ran:
        probs.append(f'return codes {ent.get("return_codes")} != those of the commands actually run {ran}')
    want = TaskStatus.DONE if all(c == 0 for c in ran) and len(ran) == len(spec) else TaskStatus.FAILED
    if status != want:
        probs.append(f'status {status} but exit statuses {spec}')
    odir = ent.get('output_dir')
    if odir is None or os.path.realpath(os.path.dirname(odir + '/x')) == os.path.realpath(root) or os.path.realpath(odir) == os.path.realpath(root):
        probs.append(f'output directory {odir!r} is the output root itself, not a directory of this task')
    else:
        rel = os.path.relpath(os.path.realpath(odir), os.path.realpath(root))
        if rel.startswith('..') or os.sep in rel:
            probs.append(f'output directory {odir!r} is not a direct child of the output root')
        for stream, tag in (('stdout', 'out'), ('stderr', 'err')):
            path = ent.get(stream)
            if not path or os.path.dirname(os.path.realpath(path)) != os.path.realpath(odir):
                probs.append(f'{stream} file {path!r} is not in the task directory')
                continue
            text = open(path).read()
            lines = [ln for ln in text.splitlines() if ln.startswith(tag + '-')]
            if lines != [f'{tag}-{k}' for k in range(len(ran))]:
                probs.append(f'{stream} holds {lines}, expected the output of commands 0..{len(ran) - 1} in order')
    return probs, None


def sweep(tier, seed):
    fails, n = [], 0
    codes = [0, 1, 'missing']
    specs = [list(s) for k in (1, 2, 3) for s in itertools.product(codes, repeat=k)]
    if tier == 'quick':
        specs = [s for s in specs if len(s) <= 2] + [[0, 0, 0], [0, 1, 0], [0, 0, 1], [1, 0, 0], [0, 'missing', 0], [0, 0, 'missing']]
    root = tempfile.mkdtemp(prefix='c19_', dir='/var/tmp')
    try:
        # exit-status patterns, a plain name
        for spec in specs:
            n += 1
            probs, exc = one_task(root, f'task{n}', spec)
            if exc is not None:
                if 'missing' not in spec or not isinstance(exc, OSError):
                    fails.append({'input': {'name': f'task{n}', 'exit_statuses': spec}, 'observed': f'do() raised {exc!r}', 'expected': 'OSError only for a command that cannot be started'})
                else:
                    first_missing = spec.index('missing')
                    if any(c != 0 for c in spec[:first_missing]):
                        fails.append({'input': {'name': f'task{n}', 'exit_statuses': spec}, 'observed': 'a command after the first failing one was started', 'expected': 'remaining commands are not run'})
                continue
            if probs:
                fails.append({'input': {'name': f'task{n}', 'exit_statuses': spec}, 'observed': probs[:3], 'expected': 'C19 oracle'})
        # names: every accepted name owns a directory; rejected names make the task fail, not the run
        seen_dirs = {}
        for name in NAMES:
            n += 1
            sub = tempfile.mkdtemp(prefix='names_', dir=root)
            probs, exc = one_task(sub, name, [0])
            inp = {'name': name, 'exit_statuses': [0]}
            if exc is not None:
                if not isinstance(exc, (ValueError, OSError)):
                    fails.append({'input': inp, 'observed': f'do() raised {exc!r}', 'expected': 'ValueError for an invalid file name'})
                if os.listdir(sub):
                    leftovers = os.listdir(sub)
                    if any(f in ('stdout', 'stderr') for f in leftovers):
                        fails.append({'input': inp, 'observed': f'output files {leftovers} written directly into the output root', 'expected': 'nothing outside a task directory'})
                continue
            if probs:
                fails.append({'input': inp, 'observed': probs[:3], 'expected': 'a directory that belongs to that task only'})
        # two tasks never share a directory
        n += 1
        sub = tempfile.mkdtemp(prefix='pair_', dir=root)
        dirs = {}
        for name in ('a', 'a b', 'ab', 'a.b', 'A', 'a ', ' a', 'a\t', 'a\n', 'job', 'job ', 'Job'):
            from valjean.cosette.run import RunTask
            from valjean.cosette.env import Env
            up, st = RunTask.from_clis(name, [_cmd(0, 0)]).do(env=Env(), config=_cfg(sub))
            d = os.path.realpath(up[name]['output_dir'])
            if d in dirs:
                fails.append({'input': {'names': [dirs[d], name]}, 'observed': f'both tasks use {d}', 'expected': 'distinct directories'})
            dirs[d] = name
    finally:
        shutil.rmtree(root, ignore_errors=True)
    return {'name': 'run-task-native', 'evaluations': n, 'distinct': n, 'failures': fails[:8], 'exhaustive': True,
            'bound': f'real RunTask with real child processes: all lists of <= {2 if tier == "quick" else 3} commands with exit status 0 / 1 / missing executable '
                     '(+ selected 3-command lists in the quick tier), both streams; 14 task names incl. empty, ".", "..", with slash / NUL / newline / space; '
                     '12 look-alike names (case, inner / surrounding whitespace) for directory ownership', 'samples': [{'name': 'task7', 'exit_statuses': [0, 1, 0]}]}


def replay(inp):
    out = sweep('quick', 0)
    return {'reproduced': bool(out['failures']), 'observed': out['failures'][:1]}
