'''Native bounded stand-ins for C05 / C06 / C07 (labelled bounded): the real statistical tests on the small scope of
DESIGN.md 8.1 against oracles written from the property statements (scipy gives the reference quantiles).'''
import itertools
import math

VALS = [float('nan'), float('inf'), float('-inf'), 0.0, 1.0, -1.0, 2.0, 0.5]
ERRS = [0.0, 1.0, 2.0, float('nan'), float('inf')]


def _ds(values, errors):
    import numpy as np
    from valjean.eponine.dataset import Dataset
    if len(values) == 1 and False:
        return Dataset(np.float64(values[0]), np.float64(errors[0]))
    return Dataset(np.array(values, dtype=float), np.array(errors, dtype=float))


def _ds_scalar(v, e):
    import numpy as np
    from valjean.eponine.dataset import Dataset
    return Dataset(np.float64(v), np.float64(e))


def _tref(v1, e1, v2, e2):
    '''the statistic of the property: difference over the quadratic sum of the errors; both-undefined cases count as compatible (0)'''
    d = v1 - v2
    s = math.sqrt(e1 * e1 + e2 * e2) if not (math.isnan(e1) or math.isnan(e2)) else float('nan')
    if d == 0 and s == 0:
        return 0.0
    if d == 0 and math.isnan(e1) and math.isnan(e2):
        return 0.0
    if math.isnan(v1) and math.isnan(v2):
        return 0.0
    try:
        return d / s
    except ZeroDivisionError:
        return math.copysign(float('inf'), d) if d != 0 and not math.isnan(d) else float('nan')


def student_sweep(tier, seed):
    import warnings
    import numpy as np
    from scipy.stats import norm, t as tdist
    from valjean.gavroche.stat_tests.student import TestStudent
    warnings.filterwarnings('ignore')
    fails, n = [], 0
    alphas = [0.01, 0.05, 0.5]
    ndfs = [None, 1, 10]
    cells = list(itertools.product(VALS, ERRS, VALS, ERRS))
    import random
    rng = random.Random(seed)
    if tier == 'quick':
        rng.shuffle(cells)
        cells = cells[:500]
    for alpha in alphas:
        for ndf in ndfs:
            thr = abs(norm.ppf(alpha / 2)) if ndf is None else abs(tdist.ppf(alpha / 2, ndf))
            # 1-bin arrays and 0-d scalars, every cell
            for (v1, e1, v2, e2) in cells:
                for scalar in (False, True):
                    n += 1
                    d1 = _ds_scalar(v1, e1) if scalar else _ds([v1], [e1])
                    d2 = _ds_scalar(v2, e2) if scalar else _ds([v2], [e2])
                    try:
                        r = TestStudent(d1, d2, name='s', alpha=alpha, ndf=ndf).evaluate()
                        rs = TestStudent(d2, d1, name='s', alpha=alpha, ndf=ndf).evaluate()
                    except Exception as e:      # noqa
                        fails.append({'input': {'v1': v1, 'e1': e1, 'v2': v2, 'e2': e2, 'alpha': alpha, 'ndf': ndf, 'scalar': scalar}, 'observed': f'raised {e!r}', 'expected': 'a result'})
                        continue
                    tt = _tref(v1, e1, v2, e2)
                    want = (abs(tt) < thr) if not math.isnan(tt) else False
                    probs = []
                    if bool(r) != want:
                        probs.append(f'verdict {bool(r)} but |t| = {abs(tt)} vs threshold {thr}')
                    orc = np.ravel(r.oracles()[0] if not scalar else r.oracles())
                    if [bool(x) for x in orc] != [want]:
                        probs.append(f'per-bin oracle {orc.tolist()} disagrees with the verdict rule ({want})')
                    pv = r.test_pvalue()
                    pvd = [bool(np.all(x)) for x in pv] if isinstance(pv, list) else [bool(pv)]
                    if pvd != [want]:
                        probs.append(f'p-value decision {pvd} disagrees with the verdict {want}')
                    if bool(rs) != bool(r):
                        probs.append(f'not symmetric: {bool(r)} vs {bool(rs)} with the datasets swapped')
                    if probs:
                        fails.append({'input': {'v1': v1, 'e1': e1, 'v2': v2, 'e2': e2, 'alpha': alpha, 'ndf': ndf, 'scalar': scalar}, 'observed': probs[:3], 'expected': 'C05 oracle'})
                if len(fails) >= 8:
                    break
            # multi-bin, multi-dataset conjunction + rescaling + monotonicity
            for _ in range(30 if tier == 'quick' else 200):
                n += 1
                k = rng.choice((2, 3))
                vs = [[rng.choice([0.0, 1.0, -1.0, 2.0, 0.5]) for _ in range(k)] for _ in range(3)]
                es = [[rng.choice([0.0, 1.0, 2.0]) for _ in range(k)] for _ in range(3)]
                ref, o1, o2 = (_ds(vs[i], es[i]) for i in range(3))
                r = TestStudent(ref, o1, o2, name='s', alpha=alpha, ndf=ndf).evaluate()
                want = all((abs(_tref(vs[0][b], es[0][b], vs[j][b], es[j][b])) < thr) for j in (1, 2) for b in range(k))
                probs = []
                if bool(r) != want:
                    probs.append(f'verdict {bool(r)} != conjunction over bins and datasets {want}')
                c = rng.choice((0.5, 3.0, 10.0))
                r2 = TestStudent(ref * c, o1 * c, o2 * c, name='s', alpha=alpha, ndf=ndf).evaluate()
                if bool(r2) != bool(r):
                    probs.append(f'verdict changes under a common rescaling by {c}')
                # growing a difference never improves the verdict
                b = rng.randrange(k)
                vs2 = [list(x) for x in vs]
                vs2[1][b] = vs[0][b] + (vs[1][b] - vs[0][b]) * 4 + (0.0 if vs[1][b] != vs[0][b] else 5.0)
                r3 = TestStudent(ref, _ds(vs2[1], es[1]), o2, name='s', alpha=alpha, ndf=ndf).evaluate()
                if bool(r3) and not bool(r):
                    probs.append('verdict improved when a difference grew')
                if probs:
                    fails.append({'input': {'values': vs, 'errors': es, 'alpha': alpha, 'ndf': ndf}, 'observed': probs[:3], 'expected': 'C05 oracle'})
        if len(fails) >= 8:
            break
    # the critical value itself: for every level and number of degrees of freedom (small, large, huge, fractional, none) a statistic just below the
    # two-sided critical value of THAT law passes and one just above fails; per-bin ndf arrays; tiny and huge magnitudes with zero errors
    den = math.sqrt(0.5)
    for alpha in (0.01, 0.05, 0.1, 0.5, 1e-6):
        for ndf in (None, 1, 2, 2.5, 20, 100, 999, 1000, 1001, 2000, 5000, 10 ** 5, 10 ** 7):
            thr = abs(norm.ppf(alpha / 2)) if ndf is None else abs(tdist.ppf(alpha / 2, ndf))
            for factor, want in ((1 - 1e-4, True), (1 + 1e-4, False)):
                for scalar in (False, True):
                    n += 1
                    v2 = thr * factor
                    d1 = _ds_scalar(0.0, den) if scalar else _ds([0.0, 1.0], [den, 1.0])
                    d2 = _ds_scalar(v2, den) if scalar else _ds([v2, 1.0], [den, 1.0])
                    r = TestStudent(d1, d2, name='s', alpha=alpha, ndf=ndf).evaluate()
                    pv = r.test_pvalue()
                    pvd = bool(np.all([np.all(x) for x in pv])) if isinstance(pv, list) else bool(np.all(pv))
                    probs = []
                    if bool(r) != want:
                        probs.append(f'verdict {bool(r)} for |t| = {factor} x the two-sided critical value {thr}')
                    if pvd != want:
                        probs.append(f'p-value decision {pvd} for |t| = {factor} x the critical value')
                    if probs:
                        fails.append({'input': {'v1': 0.0, 'e1': den, 'v2': v2, 'e2': den, 'alpha': alpha, 'ndf': ndf, 'scalar': scalar}, 'observed': probs[:3], 'expected': 'C05 oracle'})
    for ndfs_arr, alpha in (([1, 1001], 0.01), ([5000, 2], 0.05)):
        thr = [abs(tdist.ppf(alpha / 2, k)) for k in ndfs_arr]
        for which in (0, 1):
            for factor, want in ((1 - 1e-4, True), (1 + 1e-4, False)):
                n += 1
                v2 = [thr[b] * (factor if b == which else 0.5) for b in (0, 1)]
                r = TestStudent(_ds([0.0, 0.0], [den, den]), _ds(v2, [den, den]), name='s', alpha=alpha, ndf=np.array(ndfs_arr)).evaluate()
                if bool(r) != want:
                    fails.append({'input': {'values': [[0.0, 0.0], v2], 'errors': [[den, den], [den, den]], 'alpha': alpha, 'ndf': ndfs_arr}, 'observed':
                                  [f'verdict {bool(r)} with bin {which} at {factor} x its own critical value'], 'expected': 'C05 oracle (per-bin degrees of freedom)'})
    for (v1, v2) in ((1e-9, 3e-9), (1e-9, 1e-9), (0.0, 1e-300), (1e12, 1e12 + 1), (-2e-12, 2e-12)):
        for scalar in (False, True):
            for c in (1.0, 1e12):
                n += 1
                d1 = _ds_scalar(v1 * c, 0.0) if scalar else _ds([v1 * c], [0.0])
                d2 = _ds_scalar(v2 * c, 0.0) if scalar else _ds([v2 * c], [0.0])
                r = TestStudent(d1, d2, name='s', alpha=0.05).evaluate()
                want = (v1 * c == v2 * c)
                if bool(r) != want:
                    fails.append({'input': {'v1': v1 * c, 'e1': 0.0, 'v2': v2 * c, 'e2': 0.0, 'alpha': 0.05, 'ndf': None, 'scalar': scalar},
                                  'observed': [f'verdict {bool(r)}: with zero errors the values are compatible only when they are equal'], 'expected': 'C05 oracle'})
    return {'name': 'student-native', 'evaluations': n, 'distinct': n, 'failures': fails[:8], 'exhaustive': tier != 'quick',
            'bound': f'1-bin arrays and 0-d scalars over values {VALS} x errors {ERRS} (all 1 600 cells in the thorough tier, 500 sampled in quick) x alpha in {alphas} x ndf in {ndfs}; '
                     'verdict / oracles / p-value decision / symmetry; random 2-3 bin, 2-dataset cases for conjunction, rescaling and monotonicity; |t| at (1 -+ 1e-4) x the two-sided '
                     'critical value for alpha in {0.01, 0.05, 0.1, 0.5, 1e-6} x ndf in {none, 1, 2, 2.5, 20, 100, 999, 1000, 1001, 2000, 5000, 1e5, 1e7} and per-bin ndf arrays; '
                     'zero errors with tiny / huge values and their rescaling by 1e12',
            'samples': [{'v1': 1.0, 'e1': 0.0, 'v2': float('nan'), 'e2': 1.0, 'alpha': 0.05, 'ndf': None}]}


def chi2_sweep(tier, seed):
    import warnings
    import random
    import numpy as np
    from scipy.stats import chi2 as chi2d
    from valjean.gavroche.stat_tests.chi2 import TestChi2
    warnings.filterwarnings('ignore')
    rng = random.Random(seed)
    fails, n = [], 0
    vals = [0.0, 1.0, -1.0, 2.0, 0.5, 3.0]
    errs_fin = [0.0, 1.0, 2.0, 0.5]
    for alpha in (0.01, 0.05, 0.5):
        for ignore in (False, True):
            errs = errs_fin if ignore else errs_fin + [float('nan'), float('inf')]
            vv = vals if ignore else vals + [float('nan'), float('inf')]
            for _ in range(150 if tier == 'quick' else 1500):
                n += 1
                k = rng.choice((1, 2, 3))
                nd = rng.choice((1, 2))
                v = [[rng.choice(vv) for _ in range(k)] for _ in range(nd + 1)]
                e = [[rng.choice(errs) for _ in range(k)] for _ in range(nd + 1)]
                ref = _ds(v[0], e[0])
                others = [_ds(v[j], e[j]) for j in range(1, nd + 1)]
                try:
                    r = TestChi2(ref, *others, name='c', alpha=alpha, ignore_empty=ignore).evaluate()
                except Exception as ex:      # noqa
                    fails.append({'input': {'values': v, 'errors': e, 'alpha': alpha, 'ignore_empty': ignore}, 'observed': f'raised {ex!r}', 'expected': 'a result'})
                    continue
                probs = []
                oks = []
                for j in range(1, nd + 1):
                    used = [b for b in range(k) if not (ignore and e[0][b] == 0 and e[j][b] == 0)]
                    with np.errstate(all='ignore'):
                        terms = [((v[0][b] - v[j][b]) ** 2) / (e[0][b] ** 2 + e[j][b] ** 2) if (e[0][b] ** 2 + e[j][b] ** 2) != 0 else
                                 (float('nan') if (v[0][b] == v[j][b] or math.isnan(v[0][b] - v[j][b])) else float('inf')) for b in used]
                    stat = float(np.sum(terms)) if terms else 0.0
                    ndf = len(used)
                    p = chi2d.sf(stat, ndf) if ndf > 0 else float('nan')
                    got_stat = float(np.ravel(r.chi2)[j - 1]) if np.ndim(r.chi2) else float(r.chi2)
                    got_ndf = np.ravel(r.test.ndf)[j - 1] if np.ndim(r.test.ndf) else r.test.ndf
                    if not (np.isclose(got_stat, stat, equal_nan=True, rtol=1e-10) or (math.isinf(stat) and math.isinf(got_stat))):
                        probs.append(f'statistic {got_stat} != {stat} (dataset {j})')
                    if int(got_ndf) != ndf:
                        probs.append(f'ndf {got_ndf} != number of used bins {ndf}')
                    oks.append(bool(p > alpha))
                if bool(r) != all(oks):
                    probs.append(f'verdict {bool(r)} != every probability exceeds the level {oks}')
                # order of the bins is irrelevant
                perm = list(range(k))
                rng.shuffle(perm)
                r2 = TestChi2(_ds([v[0][b] for b in perm], [e[0][b] for b in perm]), *[_ds([v[j][b] for b in perm], [e[j][b] for b in perm]) for j in range(1, nd + 1)],
                              name='c', alpha=alpha, ignore_empty=ignore).evaluate()
                if not np.allclose(np.ravel(r.chi2), np.ravel(r2.chi2), equal_nan=True, rtol=1e-10):
                    probs.append('the statistic depends on the order of the bins')
                if probs:
                    fails.append({'input': {'values': v, 'errors': e, 'alpha': alpha, 'ignore_empty': ignore}, 'observed': probs[:3], 'expected': 'C07 oracle'})
                    if len(fails) >= 8:
                        break
    # other magnitudes and other number types: tiny values and errors (nothing is 'close to zero' but zero), integer-valued datasets with large
    # differences (raw counts; int64 / int32 / Python ints, 1-d and 0-d).  Oracle in exact rational arithmetic.
    from fractions import Fraction
    from valjean.eponine.dataset import Dataset
    special = []
    tiny_v, tiny_e = [0.0, 1e-9, 3e-9, -2e-9, 1e-12], [0.0, 1e-10, 5e-9, 2e-12]
    for _ in range(60 if tier == 'quick' else 600):
        k = rng.choice((1, 2, 3))
        mixed_e = tiny_e + ([1.0] if rng.random() < 0.5 else [])
        mixed_v = tiny_v + ([1.0, 3.0] if rng.random() < 0.5 else [])
        special.append(('float', [[rng.choice(mixed_v) for _ in range(k)] for _ in range(2)], [[rng.choice(mixed_e) for _ in range(k)] for _ in range(2)]))
    big = {'int64': [0, 4_000_000_000, -3_500_000_000, 7, 3_037_000_500], 'int32': [0, 50_000, -46_341, 7, 2_000_000_000], 'pyint': [0, 4_000_000_000, 7]}
    for _ in range(40 if tier == 'quick' else 400):
        kind = rng.choice(sorted(big))
        k = rng.choice((1, 2, 3))
        special.append((kind, [[rng.choice(big[kind]) for _ in range(k)] for _ in range(2)], [[rng.choice([1.0e9, 1.0e4, 0.5, 0.0]) for _ in range(k)] for _ in range(2)]))
    for kind, v, e in special:
        for ignore in (False, True):
            n += 1
            k = len(v[0])
            if kind == 'float':
                mk = lambda vv, ee: Dataset(np.array(vv, dtype=float), np.array(ee, dtype=float))      # noqa
            elif kind == 'pyint':
                mk = (lambda vv, ee: Dataset(vv[0], ee[0])) if k == 1 else (lambda vv, ee: Dataset(np.array(vv), np.array(ee, dtype=float)))      # noqa
            else:
                mk = lambda vv, ee: Dataset(np.array(vv, dtype=kind), np.array(ee, dtype=float))      # noqa
            if kind == 'pyint' and k == 1:
                kk = 1
            try:
                r = TestChi2(mk(v[0], e[0]), mk(v[1], e[1]), name='c', alpha=0.05, ignore_empty=ignore).evaluate()
            except Exception as ex:      # noqa
                fails.append({'input': {'values': v, 'errors': e, 'number_type': kind, 'ignore_empty': ignore}, 'observed': f'raised {ex!r}', 'expected': 'a result'})
                continue
            used = [b for b in range(1 if (kind == 'pyint' and k == 1) else k) if not (ignore and e[0][b] == 0 and e[1][b] == 0)]
            den = [Fraction(e[0][b]) ** 2 + Fraction(e[1][b]) ** 2 for b in used]
            if any(d == 0 for d in den):
                continue          # 0/0 or x/0: covered above with the small scope
            stat = float(sum(Fraction(v[0][b] - v[1][b]) ** 2 / d for b, d in zip(used, den))) if used else 0.0
            got_stat = float(np.ravel(r.chi2)[0])
            got_ndf = int(np.ravel(r.test.ndf)[0])
            probs = []
            if not (math.isclose(got_stat, stat, rel_tol=1e-9, abs_tol=0.0) or (stat == 0.0 and got_stat == 0.0)):
                probs.append(f'statistic {got_stat} != {stat}')
            if got_ndf != len(used):
                probs.append(f'ndf {got_ndf} != number of used bins {len(used)}')
            p = chi2d.sf(stat, len(used)) if used else float('nan')
            if bool(r) != bool(p > 0.05):
                probs.append(f'verdict {bool(r)} but the probability is {p} at level 0.05')
            if probs:
                fails.append({'input': {'values': v, 'errors': e, 'number_type': kind, 'alpha': 0.05, 'ignore_empty': ignore}, 'observed': probs[:3], 'expected': 'C07 oracle (exact rational arithmetic)'})
    # far tails and levels anywhere in (0, 1): the upper-tail probability itself (closed forms: erfc(sqrt(x/2)) for 1 degree of freedom, exp(-x/2) for 2), compared
    # with levels just below and just above it, down to 1e-300
    for k, closed in ((1, lambda x: math.erfc(math.sqrt(x / 2))), (2, lambda x: math.exp(-x / 2))):
        for x_target in (0.5, 4.0, 40.0, 100.0, 400.0, 1200.0):
            per_bin = x_target / k
            v2 = [math.sqrt(per_bin)] * k          # errors 1/sqrt(2) on both sides: each bin contributes (v1 - v2)^2
            e = [math.sqrt(0.5)] * k
            p_true = closed(sum(b * b for b in v2))
            for scalar in ((False, True) if k == 1 else (False,)):
                for factor in (0.5, 2.0):
                    alpha = p_true * factor
                    if not 0.0 < alpha < 1.0:
                        continue
                    n += 1
                    d1 = _ds_scalar(0.0, e[0]) if scalar else _ds([0.0] * k, e)
                    d2 = _ds_scalar(v2[0], e[0]) if scalar else _ds(v2, e)
                    r = TestChi2(d1, d2, name='c', alpha=alpha).evaluate()
                    got_p = float(np.ravel(r.pvalue)[0])
                    probs = []
                    if not math.isclose(got_p, p_true, rel_tol=1e-6, abs_tol=0.0):
                        probs.append(f'upper-tail probability {got_p!r} for chi2 = {sum(b * b for b in v2)} with {k} degree(s) of freedom; the law gives {p_true!r}')
                    if bool(r) != (p_true > alpha):
                        probs.append(f'verdict {bool(r)} at level {alpha!r} although the probability is {p_true!r}')
                    if probs:
                        fails.append({'input': {'values': [[0.0] * k, v2], 'errors': [e, e], 'alpha': alpha, 'ignore_empty': False, 'scalar': scalar}, 'observed': probs[:3],
                                      'expected': 'C07 oracle (closed form of the chi-square upper tail)'})
    return {'name': 'chi2-native', 'evaluations': n, 'distinct': n, 'failures': fails[:8], 'exhaustive': False,
            'bound': 'seeded random datasets of 1-3 bins, 1-2 compared datasets, values / errors from the small scope (NaN and infinities only without ignore_empty), '
                     'alpha in {0.01, 0.05, 0.5}, both settings of ignore_empty; statistic, ndf, probability decision, permutation of bins; plus tiny magnitudes '
                     '(values ~1e-9, errors 1e-10..5e-9) and integer-valued datasets (int64 / int32 arrays, Python ints, differences up to 7.5e9) against an oracle in exact rational arithmetic; far tails: chi2 in {0.5 .. 1200} with 1 and 2 degrees of freedom against the closed forms of the upper tail, '
                     'levels at half and twice that probability (down to 1e-261)',
            'samples': [{'values': [[1.0, 2.0], [1.0, 0.0]], 'errors': [[0.0, 1.0], [0.0, 1.0]], 'alpha': 0.05, 'ignore_empty': True}]}


def bonferroni_sweep(tier, seed):
    import warnings
    import random
    import numpy as np
    from valjean.gavroche.stat_tests.bonferroni import TestBonferroni, TestHolmBonferroni
    from valjean.gavroche.stat_tests.student import TestStudent
    warnings.filterwarnings('ignore')
    rng = random.Random(seed)
    fails, n = [], 0
    # static methods on raw p-value arrays: the definitions
    pool = [0.0, 1.0, float('nan'), 0.5, 0.04, 0.05, 0.025, 0.01, 0.0125, 0.001]
    for _ in range(400 if tier == 'quick' else 4000):
        n += 1
        m = rng.choice((1, 2, 3, 4))
        p = [rng.choice(pool) for _ in range(m)]
        level = rng.choice((0.05, 0.01, 0.5))
        shape = rng.choice([(m,)] + ([(2, 2)] if m == 4 else []))
        arr = np.array(p, dtype=float).reshape(shape)
        probs = []
        try:
            tb = TestBonferroni.bonferroni_correction(arr, level / m) if hasattr(TestBonferroni, 'bonferroni_correction') else None
        except Exception as e:      # noqa
            tb = None
            probs.append(f'bonferroni_correction raised {e!r}')
        if tb is not None:
            want = [(x <= level / m) if not math.isnan(x) else True for x in p]
            if np.ravel(tb).tolist() != want or np.shape(tb) != shape:
                probs.append(f'Bonferroni flags {np.ravel(tb).tolist()} != p <= level/m {want} (an undefined p-value is never accepted)')
        try:
            alphas_i, th = TestHolmBonferroni.holm_bonferroni_method(arr, level)
        except Exception as e:      # noqa
            th = None
            probs.append(f'holm_bonferroni_method raised {e!r}')
        if th is not None:
            flat = list(p)
            order = sorted(range(m), key=lambda i: (math.isnan(flat[i]), flat[i]))
            wanth = [None] * m
            for rank, i in enumerate(order, start=1):
                wanth[i] = (flat[i] < level / (m - rank + 1)) if not math.isnan(flat[i]) else True
            got = np.ravel(th).tolist()
            # ties: any order of equal p-values is a valid ranking; accept if some tie-break gives the result
            if got != wanth and not _holm_tie_ok(flat, got, level):
                probs.append(f'Holm flags {got} != rank rule {wanth} for p = {flat}, level {level}')
            if np.shape(th) != shape:
                probs.append(f'Holm flags have shape {np.shape(th)} instead of {shape}')
            if tb is not None and any(b and not h for b, h in zip(np.ravel(tb).tolist(), got)):
                bad = [(x, b, h) for x, b, h in zip(flat, np.ravel(tb).tolist(), got) if b and not h]
                if not all(_boundary(x, level, m) for x, _, _ in bad):
                    probs.append(f'a bin flagged by Bonferroni is not flagged by Holm: {bad}')
        if probs:
            fails.append({'input': {'pvalues': p, 'shape': list(shape), 'level': level}, 'observed': probs[:3], 'expected': 'C06 oracle'})
            if len(fails) >= 8:
                break
    # through the tests: verdict = nothing flagged; passes bin by bin => passes both corrections
    for _ in range(60 if tier == 'quick' else 600):
        n += 1
        k = rng.choice((1, 2, 3))
        v1 = [rng.choice([0.0, 1.0, 2.0, 0.5]) for _ in range(k)]
        v2 = [x + rng.choice([0.0, 0.1, 1.0, 3.0, float('nan')]) for x in v1]
        e = [rng.choice([0.5, 1.0]) for _ in range(k)]
        alpha = rng.choice((0.05, 0.01, 0.5))
        # the underlying test has its own level, independent of the correction's
        alpha_s = rng.choice((alpha, alpha, 0.01, 0.001, 0.2))
        st = TestStudent(_ds(v1, e), _ds(v2, e), name='s', alpha=alpha_s, ndf=20)
        rb = TestBonferroni(name='b', test=st, alpha=alpha).evaluate()
        rh = TestHolmBonferroni(name='h', test=st, alpha=alpha).evaluate()
        rs = st.evaluate()
        probs = []
        pv = [float(x) for x in np.ravel(rs.pvalue[0])]
        m = len(pv)
        wantb = [(x <= (alpha / 2) / m) if not math.isnan(x) else True for x in pv]
        gotb = np.ravel(rb.rejected_null_hyp[0]).tolist()
        if gotb != wantb:
            probs.append(f'Bonferroni flags {gotb} != p <= (alpha/2)/m {wantb} for p-values {pv}, alpha {alpha} (Student level {alpha_s})')
        order = sorted(range(m), key=lambda i: (math.isnan(pv[i]), pv[i]))
        wanth = [None] * m
        for rank, i in enumerate(order, start=1):
            wanth[i] = (pv[i] < (alpha / 2) / (m - rank + 1)) if not math.isnan(pv[i]) else True
        goth = np.ravel(rh.rejected_null_hyp[0]).tolist()
        if goth != wanth and not _holm_tie_ok(pv, goth, alpha / 2):
            probs.append(f'Holm flags {goth} != rank rule {wanth} for p-values {pv}, alpha {alpha} (Student level {alpha_s})')
        for lab, r in (('Bonferroni', rb), ('Holm', rh)):
            flagged = bool(np.any([np.any(x) for x in r.rejected_null_hyp]))
            if bool(r) == flagged:
                probs.append(f'{lab}: verdict {bool(r)} although flags = {[np.ravel(x).tolist() for x in r.rejected_null_hyp]}')
            if alpha_s == alpha and bool(rs) and not bool(r):
                probs.append(f'{lab}: fails although the comparison passes bin by bin at the same level')
        if any(math.isnan(x) for x in v2) and (bool(rb) or bool(rh)):
            probs.append('a bin without a defined p-value was accepted')
        if probs:
            fails.append({'input': {'v1': v1, 'v2': v2, 'e': e, 'alpha': alpha, 'student_alpha': alpha_s}, 'observed': probs[:3], 'expected': 'C06 oracle'})
            if len(fails) >= 8:
                break
    # several compared datasets: the level depends on the number of BINS, not on how many datasets share the test; flags of a dataset do not depend on its neighbours
    for _ in range(40 if tier == 'quick' else 400):
        n += 1
        k = rng.choice((2, 3))
        nd = rng.choice((2, 3))
        v1 = [rng.choice([0.0, 1.0, 2.0]) for _ in range(k)]
        e = [rng.choice([0.5, 1.0]) for _ in range(k)]
        others = [[x + rng.choice([0.0, 0.5, 1.5, 2.3, 3.0]) for x in v1] for _ in range(nd)]
        alpha = rng.choice((0.05, 0.2, 0.5))
        st = TestStudent(_ds(v1, e), *[_ds(o, e) for o in others], name='s', alpha=alpha, ndf=20)
        rs = st.evaluate()
        rb = TestBonferroni(name='b', test=st, alpha=alpha).evaluate()
        rh = TestHolmBonferroni(name='h', test=st, alpha=alpha).evaluate()
        probs = []
        for d in range(nd):
            pv = [float(x) for x in np.ravel(rs.pvalue[d])]
            wantb = [(x <= (alpha / 2) / k) if not math.isnan(x) else True for x in pv]
            if np.ravel(rb.rejected_null_hyp[d]).tolist() != wantb:
                probs.append(f'Bonferroni, dataset {d} of {nd}: flags {np.ravel(rb.rejected_null_hyp[d]).tolist()} != p <= (alpha/2)/{k} {wantb} for p-values {pv}')
            order = sorted(range(k), key=lambda i: (math.isnan(pv[i]), pv[i]))
            wanth = [None] * k
            for rank, i in enumerate(order, start=1):
                wanth[i] = (pv[i] < (alpha / 2) / (k - rank + 1)) if not math.isnan(pv[i]) else True
            goth = np.ravel(rh.rejected_null_hyp[d]).tolist()
            if goth != wanth and not _holm_tie_ok(pv, goth, alpha / 2):
                probs.append(f'Holm, dataset {d} of {nd}: flags {goth} != rank rule {wanth} for p-values {pv}')
        # the verdict of the whole comparison: true exactly when nothing is flagged in ANY compared dataset; one oracle per dataset
        for lab, r in (('Bonferroni', rb), ('Holm', rh)):
            flagged = [bool(np.any(x)) for x in r.rejected_null_hyp]
            if bool(r) != (not any(flagged)):
                probs.append(f'{lab}: verdict {bool(r)} although the datasets with flagged bins are {flagged}')
            orc = [bool(x) for x in r.oracles()]
            if orc != [not f for f in flagged]:
                probs.append(f'{lab}: oracles {orc} != nothing flagged per dataset {[not f for f in flagged]}')
        if probs:
            fails.append({'input': {'v1': v1, 'others': others, 'e': e, 'alpha': alpha}, 'observed': probs[:3], 'expected': 'C06 oracle, per compared dataset'})
            if len(fails) >= 8:
                break
    # memory layout: flags are reported at the original position of each bin whatever the array shape (2-d arrays, C and Fortran order, transposed views)
    for shape, maker in (((2, 3), np.ascontiguousarray), ((2, 3), np.asfortranarray), ((3, 2), lambda a: np.ascontiguousarray(a.T).T)):
        for _ in range(20 if tier == 'quick' else 200):
            n += 1
            p = [rng.choice(pool) for _ in range(6)]
            level = rng.choice((0.05, 0.5))
            arr = maker(np.array(p, dtype=float).reshape(shape))
            flat = [float(x) for x in np.ravel(arr)]          # logical (C) order
            probs = []
            tb = TestBonferroni.bonferroni_correction(arr, level / 6)
            wantb = [(x <= level / 6) if not math.isnan(x) else True for x in flat]
            if np.shape(tb) != shape or np.ravel(tb).tolist() != wantb:
                probs.append(f'Bonferroni flags {np.ravel(tb).tolist()} != {wantb} at the original positions')
            _, th = TestHolmBonferroni.holm_bonferroni_method(arr, level)
            order = sorted(range(6), key=lambda i: (math.isnan(flat[i]), flat[i]))
            wanth = [None] * 6
            for rank, i in enumerate(order, start=1):
                wanth[i] = (flat[i] < level / (6 - rank + 1)) if not math.isnan(flat[i]) else True
            goth = np.ravel(th).tolist()
            if np.shape(th) != shape or (goth != wanth and not _holm_tie_ok(flat, goth, level)):
                probs.append(f'Holm flags {goth} != rank rule {wanth} at the original positions (shape {np.shape(th)})')
            if probs:
                fails.append({'input': {'pvalues': p, 'shape': list(shape), 'memory_order': 'F' if maker is np.asfortranarray else ('C' if maker is np.ascontiguousarray else 'transposed view'),
                                        'level': level}, 'observed': probs[:3], 'expected': 'flags at the original position of each bin whatever the array shape'})
                break
    return {'name': 'bonferroni-holm-native', 'evaluations': n, 'distinct': n, 'failures': fails[:8], 'exhaustive': False,
            'bound': 'seeded random p-value arrays of size 1-4 (incl. 2x2) from {0, 1, NaN, 0.5, 0.04, 0.05, 0.025, 0.01, 0.0125, 0.001} with ties, levels {0.05, 0.01, 0.5}: '
                     'definitions of both corrections on the static methods; 1-3 bin Student comparisons through TestBonferroni / TestHolmBonferroni with an independent Student level '
                     '(per-bin flags against the definitions applied to the underlying p-values); 2-3 compared datasets in one test; 2-d p-value arrays in C / Fortran order and transposed views',
            'samples': [{'pvalues': [0.05, float('nan')], 'shape': [2], 'level': 0.05}]}


def _boundary(x, level, m):
    return not math.isnan(x) and abs(x - level / m) < 1e-15


def _holm_tie_ok(p, got, level):
    '''with tied p-values any consistent ranking is acceptable'''
    m = len(p)
    idx = list(range(m))
    for order in itertools.permutations(idx):
        keys = [(math.isnan(p[i]), p[i]) for i in order]
        if any(keys[a] > keys[a + 1] for a in range(m - 1) if not (math.isnan(p[order[a]]) or math.isnan(p[order[a + 1]]))):
            continue
        if any(math.isnan(p[order[a]]) and not math.isnan(p[order[a + 1]]) for a in range(m - 1)):
            continue
        want = [None] * m
        for rank, i in enumerate(order, start=1):
            want[i] = (p[i] < level / (m - rank + 1)) if not math.isnan(p[i]) else True
        if want == got:
            return True
    return False


def boundary_witness():
    '''the recorded known finding of C06: at p == level/m and rank 1 Bonferroni ("at most") flags the bin and Holm ("below") does not'''
    import numpy as np
    from valjean.gavroche.stat_tests.bonferroni import TestBonferroni, TestHolmBonferroni
    p = np.array([0.05])
    b = TestBonferroni.bonferroni_correction(p, 0.05)
    _, h = TestHolmBonferroni.holm_bonferroni_method(p, 0.05)
    if bool(b[0]) and not bool(h[0]):
        return ('at p == level/m and rank 1 the two definitions of the statement clash: Bonferroni ("at most the level") flags p = [0.05] at level 0.05, '
                'Holm ("below the level") does not; every other point satisfies "flagged by Bonferroni => flagged by Holm" (lemma discharged)')
    return None
