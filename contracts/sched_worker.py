'''Worker thread and master loop of QueueScheduling as sequences of atomic actions (DESIGN.md section 3).

The real bodies of WorkerThread.run (one loop iteration) and execute_tasks are executed symbolically; every
call that touches shared state (Env methods, Queue, Condition, Thread) is an *atomic action* recorded in a
per-path trace by the models below (assumed contracts of threading / queue, A-thread).  Obligations are
stated over the trace of every path.'''
import ast
import z3

from pyvc import theory as th
from pyvc.values import SV, SObj, SClass, SNamespace, SFunc, SPyExc, T, INT, BOOL, NUM, STR, Undecided, lift, coerce, zsort, opt_is_none, opt_get
from pyvc.engine import Contract, LoopSpec, PyRaise, Scope
from pyvc.verify import World, ClassModel
from . import sched_world as sw

QF = sw.QF
TASK, NAME, STATUS = sw.TASK, sw.NAME, sw.STATUS
RAW = T('Opt', STATUS)        # what a task hands back as "status": a TaskStatus, or anything else (None here)


def ev(I, *e):
    I.trace.append(e)


class WEnv(sw.EnvModel):
    '''Env seen by a worker: the EnvModel actions, each recorded as one atomic action.'''
    name = 'Env'

    def m_apply(self, I, env, update):
        # contract of Env.apply: None -> nothing; a mapping -> merged under the lock; anything else raises
        ev(I, 'apply-call', update)
        if update is None:
            return None
        if isinstance(update, SObj) and update.cls == 'Update':
            kind = I.getfield(update, 'kind')
            U = I.world.globals['UpdateKind'].members
            if I.path.cond(kind.t == U['MAPPING'].t):
                ev(I, 'applied', I.getfield(update, 'owner'))
                return None
            if I.path.cond(z3.Or(kind.t == U['CORRUPTING'].t, kind.t == U['READONLY'].t)):
                # a mapping that replaces the task's own entry by something that is not a MutableMapping (Env.apply merges
                # MutableMapping values only and stores everything else as it is): apply succeeds, every later write into
                # that entry (clocks, status) raises
                ev(I, 'applied', I.getfield(update, 'owner'))
                I.corrupt = True
                return None
            I.raise_('AttributeError')      # update.items() on a non-mapping
        raise Undecided('apply of an unknown value')

    def m___setitem__(self, I, env, key, value):
        '''env[name] = {...}: replaces the whole entry (atomic dict store)'''
        if not isinstance(value, dict) or 'status' not in value:
            raise Undecided('Env item store of an unknown value')
        I.corrupt = False
        if 'start_clock' in value and 'end_clock' in value:
            ev(I, 'clocks', ('name', key), value['start_clock'], value['end_clock'])
        ev(I, 'set_status', ('name', key), value['status'])
        return None

    def m_set_start_end_clock(self, I, env, task, *, start, end):
        if getattr(I, 'corrupt', False):
            ev(I, 'clocks-raises')
            I.raise_('TypeError')
        ev(I, 'clocks', task, start, end)
        n = self._name(I, task)
        present = I.getfield(env, 'present')
        was = present.t[n.t]
        W = I.world.enum_const('TaskStatus', 'WAITING')
        # apply({name: {'start_clock':..., 'end_clock':...}}): creates the entry without a status when missing
        I.setfield(env, 'present', SV(present.typ, z3.Store(present.t, n.t, True)))
        for f, v in (('start', start), ('end', end)):
            cur = I.getfield(env, f)
            vv = coerce(v if isinstance(v, SV) else lift(v, NUM), sw.CLOCK)
            I.setfield(env, f, SV(cur.typ, z3.Store(cur.t, n.t, vv.t)))
        return None

    def m_set_status(self, I, env, task, status):
        if getattr(I, 'corrupt', False):
            ev(I, 'set_status-raises')
            I.raise_('TypeError')
        ev(I, 'set_status', task, status)
        return super().m_set_status(I, env, task, status)

    def m_get_status(self, I, env, task):
        ev(I, 'get_status', task)
        return super().m_get_status(I, env, task)


class UpdateModel(ClassModel):
    '''what a task returns as its update: a mapping of task names to dictionaries (MAPPING), a mapping with a value that
    is not a mapping (CORRUPTING), a mapping whose value for the task is a read-only mapping (READONLY: a Mapping that is not
    a MutableMapping, e.g. types.MappingProxyType), or something that is not a mapping at all (BAD: no .items() / .values())'''
    name = 'Update'
    fields = {}

    def _kind(self, I, u):
        return I.getfield(u, 'kind'), I.world.globals['UpdateKind'].members

    def m___bool__(self, I, u):
        # any update may be empty ({} for a mapping; [], '', 0, () ... for something that is not a mapping)
        return SV(BOOL, z3.Not(I.getfield(u, 'falsy').t))

    def m_values(self, I, u):
        kind, U = self._kind(I, u)
        if I.path.cond(kind.t == U['BAD'].t):
            I.raise_('AttributeError')
        good = I.alloc('UpdVal', {'is_mapping': True, 'is_mutable': True})
        if I.path.cond(kind.t == U['CORRUPTING'].t):
            return [good, I.alloc('UpdVal', {'is_mapping': False, 'is_mutable': False})]
        if I.path.cond(kind.t == U['READONLY'].t):
            return [good, I.alloc('UpdVal', {'is_mapping': True, 'is_mutable': False})]
        return [good]

    def m_get(self, I, u, key, default=None):
        '''update.get(task.name, {}): the value the update holds for the task's own entry (a dictionary for MAPPING,
        something else for CORRUPTING)'''
        kind, U = self._kind(I, u)
        if I.path.cond(kind.t == U['BAD'].t):
            I.raise_('AttributeError')
        if I.path.cond(kind.t == U['CORRUPTING'].t):
            return I.alloc('UpdVal', {'is_mapping': False, 'is_mutable': False})
        if I.path.cond(kind.t == U['READONLY'].t):
            return I.alloc('UpdVal', {'is_mapping': True, 'is_mutable': False})
        return I.alloc('UpdVal', {'is_mapping': True, 'is_mutable': True})

    def m_items(self, I, u):
        kind, U = self._kind(I, u)
        if I.path.cond(kind.t == U['BAD'].t):
            I.raise_('AttributeError')
        raise Undecided('iteration over the items of a task update outside Env.apply')

    def m_keys(self, I, u):
        kind, U = self._kind(I, u)
        if I.path.cond(kind.t == U['BAD'].t):
            I.raise_('AttributeError')
        return []


class WQueue(ClassModel):
    name = 'Queue'
    fields = {}

    def m_get(self, I, q):
        ev(I, 'get')
        return I.fresh(T('Opt', TASK), 'dequeued')

    def m_task_done(self, I, q):
        ev(I, 'task_done')
        return None

    def m_put(self, I, q, item):
        ev(I, 'put', item)
        return None

    def m_join(self, I, q):
        ev(I, 'queue-join')
        return None


class Cond(ClassModel):
    name = 'Condition'
    fields = {}

    def m_notify_all(self, I, c):
        ev(I, 'notify_all', I.cv_depth)
        return None

    def m_notify(self, I, c, n=1):
        ev(I, 'notify', I.cv_depth)
        return None

    def m_wait(self, I, c, timeout=None):
        ev(I, 'wait', I.cv_depth)
        return True


class Worker(ClassModel):
    name = 'WorkerThread'
    fields = {'queue': 'Obj:Queue', 'env': 'Obj:Env', 'cond_var': 'Obj:Condition', 'name': 'Str'}

    def fresh(self, I, base):
        o = super().fresh(I, base)
        I.setfield(o, 'config', None)
        return o


def make_worker_world():
    w = sw.make_world()
    w.class_models['Env'] = WEnv(w)
    w.class_models['Queue'] = WQueue(w)
    w.class_models['Condition'] = Cond(w)
    w.class_models['WorkerThread'] = Worker(w)
    sort, consts = th.enum_sort('UpdateKind', ['NONE', 'MAPPING', 'BAD', 'CORRUPTING', 'READONLY'])
    w.globals['UpdateKind'] = SNamespace('UpdateKind', {m: SV(T('Enum', 'UpdateKind'), c) for m, c in consts.items()})
    sort, consts = th.enum_sort('Outcome', ['RAISES', 'EXITS', 'NONE', 'PAIR', 'NOT_A_PAIR'])
    w.globals['Outcome'] = SNamespace('Outcome', {m: SV(T('Enum', 'Outcome'), c) for m, c in consts.items()})

    def now(I):
        t = I.fresh(NUM, 'now')
        I.path.assume(th.is_fin(t.t))
        return t
    w.globals['time'] = SNamespace('time', {'time': now})

    def task_do(I, task, env, config):
        '''contract of Task.do (user code): ensures true, signals BaseException.  The ghost `outcome` records what it
        did: raise an Exception / raise something that is not an Exception (EXITS: SystemExit from sys.exit() in user code) /
        None / a pair (update, status) / something that is not a pair.  A-task-readonly: it does not
        write the environment it is handed.'''
        O = w.globals['Outcome'].members
        out = I.fresh(T('Enum', 'Outcome'), 'outcome')
        I.outcome = out
        ev(I, 'do', task)
        if I.path.cond(out.t == O['RAISES'].t):
            I.raise_('Exception')
        if I.path.cond(out.t == O['EXITS'].t):
            # anything that is not an Exception: SystemExit (sys.exit() in user code), or another BaseException (KeyboardInterrupt raised by hand, GeneratorExit,
            # a user-defined subclass)
            I.raise_('SystemExit' if I.path.choose(2, 'which-base-exception') == 0 else 'KeyboardInterrupt')
        if I.path.cond(out.t == O['NONE'].t):
            return None
        if I.path.cond(out.t == O['PAIR'].t):
            kind = I.fresh(T('Enum', 'UpdateKind'), 'update_kind')
            I.update_kind = kind
            U = w.globals['UpdateKind'].members
            upd = None if I.path.cond(kind.t == U['NONE'].t) else I.alloc('Update', {'kind': kind, 'owner': task, 'falsy': I.fresh(BOOL, 'update_is_empty')})
            raw = I.fresh(RAW, 'returned_status')
            I.returned = (upd, raw)
            return (upd, raw)
        return I.alloc('NotAPair', {})
    w.ref_methods[('Task', 'do')] = task_do
    w.class_models['Update'] = UpdateModel(w)
    w.globals['Mapping'] = SClass('Mapping')
    w.globals['MutableMapping'] = SClass('MutableMapping')

    def isinstance_hook(I, x, cls):
        names = [c.name for c in (cls if isinstance(cls, tuple) else (cls,)) if isinstance(c, SClass)]
        if isinstance(x, SObj) and x.cls == 'UpdVal' and set(names) & {'Mapping', 'MutableMapping', 'dict'}:
            # Mapping is the wider class: a read-only mapping is a Mapping but neither a MutableMapping nor a dict
            return I.getfield(x, 'is_mapping' if 'Mapping' in names else 'is_mutable')
        if isinstance(x, SObj) and x.cls == 'Update' and set(names) & {'Mapping', 'MutableMapping', 'dict'}:
            kind = I.getfield(x, 'kind')
            return SV(BOOL, kind.t != w.globals['UpdateKind'].members['BAD'].t)
        if x is None and names:
            return False
        return NotImplemented
    w.isinstance_hook = isinstance_hook

    def unpack_hook(I, v, n):
        if isinstance(v, SObj) and v.cls == 'NotAPair':
            I.raise_('TypeError')      # cannot unpack non-iterable / ValueError: wrong number of values
        return None
    w.unpack_hook = unpack_hook

    def construct_status(I, args, kwargs):
        '''TaskStatus(x): x itself when it is a member, ValueError otherwise'''
        (x,) = args
        if isinstance(x, SV) and x.typ == STATUS:
            return x
        if isinstance(x, SV) and x.typ == RAW:
            if I.path.cond(opt_is_none(x)):
                I.raise_('ValueError')
            return opt_get(x)
        raise Undecided('TaskStatus() of an unknown value')
    w.construct_hooks['TaskStatus'] = construct_status
    # TaskStatus is both a namespace of members and a constructor
    ts_ns = w.globals['TaskStatus']
    w.globals['TaskStatus'] = TaskStatusNS(ts_ns.name, ts_ns.members)
    w.exc_parents['Exception'] = 'BaseException'
    return w


class TaskStatusNS(SNamespace):
    pass


def worker_contract():
    return Contract(QF, 'QueueScheduling.WorkerThread.run', params={'self': 'Obj:WorkerThread'}, signals=None,
                    variant='one-iteration')


def worker_body(fn):
    '''the body of the `while True:` loop of run(): one iteration'''
    loops = [st for st in fn.body if isinstance(st, ast.While)]
    if len(loops) != 1 or not (isinstance(loops[0].test, ast.Constant) and loops[0].test.value is True):
        raise Undecided('WorkerThread.run is no longer a single `while True:` loop')
    return loops[0].body


def worker_setup(I, scope):
    I.trace = []
    I.cv_depth = 0
    I.outcome = None
    I.returned = None
    I.corrupt = False
    I.update_kind = None

    def with_hook(I2, v, what):
        if isinstance(v, SObj) and v.cls == 'Condition':
            I2.cv_depth += 1 if what == 'enter' else -1
            ev(I2, 'cv-' + what)
    I.hooks['with'] = with_hook


def worker_check(I, scope, outcome):
    '''obligations over the trace of one iteration (every path)'''
    p = I.path
    L = 'valjean/cosette/backends/queue.py::QueueScheduling.WorkerThread.run[one-iteration]'
    tr = I.trace
    kinds = [e[0] for e in tr]
    W = I.world
    D, F = W.enum_const('TaskStatus', 'DONE'), W.enum_const('TaskStatus', 'FAILED')
    if outcome[0] == 'raise':
        # C02 / C03: nothing escapes between queue.get() and the next iteration
        p.oblige(f'{L}::signals::no-exception-escapes-an-iteration', False, kind='signals',
                 meta={'expr': f'raises nothing (escaping: {outcome[1].cls}; trace: {kinds})'})
        return
    if outcome[0] == 'break':
        # sentinel: the thread leaves without touching the environment
        p.oblige(f'{L}::post::C03-sentinel-is-acknowledged-and-nothing-else', kinds == ['get', 'task_done'], kind='post',
                 meta={'expr': f'on the None sentinel the actions are queue.get(), queue.task_done() (queue stays balanced for the next '
                               f'execute_tasks on the same backend); trace: {kinds}'})
        return
    task = scope.lookup('task')
    sets = [e for e in tr if e[0] == 'set_status']
    # exactly one status publication, of a final status
    p.oblige(f'{L}::post::publishes-exactly-one-status', len(sets) == 1, kind='post',
             meta={'expr': f'exactly one env.set_status per executed task (trace: {kinds})'})
    if len(sets) != 1:
        return
    st = sets[0][2]
    if not (isinstance(st, SV) and st.typ == STATUS):
        raise Undecided('published status is not a TaskStatus term')
    p.oblige(f'{L}::post::C02-published-status-is-DONE-or-FAILED', z3.Or(st.t == D.t, st.t == F.t), kind='post',
             meta={'expr': 'the status a worker publishes is DONE or FAILED'})
    O = W.globals['Outcome'].members
    U = W.globals['UpdateKind'].members
    out = I.outcome
    wellformed = z3.BoolVal(False)
    if I.returned is not None:
        upd, raw = I.returned
        kind = I.update_kind
        ok_status = z3.And(z3.Not(opt_is_none(raw)), z3.Or(opt_get(raw).t == D.t, opt_get(raw).t == F.t))
        wellformed = z3.And(out.t == O['PAIR'].t, ok_status, kind.t != U['BAD'].t, kind.t != U['CORRUPTING'].t, kind.t != U['READONLY'].t)
        p.oblige(f'{L}::post::C02-wellformed-result-keeps-its-status', z3.Implies(wellformed, st.t == opt_get(raw).t), kind='post',
                 meta={'expr': 'a well-formed (update, DONE|FAILED) result is published with the returned status'})
    p.oblige(f'{L}::post::C02-raise-or-malformed-result-is-FAILED', z3.Implies(z3.Not(wellformed), st.t == F.t), kind='post',
             meta={'expr': 'raise / None / not a pair / bad status / update that is not a mapping => FAILED'})
    # C01 (J1): payload and clocks are published before the final status; nothing is published after it
    i_set = tr.index(sets[0])
    applied = [i for i, e in enumerate(tr) if e[0] == 'applied']
    clocks = [i for i, e in enumerate(tr) if e[0] == 'clocks']
    if I.returned is not None:
        upd, raw = I.returned
        kind = I.update_kind
        nonempty = z3.Not(I.getfield(upd, 'falsy').t) if isinstance(upd, SObj) else z3.BoolVal(False)      # applying an empty mapping changes nothing: not required
        must_apply = z3.And(wellformed, kind.t == U['MAPPING'].t, st.t == D.t, nonempty)
        p.oblige(f'{L}::yield-inv::C01-update-applied-before-status', z3.Implies(must_apply, z3.BoolVal(bool(applied) and max(applied) < i_set)),
                 kind='yield-inv', meta={'expr': 'st[task] final => the returned update is already applied (Env.apply precedes Env.set_status)'})
    p.oblige(f'{L}::yield-inv::C01-nothing-applied-after-status', all(i < i_set for i in applied), kind='yield-inv',
             meta={'expr': 'no Env.apply after the final status is visible'})
    p.oblige(f'{L}::yield-inv::C04-clocks-before-status', len(clocks) == 1 and clocks[0] < i_set, kind='yield-inv',
             meta={'expr': 'st[task] final => start/end clocks of this run are already recorded'})
    if len(clocks) == 1:
        c = tr[clocks[0]]
        i_do = kinds.index('do') if 'do' in kinds else None
        s_, e_ = c[2], c[3]
        p.oblige(f'{L}::post::C04-clocks-are-of-this-task', same_task(c[1], task), kind='post',
                 meta={'expr': 'clocks are recorded for the executed task'})
    # C03: task_done exactly once, then notify_all exactly once while holding cond_var, both after the publication
    td = [i for i, k in enumerate(kinds) if k == 'task_done']
    nt = [i for i, e in enumerate(tr) if e[0] in ('notify_all', 'notify')]
    p.oblige(f'{L}::post::C03-task_done-exactly-once-after-publication', len(td) == 1 and td[0] > i_set, kind='post',
             meta={'expr': f'queue.task_done() once per dequeued task, after the status is published (trace: {kinds})'})
    p.oblige(f'{L}::post::C03-notify_all-once-under-cond_var-after-publication',
             len(nt) == 1 and tr[nt[0]][0] == 'notify_all' and tr[nt[0]][1] >= 1 and nt[0] > i_set, kind='post',
             meta={'expr': 'cond_var.notify_all() once, inside `with cond_var`, after the status is published'})
    dos = [e for e in tr if e[0] == 'do']
    p.oblige(f'{L}::post::C02-task-executed-exactly-once-per-dequeue', len(dos) == 1 and same_task(dos[0][1], task),
             kind='post', meta={'expr': 'task.do() is called exactly once per dequeued task'})
    # only the dequeued task's entry is written
    for e in tr:
        if e[0] in ('set_status', 'clocks'):
            same = same_task(e[1], task)
            p.oblige(f'{L}::frame::only-the-dequeued-task-is-written', bool(same), kind='frame',
                     meta={'expr': 'Env writes of a worker name the dequeued task only'})


def same_task(a, b):
    if isinstance(a, tuple) and a and a[0] == 'name':
        # entry addressed by its name: task.name of the dequeued task
        nm = a[1]
        b2 = opt_get(b) if isinstance(b, SV) and b.typ.kind == 'Opt' else b
        f = th.func('Task.name', zsort(TASK), zsort(NAME))
        return isinstance(nm, SV) and isinstance(b2, SV) and z3.simplify(nm.t).eq(z3.simplify(f(b2.t)))

    def norm(x):
        if isinstance(x, SV) and x.typ.kind == 'Opt':
            return opt_get(x)
        return x
    a, b = norm(a), norm(b)
    return a is b or (isinstance(a, SV) and isinstance(b, SV) and a.t.eq(b.t))


# ---------------------------------------------------------------------------------------
# execute_tasks: every exit path stops and joins every worker it started (C03), the master holds cond_var from
# the inspection of the states until wait() (C03), and _enqueue is called within its contract (C01/C02)
THREAD = T('Ref', 'Thread')


class Ghost(ClassModel):
    name = 'Ghost'
    fields = {'started': 'Int', 'sentinels': 'Int', 'joined': 'Int', 'queue_joined': 'Bool'}


class MQueue(ClassModel):
    '''the master's view of the work queue: put(None) counts sentinels; join is recorded'''
    name = 'Queue'
    fields = {'items': 'Seq[Ref:Task]'}

    def m_put(self, I, q, item):
        g = I.ghost
        if item is None:
            cur = I.getfield(g, 'sentinels')
            I.setfield(g, 'sentinels', SV(INT, cur.t + 1))
            ev(I, 'put-sentinel')
            return None
        raise Undecided('execute_tasks puts a task itself')

    def m_join(self, I, q):
        ev(I, 'queue-join', I.cv_depth)
        I.setfield(I.ghost, 'queue_joined', SV(BOOL, z3.BoolVal(True)))
        return None


class MGraph(sw.GraphModel):
    name = 'DepGraph'

    def m_topological_sort(self, I, g):
        '''contract of DepGraph.topological_sort (its real body is the bounded part of C16): returns the nodes in an
        order in which dependencies come first -- here: strictly increasing ghost rank, every dependency of a listed
        task has a lower rank; signals DepGraphError on a cyclic graph.'''
        ev(I, 'toposort')
        if I.path.cond(z3.Bool(I.path.name('cyclic'))):
            I.raise_('DepGraphError')
        out = I.fresh(T('Seq', TASK), 'sorted')
        sc = Scope(None, {'tasks': out, 'full_graph': g})
        for e in (sw.RANKED, sw.DEPS_RANK_LOWER, sw.UNIQUE_NAMES):
            I.path.assume(I.spec(e, sc))
        return out


class Master(ClassModel):
    name = 'QueueScheduling'
    fields = {'queue': 'Obj:Queue', 'n_workers': 'Int'}

    def c_WorkerThread(self, I, cls):
        return SClass('WorkerThread')


def c_enqueue_for_master():
    '''_enqueue as execute_tasks sees it: its contract (verified by unit `enqueue`) plus "may raise anything",
    which stands for every failure of the master between two synchronisation points'''
    c = sw.c_enqueue()
    c.signals = {'Exception': True}
    c.modifies = ['env.present', 'env.status', 'env.start', 'env.end']
    c.returns = 'Seq[Ref:Task]'
    keep = ('left-keep-their-order', 'left-are-waiting', 'present-grows', 'clocks-stay-comparable-0', 'clocks-stay-comparable-1')
    c.ensures = [e for e in c.ensures if e[0] in keep] + [
        ('left-subset', 'all(any(result[k] is tasks[i] for i in range(len(tasks))) for k in range(len(result)))'),
        ('left-not-longer', 'len(result) <= len(tasks)')]
    # the ghost alias queue_ is not visible to the caller: drop clauses that mention it
    c.ensures = [e for e in c.ensures if 'queue_' not in e[1]]
    return c


def make_master_world():
    w = sw.make_world()
    w.class_models['Queue'] = MQueue(w)
    w.class_models['Condition'] = Cond(w)
    w.class_models['QueueScheduling'] = Master(w)
    w.class_models['DepGraph'] = MGraph(w)
    w.class_models['Ghost'] = Ghost(w)
    w.globals['threading'] = SNamespace('threading', {'Condition': SClass('Condition')})
    w.construct_hooks['Condition'] = lambda I, args, kwargs: I.alloc('Condition', {})
    w.exc_parents['DepGraphError'] = 'Exception'

    def new_thread(I, args, kwargs):
        t = I.fresh(THREAD, 'thread')
        ev(I, 'thread-created', t)
        return t
    w.construct_hooks['WorkerThread'] = new_thread

    def start(I, t):
        g = I.ghost
        I.setfield(g, 'started', SV(INT, I.getfield(g, 'started').t + 1))
        ev(I, 'start')
        return None

    def join(I, t, timeout=None):
        g = I.ghost
        I.setfield(g, 'joined', SV(INT, I.getfield(g, 'joined').t + 1))
        ev(I, 'thread-join', I.cv_depth)
        return None
    w.ref_methods[('Thread', 'start')] = start
    w.ref_methods[('Thread', 'join')] = join
    c = c_enqueue_for_master()
    w.add(c)
    return w


GH0 = 'ghost_.sentinels == 0 and ghost_.joined == 0 and not ghost_.queue_joined'
ALL_STARTED = 'ghost_.started == max(self.n_workers, 0) and len(threads) == ghost_.started'
TASKS_LEFT_OK = [sw.RANKED.replace('tasks', 'tasks_left'), sw.DEPS_RANK_LOWER.replace('tasks', 'tasks_left'),
                 sw.UNIQUE_NAMES.replace('tasks', 'tasks_left')] + sw.CLOCKS_OK


def master_contract():
    return Contract(
        QF, 'QueueScheduling.execute_tasks',
        params={'self': 'Obj:QueueScheduling', 'full_graph': 'Obj:DepGraph', 'hard_graph': 'Obj:DepGraph', 'env': 'Obj:Env', 'config': 'None'},
        requires=['self.n_workers >= 1',
                  # Scheduler.__init__ hands over hard_graph <= full_graph (same nodes, hard edges are edges of the full graph)
                  'all(all(h in full_graph.deps[t] for h in hard_graph.deps[t]) for t in AllTasks)'] + sw.CLOCKS_OK,
        signals={'DepGraphError': True, 'Exception': True},
        loops={
            0: LoopSpec('for _ in range(self.n_workers)', ['ghost_.started == done', 'len(threads) == done', GH0] + sw.CLOCKS_OK,
                        vars={'threads': 'Seq[Ref:Thread]', 'ghost_.started': 'Int'}),
            1: LoopSpec('while tasks_left', [ALL_STARTED, GH0] + TASKS_LEFT_OK,
                        vars={'tasks_left': 'Seq[Ref:Task]', 'n_tasks_left': 'Int', 'env.present': 'Set[Ref:Name]',
                              'env.status': 'Fun[Ref:Name,Enum:TaskStatus]', 'env.start': 'Fun[Ref:Name,Opt[Num]]',
                              'env.end': 'Fun[Ref:Name,Opt[Num]]'}),
            2: LoopSpec('for _ in range(self.n_workers)', [ALL_STARTED, 'ghost_.sentinels == done', 'ghost_.joined == 0'],
                        vars={'ghost_.sentinels': 'Int'}),
            3: LoopSpec('for thread in threads', [ALL_STARTED, 'ghost_.sentinels == ghost_.started', 'ghost_.joined == done'],
                        vars={'ghost_.joined': 'Int'}),
        })


def master_setup(I, scope):
    I.trace = []
    I.cv_depth = 0
    g = I.alloc('Ghost', {'started': SV(INT, z3.IntVal(0)), 'sentinels': SV(INT, z3.IntVal(0)), 'joined': SV(INT, z3.IntVal(0)),
                          'queue_joined': SV(BOOL, z3.BoolVal(False))})
    I.ghost = g
    scope.set('ghost_', g)
    scope.set('AllTasks', SV(T('Set', TASK), z3.K(zsort(TASK), z3.BoolVal(True))))

    def with_hook(I2, v, what):
        if isinstance(v, SObj) and v.cls == 'Condition':
            I2.cv_depth += 1 if what == 'enter' else -1
            ev(I2, 'cv-' + what)
    I.hooks['with'] = with_hook
    I.hooks['step-end'] = master_trace_check


def master_check(I, scope, outcome):
    p = I.path
    L = 'valjean/cosette/backends/queue.py::QueueScheduling.execute_tasks'
    g = I.ghost
    started, sent, joined = (I.getfield(g, f).t for f in ('started', 'sentinels', 'joined'))
    kinds = [e[0] for e in I.trace]
    what = 'normal return' if outcome[0] == 'return' else f'exception {outcome[1].cls}'
    # C03: on every exit, each started worker was sent a sentinel and joined
    p.oblige(f'{L}::exit-paths::C03-every-started-worker-gets-a-sentinel', sent == started, kind='post',
             meta={'expr': f'sentinels put == threads started on every exit ({what})'})
    p.oblige(f'{L}::exit-paths::C03-every-started-worker-is-joined', joined == started, kind='post',
             meta={'expr': f'threads joined == threads started on every exit ({what})'})
    if outcome[0] == 'return':
        p.oblige(f'{L}::post::C03-queue-joined-before-return', I.getfield(g, 'queue_joined').t, kind='post',
                 meta={'expr': 'queue.join() precedes a normal return (every submitted task was processed)'})
        p.oblige(f'{L}::post::C03-all-workers-started', started == I.getfield(scope.lookup('self'), 'n_workers').t, kind='post',
                 meta={'expr': 'n_workers threads were started'})
    if outcome[0] == 'raise' and outcome[1].cls == 'DepGraphError':
        p.oblige(f'{L}::signals-post::C03-cyclic-graph-starts-no-worker', started == 0, kind='signals-post',
                 meta={'expr': 'a cyclic graph is rejected before any worker thread exists'})
    master_trace_check(I)


def master_trace_check(I, scope=None, ordinal=None):
    # C03: wait() only while holding cond_var, in the same critical section as the state inspection;
    # blocking joins never while holding cond_var
    p = I.path
    L = 'valjean/cosette/backends/queue.py::QueueScheduling.execute_tasks'
    for e in I.trace:
        if e[0] == 'wait':
            p.oblige(f'{L}::post::C03-wait-inside-cond_var', e[1] >= 1, kind='post', meta={'expr': 'cond_var.wait() is called holding cond_var'})
        if e[0] in ('queue-join', 'thread-join'):
            p.oblige(f'{L}::post::C03-no-blocking-join-while-holding-cond_var', e[1] == 0, kind='post',
                     meta={'expr': 'queue.join()/thread.join() are not called while holding cond_var (workers need it to notify)'})


# ---------------------------------------------------------------------------------------
# Scheduler.schedule: always hands the (complete) graphs and the environment to the backend, exactly once
SCHF = 'valjean/cosette/scheduler.py'


class Backend(ClassModel):
    name = 'Backend'
    fields = {}

    def m_execute_tasks(self, I, b, *, full_graph, hard_graph, env, config):
        ev(I, 'execute_tasks', full_graph, hard_graph, env, config)
        return None


class SchedulerModel(ClassModel):
    name = 'Scheduler'
    fields = {'full_graph': 'Obj:DepGraph', 'hard_graph': 'Obj:DepGraph', 'backend': 'Obj:Backend'}


def make_schedule_world():
    w = sw.make_world()
    w.class_models['Backend'] = Backend(w)
    w.class_models['Scheduler'] = SchedulerModel(w)
    w.globals['Config'] = SClass('Config')
    w.globals['Env'] = SClass('Env')
    w.construct_hooks['Config'] = lambda I, args, kwargs: I.alloc('Config', {})
    w.construct_hooks['Env'] = lambda I, args, kwargs: w.class_models['Env'].fresh(I, 'new_env')
    return w


def schedule_contract(env_given):
    return Contract(SCHF, 'Scheduler.schedule', params={'self': 'Obj:Scheduler', 'config': 'None', 'env': 'Obj:Env' if env_given else 'None'},
                    signals={}, variant='env-given' if env_given else 'env-omitted')


def schedule_setup(I, scope):
    I.trace = []


def schedule_check(I, scope, outcome):
    p = I.path
    variant = 'env-given' if isinstance(I.entry_scope.lookup('env'), SObj) else 'env-omitted'
    L = f'{SCHF}::Scheduler.schedule[{variant}]'
    calls = [e for e in I.trace if e[0] == 'execute_tasks']
    if outcome[0] != 'return':
        return
    p.oblige(f'{L}::post::C04-backend-runs-exactly-once', len(calls) == 1, kind='post',
             meta={'expr': 'schedule() calls backend.execute_tasks exactly once on every path (no shortcut around the out-of-date analysis)'})
    if len(calls) != 1:
        return
    me = scope.lookup('self')
    _, fg, hg, env, cfg = calls[0]
    p.oblige(f'{L}::post::C01-full-and-hard-graph-handed-over', fg is I.getfield(me, 'full_graph') and hg is I.getfield(me, 'hard_graph'), kind='post',
             meta={'expr': 'execute_tasks(full_graph=self.full_graph, hard_graph=self.hard_graph, ...)'})
    given = I.entry_scope.lookup('env')
    p.oblige(f'{L}::post::C04-environment-handed-over-and-returned', (env is given if isinstance(given, SObj) else isinstance(env, SObj)) and outcome[1] is env,
             kind='post', meta={'expr': 'the environment given by the caller (or a new one) goes to the backend and is returned'})



# ---------------------------------------------------------------------------------------
# Scheduler.__init__: works on COPIES of the caller's graphs; every node of the full graph is a node of the hard graph (trace contract)
class AbstractGraph(ClassModel):
    """DepGraph as an abstract value: only the calls made on it are recorded (its operations are under contract in C16)"""
    name = 'AbsGraph'
    fields = {}

    def _new(self, I, how, *src):
        '''content: what the graph holds, as a set of atoms -- 'H' / 'S' (the nodes and edges of the caller's hard / soft graph), ('flat', content) after
        flatten().  Union for + and merge; flattening a union is NOT the union of the flattened parts (an empty nested graph used as a barrier loses the edges that
        pass through it when its two sides are in different operands), so the order of the operations is part of the value.'''
        content = {'caller-hard': frozenset(['H']), 'caller-soft': frozenset(['S'])}.get(how, frozenset())
        for x in src:
            if isinstance(x, SObj) and x.cls == 'AbsGraph':
                content = content | I.getfield(x, 'content')
        return I.alloc('AbsGraph', {'how': how, 'src': tuple(src), 'caller_owned': False, 'content': content})

    def m_copy(self, I, g):
        ev(I, 'copy', g)
        return self._new(I, 'copy', g)

    def m_flatten(self, I, g):
        ev(I, 'flatten', g)
        I.setfield(g, 'content', frozenset([('flat', I.getfield(g, 'content'))]))
        return g

    def m___add__(self, I, g, other):
        ev(I, 'add', g, other)
        return self._new(I, 'sum', g, other)

    def m_nodes(self, I, g):
        ev(I, 'nodes', g)
        return I.node_list

    def m_add_node(self, I, g, node):
        ev(I, 'add_node', g, node)
        return g

    # the other operations that work IN PLACE on the graph they are called on (valjean/cosette/depgraph.py: merge / += , add_dependency, remove_node,
    # remove_dependency, graft, flatten): each is recorded as a mutation of that graph and returns it
    def m_merge(self, I, g, other):
        ev(I, 'merge', g, other)
        if not (isinstance(other, SObj) and other.cls == 'AbsGraph'):
            raise Undecided('merge with something that is not a graph')
        I.setfield(g, 'content', I.getfield(g, 'content') | I.getfield(other, 'content'))
        return g

    def m___iadd__(self, I, g, other):
        return self.m_merge(I, g, other)

    def m_add_dependency(self, I, g, node, on=None):
        ev(I, 'add_dependency', g, node, on)
        return g

    def m_remove_node(self, I, g, node):
        ev(I, 'remove_node', g, node)
        return g

    def m_remove_dependency(self, I, g, node, on=None):
        ev(I, 'remove_dependency', g, node, on)
        return g

    def m_graft(self, I, g, node):
        ev(I, 'graft', g, node)
        return g


def make_init_world():
    w = sw.make_world()
    w.class_models['AbsGraph'] = AbstractGraph(w)
    w.class_models['Scheduler'] = SchedulerModel(w)
    w.class_models['Backend'] = Backend(w)
    w.class_models['Node'] = type('Node', (ClassModel,), {'name': 'Node', 'fields': {}, 'p_do': lambda self, I, n: I.alloc('Callable', {})})(w)
    w.class_models['Callable'] = type('Callable', (ClassModel,), {'name': 'Callable', 'fields': {}})(w)
    w.globals['DepGraph'] = SClass('DepGraph')
    w.construct_hooks['DepGraph'] = lambda I, args, kwargs: w.class_models['AbsGraph']._new(I, 'empty')
    w.globals['QueueScheduling'] = SClass('QueueScheduling')
    w.construct_hooks['QueueScheduling'] = lambda I, args, kwargs: I.alloc('Backend', {})
    w.exc_parents['SchedulerError'] = 'Exception'
    w.globals['SchedulerError'] = SClass('SchedulerError')

    def isinstance_hook(I, x, cls):
        names = [c.name for c in (cls if isinstance(cls, tuple) else (cls,)) if isinstance(c, SClass)]
        if isinstance(x, SObj) and x.cls == 'AbsGraph':
            return 'DepGraph' in names
        if x is None:
            return 'NoneType' in names or any(n == 'type(None)' for n in names)
        return NotImplemented
    w.isinstance_hook = isinstance_hook
    def b_type(I, x):
        if x is None:
            return SClass('NoneType')
        raise Undecided('type() of this value')
    w.globals['type'] = b_type
    w.globals['hasattr'] = lambda I, o, name: True      # every node has a callable do(): the other branch raises SchedulerError (documented)
    return w


def init_contract(soft_given):
    return Contract(SCHF, 'Scheduler.__init__', params={'backend': 'None'}, signals={}, variant='soft-graph-given' if soft_given else 'soft-graph-omitted')


def init_setup(soft_given):
    def setup(I, scope):
        I.trace = []
        G = I.world.class_models['AbsGraph']
        I.hard0 = G._new(I, 'caller-hard')
        I.setfield(I.hard0, 'caller_owned', True)
        I.soft0 = None
        if soft_given:
            I.soft0 = G._new(I, 'caller-soft')
            I.setfield(I.soft0, 'caller_owned', True)
        I.node_list = [I.alloc('Node', {}) for _ in range(2)]
        scope.set('self', I.alloc('Scheduler', {}))
        scope.set('hard_graph', I.hard0)
        scope.set('soft_graph', I.soft0)
    return setup


def init_check(I, scope, outcome):
    p = I.path
    me = scope.lookup('self')
    variant = 'soft-graph-given' if I.soft0 is not None else 'soft-graph-omitted'
    L = f'{SCHF}::Scheduler.__init__[{variant}]'
    if outcome[0] != 'return':
        return
    mutating = [e for e in I.trace if e[0] in ('flatten', 'add_node', 'merge', 'add_dependency', 'remove_node', 'remove_dependency', 'graft')]
    p.oblige(f'{L}::post::C02-the-graphs-of-the-caller-are-not-modified', all(not I.getfield(e[1], 'caller_owned') for e in mutating), kind='post',
             meta={'expr': 'flatten / add_node are applied to copies only'})
    hg, fg = I.getfield(me, 'hard_graph'), I.getfield(me, 'full_graph')
    ok = isinstance(hg, SObj) and isinstance(fg, SObj) and hg.cls == 'AbsGraph' and fg.cls == 'AbsGraph'
    H, S = frozenset(['H']), frozenset(['S'])
    ok_h = ok and hg is not I.hard0 and not I.getfield(hg, 'caller_owned') and I.getfield(hg, 'content') == frozenset([('flat', H)])
    p.oblige(f'{L}::post::C02-the-hard-graph-is-a-flattened-copy-of-the-given-one', ok_h, kind='post', meta={'expr': 'self.hard_graph = flatten(copy of hard_graph)'})
    want = frozenset([('flat', H | S if I.soft0 is not None else H)])
    ok_f = ok and not I.getfield(fg, 'caller_owned') and fg is not hg and I.getfield(fg, 'content') == want
    p.oblige(f'{L}::post::C02-the-full-graph-is-the-flattened-sum-of-the-hard-and-soft-graphs', ok_f, kind='post',
             meta={'expr': 'self.full_graph = flatten(hard_graph + soft_graph): the sum of the graphs AS GIVEN is flattened (flattening the hard graph first loses the '
                           f'edges through an empty nested graph); content found: {I.getfield(fg, "content") if ok else None}'})
    added = [e[2] for e in I.trace if e[0] == 'add_node' and e[1] is hg]
    p.oblige(f'{L}::post::C02-every-node-of-the-full-graph-is-a-node-of-the-hard-graph', ok and all(any(a is n for a in added) for n in I.node_list), kind='post',
             meta={'expr': 'for node in full_graph.nodes(): hard_graph.add_node(node)'})


# ---------------------------------------------------------------------------------------
# QueueScheduling.__init__ : every backend owns its queue
def make_backend_init_world():
    w = sw.make_world()
    w.class_models['Backend'] = Backend(w)
    w.class_models['Queue'] = WQueue(w)
    w.globals['Queue'] = SClass('Queue')
    w.construct_hooks['Queue'] = lambda I, args, kwargs: I.alloc('Queue', {'maxsize': (args[0] if args else kwargs.get('maxsize', 0))})
    return w


def backend_init_contract():
    return Contract(QF, 'QueueScheduling.__init__', params={'n_workers': 'Int'}, signals={})


def backend_init_setup(I, scope):
    I.trace = []
    scope.set('self', I.alloc('Backend', {}))


def backend_init_check(I, scope, outcome):
    p = I.path
    L = f'{QF}::QueueScheduling.__init__'
    if outcome[0] != 'return':
        return
    me = scope.lookup('self')
    f = I.heap[me.oid]['fields']
    q = f.get('queue')
    # Python evaluates default parameter values once, when the function is defined: an object built in a default value exists before
    # the call (the harness evaluates the defaults before taking the entry snapshot), so it is shared by every backend that uses the default
    own = isinstance(q, SObj) and q.cls == 'Queue' and q.oid not in I.entry_heap
    p.oblige(f'{L}::post::C03-every-backend-owns-a-queue-created-by-its-constructor', own, kind='post',
             meta={'expr': 'self.queue is a Queue allocated during this call (not a parameter, not a default value, not a module-level object)'})
    if own:
        ms = I.getfield(q, 'maxsize')
        unbounded = (isinstance(ms, int) and ms <= 0) or (isinstance(ms, SV) and False)
        p.oblige(f'{L}::post::C03-the-queue-is-unbounded', bool(unbounded), kind='post',
                 meta={'expr': 'Queue(0): put() never blocks (the master puts tasks and sentinels while the workers may all be busy)'})
    nw = f.get('n_workers')
    p.oblige(f'{L}::post::C03-the-number-of-workers-is-the-one-requested', nw is scope.lookup('n_workers') or (isinstance(nw, SV) and nw.t.eq(scope.lookup('n_workers').t)), kind='post',
             meta={'expr': 'self.n_workers == n_workers'})
