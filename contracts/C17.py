'''C17 -- browser selections return exactly the items that match.

Deductive part (valjean/eponine/browser.py): Browser._filter_items_id_by (foreach loop over the query with early returns),
filter_by, select_by, merge, keys-level queries, against the abstract view "content = sequence of item maps" and the index
invariant IDX.  Browser.__init__/_build_index and Index.keep_only mutate items through loop-variable aliases, which the
engine's value semantics cannot follow: IDX is the ASSUMED contract of the constructor, conformance-checked by the
exhaustive native sweep.'''
import ast
import z3

from pyvc import prop, theory as th
from pyvc.values import SV, SObj, SClass, SNamespace, SFunc, T, INT, BOOL, STR, Undecided, lift, coerce, zsort, seq_len, seq_arr, map_dom, map_val
from pyvc.engine import Contract, LoopSpec
from pyvc.verify import World, ClassModel, verify_function
from . import browser_native as bn

ID = 'C17'
LEVEL = 'proof'
BR = 'valjean/eponine/browser.py'
KEY, VAL = T('Ref', 'Key'), T('Ref', 'Val')
ITEM = 'Map[Ref:Key,Ref:Val]'
CONTENT = f'Seq[{ITEM}]'
INDEX = 'Map[Ref:Key,Map[Ref:Val,Set[Int]]]'

EXPLANATION = ('Contracts on the real Browser._filter_items_id_by (result = exactly the positions whose item carries every requested key/value, '
               'loop invariant over the query, early returns included), filter_by (the sub-browser is built from exactly the scanned items in original '
               'order, same data key and globals, browser untouched), select_by (unique match or the documented errors) and merge (concatenation, '
               'operands untouched); obligations generated from the AST and discharged by z3. The index invariant established by the constructor is an '
               'assumed contract, checked by the exhaustive native sweep (labelled bounded).')
ASSUMPTIONS = [
    'A-browser-init: Browser(content, data_key, global_vars) stores shallow copies of the items in order, each with its position under the key '
    "'index', the given data key, a copy of the globals, and an index satisfying IDX (contracts/C17.py); _build_index / Index.keep_only are not "
    'under a discharged contract (loop-variable aliasing) -- exhaustive native sweep only',
    'metadata keys and values are hashable with consistent __hash__/__eq__ (A-hash); values are compared by identity of an abstract value sort',
    'A-log: LOGGER calls dropped',
]
TRUSTED = ['z3 unsat answers (cvc5 cross-check in the thorough tier)', 'CPython ast module', 'pyvc engine (symbolic executor, libspec encodings)']

SPEC_DEFS = '''
def matches(b, i, q):
    return all(k != b.data_key and k in b.content[i] and b.content[i][k] is v for (k, v) in q.items())

def IDX(b):
    return (all(all(all((i in b.index.index[k][v]) == (0 <= i and i < len(b.content) and k != b.data_key and k in b.content[i] and b.content[i][k] is v)
                        for i in Ints) for v in b.index.index[k]) for k in b.index.index)
            and all(implies(0 <= i and i < len(b.content), all(implies(k != b.data_key, k in b.index.index and b.content[i][k] in b.index.index[k])
                                                               for k in b.content[i])) for i in Ints)
            and all(INDEX_KEY in b.content[i] and b.content[i][INDEX_KEY] is ival(i) for i in range(len(b.content)))
            and INDEX_KEY != b.data_key)

def selected(b, i, q, incl, excl):
    return (0 <= i and i < len(b.content) and matches(b, i, q)
            and all(k in b.content[i] for k in incl) and not any(k in b.content[i] for k in excl))
'''


class IndexModel(ClassModel):
    name = 'Index'
    fields = {'index': INDEX}

    def m___contains__(self, I, ix, key):
        return I.world.lib.contains(I, I.getfield(ix, 'index'), key)

    def m___getitem__(self, I, ix, key):
        # Index.__getitem__ -> defaultdict.__getitem__: a missing key would be inserted; the callers test membership first
        m = I.getfield(ix, 'index')
        k = coerce(key if isinstance(key, SV) else lift(key), m.typ.args[0])
        I.require(map_dom(m)[k.t], 'inserts', 'Index[...] on a missing key (defaultdict would insert it)')
        return SV(m.typ.args[1], map_val(m)[k.t])

    def m_keys(self, I, ix):
        return I.world.lib.m_Map_keys(I, I.getfield(ix, 'index'))


class BrowserModel(ClassModel):
    name = 'Browser'
    fields = {'content': CONTENT, 'data_key': 'Ref:Key', 'index': 'Obj:Index', 'globals': 'Map[Ref:Key,Ref:Val]'}

    def m___len__(self, I, b):
        return SV(INT, seq_len(I.getfield(b, 'content')))

    def construct(self, I, content, data_key=None, global_vars=None):
        '''assumed contract of Browser.__init__ (see ASSUMPTIONS)'''
        w = self.world
        if data_key is None:
            data_key = w.globals['RESULTS_KEY']
        if not isinstance(content, SV):
            content = lift(content, T('Seq', T('Map', KEY, VAL))) if content == [] else content
        new_content = I.fresh(content.typ, 'copied_content')
        n = seq_len(content)
        i = z3.Int(I.path.name('i'))
        k = z3.Const(I.path.name('k'), zsort(KEY))
        ik = w.globals['INDEX_KEY']
        ival = w.ival
        a0, a1 = seq_arr(content), seq_arr(new_content)
        item = zsort(content.typ.args[0])
        I.path.assume(seq_len(new_content) == n)
        # each new item: the old one with 'index' -> its position
        I.path.assume(z3.ForAll([i, k], z3.Implies(z3.And(0 <= i, i < n), z3.And(
            item.dom(a1[i])[k] == z3.Or(item.dom(a0[i])[k], k == ik.t),
            item.val(a1[i])[k] == z3.If(k == ik.t, ival(i), item.val(a0[i])[k])))))
        glob = global_vars if isinstance(global_vars, SV) else I.fresh(T('Map', KEY, VAL), 'no_globals')
        if not isinstance(global_vars, SV):
            I.path.assume(map_dom(glob) == z3.K(zsort(KEY), z3.BoolVal(False)))
        ix = I.alloc('Index', {'index': I.fresh(INDEX, 'built_index')})
        b = I.alloc('Browser', {'content': new_content, 'data_key': data_key, 'index': ix, 'globals': glob})
        from pyvc.engine import Scope
        I.path.assume(I.spec('implies(INDEX_KEY != b.data_key, IDX(b))', Scope(None, {'b': b})))
        w.lib.use('Browser.__init__: assumed contract (copies, positions under "index", index invariant IDX)')
        return b


def make_world():
    w = World()
    w.globals['LOGGER'] = SNamespace('LOGGER', dropped=True)
    w.class_models['Index'] = IndexModel(w)
    model = BrowserModel(w)
    w.class_models['Browser'] = model
    w.globals['Browser'] = SClass('Browser')
    w.construct_hooks['Browser'] = lambda I, args, kwargs: model.construct(I, *args, **kwargs)
    w.globals['Ints'] = SV(T('Set', INT), z3.K(z3.IntSort(), z3.BoolVal(True)))
    w.globals['INDEX_KEY'] = SV(KEY, z3.Const('KEY_index', zsort(KEY)))
    w.globals['RESULTS_KEY'] = SV(KEY, z3.Const('KEY_results', zsort(KEY)))
    ival = th.func('ival', z3.IntSort(), zsort(VAL))
    unival = th.func('unival', zsort(VAL), z3.IntSort())
    w.ival = ival
    w.globals['ival'] = lambda I, i: SV(VAL, ival((i if isinstance(i, SV) else lift(i)).t))
    w.globals['unival'] = lambda I, v: SV(INT, unival(v.t))
    w.axioms = lambda: [z3.ForAll([z3.Int('i!iv')], unival(ival(z3.Int('i!iv'))) == z3.Int('i!iv')),
                        z3.Const('KEY_index', zsort(KEY)) != z3.Const('KEY_results', zsort(KEY))]
    w.exc_parents.update({'NoItemBrowserError': 'LookupError', 'TooManyItemsBrowserError': 'LookupError'})
    for node in ast.parse(SPEC_DEFS).body:
        w.globals[node.name] = SFunc(node, None, node.name)
    return w


def setup(I, scope):
    for ax in I.world.axioms():
        I.path.assume(ax)


UNCHANGED = ('same(self.content, old(self.content)) and same(self.index.index, old(self.index.index)) and same(self.globals, old(self.globals)) '
             'and self.data_key is old(self.data_key)')
IDS_POST = 'all((i in result) == (0 <= i and i < len(self.content) and matches(self, i, kwargs)) for i in Ints)'


def c_filter_ids():
    return Contract(
        BR, 'Browser._filter_items_id_by', params={'self': 'Obj:Browser', 'kwargs': 'Map[Ref:Key,Ref:Val]'}, returns='Set[Int]',
        requires=['IDX(self)'],
        ensures=[('exactly-the-matching-positions', IDS_POST), ('browser-untouched', UNCHANGED)],
        signals={},
        loops={0: LoopSpec('for (kwd, kwarg) in kwargs.items()',
                           ['all((i in itemids) == (0 <= i and i < len(self.content) and all(implies(k in done, k != self.data_key and k in self.content[i] '
                            'and self.content[i][k] is kwargs[k]) for k in kwargs)) for i in Ints)', UNCHANGED],
                           vars={'itemids': 'Set[Int]'})})


SEL = 'selected(self, {i}, kwargs, sincl, sexcl)'


def c_filter_by():
    return Contract(
        BR, 'Browser.filter_by', params={'self': 'Obj:Browser', 'include': 'Set[Ref:Key]', 'exclude': 'Set[Ref:Key]', 'kwargs': 'Map[Ref:Key,Ref:Val]'},
        requires=['IDX(self)'],
        ensures=[
            # stated on the list handed to the constructor (lresp) and carried to the result by the constructor contract
            ('every-returned-item-is-a-selected-item', 'all(any(' + SEL.format(i='i') + ' and same(lresp[j], self.content[i]) for i in Ints) for j in range(len(lresp)))'),
            ('every-selected-item-is-returned', 'all(implies(' + SEL.format(i='i') + ', any(same(lresp[j], self.content[i]) for j in range(len(lresp)))) for i in Ints)'),
            ('original-order', 'all(implies(j1 < j2, unival(lresp[j1][INDEX_KEY]) < unival(lresp[j2][INDEX_KEY])) for j1 in range(len(lresp)) for j2 in range(len(lresp)))'),
            ('items-carried-to-the-result', 'len(result.content) == len(lresp) and all(all(implies(k != INDEX_KEY, (k in result.content[j]) == (k in lresp[j]) '
                                            'and implies(k in lresp[j], result.content[j][k] is lresp[j][k])) for k in Keys) for j in range(len(lresp)))'),
            ('same-data-key', 'result.data_key is self.data_key'),
            ('same-globals', 'same(result.globals, self.globals)'),
            ('browser-untouched', UNCHANGED)],
        signals={})


def c_select_by():
    n_sel = 'len(litems)'
    return Contract(
        BR, 'Browser.select_by', params={'self': 'Obj:Browser', 'include': 'Set[Ref:Key]', 'exclude': 'Set[Ref:Key]', 'kwargs': 'Map[Ref:Key,Ref:Val]'},
        returns=None, requires=['IDX(self)'],
        ensures=[('returns-the-unique-selected-item', 'any(' + SEL.format(i='i') + ' and same(result, self.content[i]) for i in Ints)'),
                 ('it-is-the-only-one', 'all(implies(' + SEL.format(i='i') + ' and ' + SEL.format(i='i2') + ', i == i2) for i in Ints for i2 in Ints)'),
                 ('browser-untouched', UNCHANGED)],
        signals={'NoItemBrowserError': 'not any(' + SEL.format(i='i').replace('sincl', 'include').replace('sexcl', 'exclude') + ' for i in Ints)',
                 'TooManyItemsBrowserError': 'any(' + SEL.format(i='i').replace('sincl', 'include').replace('sexcl', 'exclude') + ' and '
                                             + SEL.format(i='i2').replace('sincl', 'include').replace('sexcl', 'exclude') + ' and i != i2 for i in Ints for i2 in Ints)'},
        signals_post={'*': [UNCHANGED]})


def c_merge():
    return Contract(
        BR, 'Browser.merge', params={'self': 'Obj:Browser', 'other': 'Obj:Browser'}, requires=['IDX(self)', 'IDX(other)'],
        ensures=[('concatenation', 'len(new_content) == len(self.content) + len(other.content) and '
                                   'all(same(new_content[j], self.content[j]) for j in range(len(self.content))) and '
                                   'all(same(new_content[len(self.content) + j], other.content[j]) for j in range(len(other.content)))'),
                 ('carried-to-the-result', 'len(result.content) == len(new_content) and result.data_key is self.data_key'),
                 ('globals-merged', 'all((k in result.globals) == (k in self.globals or k in other.globals) for k in Keys) and '
                                    'all(implies(k in other.globals, result.globals[k] is other.globals[k]) for k in Keys) and '
                                    'all(implies(k in self.globals and k not in other.globals, result.globals[k] is self.globals[k]) for k in Keys)'),
                 ('operands-untouched', UNCHANGED + ' and same(other.content, old(other.content)) and same(other.globals, old(other.globals))')],
        signals={'ValueError': 'self.data_key is not other.data_key'},
        signals_post={'*': [UNCHANGED]})


def units(tier):
    return ['filter_ids', 'filter_by', 'select_by', 'merge', 'native']


def _replay_native(name, inp):
    out = bn.sweep('quick', 0)
    if out['failures']:
        fl = out['failures'][0]
        return {'reproduced': True, 'observed': fl['observed'], 'input_found': fl['input'], 'by': 'native sweep'}
    return {'reproduced': False, 'note': 'native sweep found no failing input'}


def run_unit(unit, tier, seed, known):
    import logging
    logging.disable(logging.CRITICAL)
    if unit == 'native':
        return {'bounded': [bn.sweep(tier, seed)]}
    w = make_world()
    w.globals['Keys'] = SV(T('Set', KEY), z3.K(zsort(KEY), z3.BoolVal(True)))
    w.add(c_filter_ids())
    c = {'filter_ids': c_filter_ids, 'filter_by': c_filter_by, 'select_by': c_select_by, 'merge': c_merge}[unit]()
    res = verify_function(w, c, setup=setup)
    return {'functions': [prop.discharge(res, tier, ID, lambda m, r: {'note': 'see model text'}, _replay_native)]}


def replay(name, inp):
    inp = inp or {}
    if 'content' in inp or 'merge' in inp:
        return bn.replay(inp)
    return _replay_native(name, inp)
