'''Native bounded stand-in for C18 (labelled bounded): diagnostic statistics against counting oracles written from the
property statement.'''
import itertools


def _classes():
    from valjean.gavroche.test import Test, TestResult

    class Res(TestResult):
        def __init__(self, test, ok):
            super().__init__(test)
            self.ok = ok

        def __bool__(self):
            return self.ok

    class Tst(Test):
        def __init__(self, name, ok, labels):
            super().__init__(name=name, labels=labels)
            self.ok = ok

        def evaluate(self):
            return Res(self, self.ok)
    return Tst, Res


def sweep(tier, seed):
    from valjean.cosette.task import TaskStatus
    from valjean.gavroche.diagnostics.stats import (TestStatsTasks, TestStatsTests, TestStatsTestsByLabels, TestOutcome,
                                                    TestStatsTestsByLabelsException)
    Tst, Res = _classes()
    fails, n = [], 0
    nmax = 3
    # --- task statuses
    for k in range(0, nmax + 1):
        for sts in itertools.product(list(TaskStatus), repeat=k):
            n += 1
            tr = [(f'task{i}', {'status': s}) for i, s in enumerate(sts)]
            r = TestStatsTasks(name='s', task_results=tr).evaluate()
            listed = [(st, nf.name) for st, names in r.classify.items() for nf in names]
            want = sorted((s, f'task{i}') for i, s in enumerate(sts))
            bad = None
            if sorted(listed) != want:
                bad = f'classify lists {sorted(listed)}, expected {want}'
            elif bool(r) != all(s == TaskStatus.DONE for s in sts):
                bad = f'bool(result) = {bool(r)} for statuses {[s.name for s in sts]}'
            if bad:
                fails.append({'input': {'task_statuses': [s.name for s in sts]}, 'observed': bad, 'expected': 'each task once under its status; success iff all DONE'})
    # --- test results, overall and by labels
    lab_opts = [None, 0, 1]
    res_opts = [(ok, x, y) for ok in (True, False) for x in lab_opts for y in lab_opts]
    # the same comparison evaluated by several tasks: results sharing a test name are still counted one by one
    for names, verdicts in ((('t', 't', 't'), (True, True, False)), (('t', 't', 'u', 'u', 'u'), (True, False, True, True, True)), (('a', 'a'), (True, True))):
        for lab_of in (lambda i: {'x': 'x0'}, lambda i: {'x': f'x{i % 2}'}, lambda i: ({'x': 'x0'} if i else {})):
            n += 1
            rs = [(Tst(nm, ok, lab_of(i)).evaluate(), ok, lab_of(i)) for i, (nm, ok) in enumerate(zip(names, verdicts))]
            tr = [(f'task{i}', {'result': [r]}) for i, (r, _, _) in enumerate(rs)]
            inp = {'results_sharing_a_test_name': [[nm, ok, lab_of(i)] for i, (nm, ok) in enumerate(zip(names, verdicts))]}
            st = TestStatsTests(name='s', task_results=tr).evaluate()
            cnt = {o.name: len(v) for o, v in st.classify.items() if v}
            want_cnt = {k: v for k, v in (('SUCCESS', sum(verdicts)), ('FAILURE', len(verdicts) - sum(verdicts))) if v}
            if cnt != want_cnt:
                fails.append({'input': inp, 'observed': f'classify counts {cnt}', 'expected': f'{want_cnt}: every evaluated result is listed once'})
                continue
            try:
                bl = TestStatsTestsByLabels(name='b', task_results=tr, by_labels=('x',)).evaluate()
            except TestStatsTestsByLabelsException:
                continue
            carrying = [(ok, l) for _, ok, l in rs if 'x' in l]
            tot = sum(d['total'] for d in bl.classify)
            bad = None
            if tot != len(carrying) or sum(d['OK'] for d in bl.classify) != sum(ok for ok, _ in carrying):
                bad = f'by-label totals {[(d["labels"], d["OK"], d["KO"], d["total"]) for d in bl.classify]} for {len(carrying)} results carrying the label'
            elif bl.nb_missing_labels() != len(rs) - len(carrying):
                bad = f'nb_missing_labels = {bl.nb_missing_labels()}, expected {len(rs) - len(carrying)}'
            if bad:
                fails.append({'input': inp, 'observed': bad, 'expected': 'successes + failures = number of results carrying the label; the others are counted as missing'})
    # looking at the list of a status that did not occur does not change the verdict (classify is a defaultdict: reading inserts an empty list)
    for verdicts in ((True, True), (True, False), ()):
        n += 1
        rs = [Tst(f't{i}', ok, {'x': 'x0'}).evaluate() for i, ok in enumerate(verdicts)]
        st = TestStatsTests(name='s', task_results=[('task0', {'result': rs})]).evaluate()
        sk = TestStatsTasks(name='k', task_results=[(f'task{i}', {'status': TaskStatus.DONE if ok else TaskStatus.FAILED}) for i, ok in enumerate(verdicts)]).evaluate()
        for res, enum_, what in ((st, TestOutcome, 'tests'), (sk, TaskStatus, 'tasks')):
            before = bool(res)
            for member in enum_:
                _ = res.classify[member]
            if bool(res) != before or before != all(verdicts):
                fails.append({'input': {'summary_of': what, 'verdicts': list(verdicts), 'then': 'classify[status] read for every status'},
                              'observed': f'verdict {before} before and {bool(res)} after looking at the lists', 'expected': f'{all(verdicts)} both times'})
    # a summary test can be evaluated again, and looked at (fingerprint) before it is evaluated: same classification each time
    from valjean.fingerprint import fingerprint
    for verdicts in ((True, False), (True, True)):
        rs = [Tst(f't{i}', ok, {'x': f'x{i}'}).evaluate() for i, ok in enumerate(verdicts)]
        trs = [('task0', {'result': rs}), ('lonely', {'status': TaskStatus.FAILED})]
        tks = [(f'task{i}', {'status': TaskStatus.DONE if ok else TaskStatus.FAILED}) for i, ok in enumerate(verdicts)]
        makers = {'tests': lambda: TestStatsTests(name='s', task_results=list(trs)), 'by_labels': lambda: TestStatsTestsByLabels(name='b', task_results=list(trs), by_labels=('x',)),
                  'tasks': lambda: TestStatsTasks(name='k', task_results=list(tks))}
        for what, mk in makers.items():
            n += 1

            def image(res):
                c = res.classify
                if isinstance(c, dict):
                    return (bool(res), sorted((getattr(k, 'name', str(k)), len(v)) for k, v in c.items() if v))
                return (bool(res), [(tuple(d['labels']), d['OK'], d['KO']) for d in c])
            try:
                ref = image(mk().evaluate())
                t2 = mk()
                first, second = image(t2.evaluate()), image(t2.evaluate())
                t3 = mk()
                fp_before = fingerprint(t3)
                after_look = image(t3.evaluate())
                fp_after = fingerprint(t3)
            except Exception as e:      # noqa
                fails.append({'input': {'summary_of': what, 'verdicts': list(verdicts), 'then': 'evaluate twice / fingerprint then evaluate'}, 'observed': f'raised {e!r}',
                              'expected': 'the same summary each time'})
                continue
            probs = []
            if first != ref or second != ref:
                probs.append(f'evaluating the same test twice gives {first} then {second} (a fresh test gives {ref})')
            if after_look != ref:
                probs.append(f'taking the fingerprint of the test before evaluating it changes the summary: {after_look} instead of {ref}')
            if fp_before != fp_after:
                probs.append('the fingerprint of the test differs before and after its evaluation')
            if probs:
                fails.append({'input': {'summary_of': what, 'verdicts': list(verdicts)}, 'observed': probs[:3], 'expected': 'the summary does not depend on what was looked at or evaluated before'})
    # reserved label names used as ordinary labels must not disturb the classification by verdict
    reserved = [{'_result': 'whatever'}, {'_result': 0}, {'_test_name': 'n'}, {'_result': 1, '_test_name': 'n'}]
    selections = [('x',), ('y',), ('x', 'y'), ('y', 'x')]
    shapes = []
    for k in range(0, (2 if tier == 'quick' else 3) + 1):
        for combo in itertools.product(range(len(res_opts)), repeat=k):
            shapes.append(combo)
    for combo in shapes:
        for split in ((len(combo),), (1, len(combo) - 1)) if len(combo) >= 2 else ((len(combo),),):
            for with_missing in (False, True):
                n += 1
                results, groups, pos = [], [], 0
                for size in split:
                    grp = []
                    for c in combo[pos:pos + size]:
                        ok, x, y = res_opts[c]
                        labels = {k2: f'{k2}{v}' for k2, v in (('x', x), ('y', y)) if v is not None}
                        if (len(results) + c) % 5 == 0:
                            labels.update(reserved[(len(results) + c) % len(reserved)])
                        r = Tst(f't{len(results)}', ok, labels).evaluate()
                        results.append((r, ok, labels))
                        grp.append(r)
                    pos += size
                    groups.append(grp)
                tr = [(f'task{i}', {'result': g}) for i, g in enumerate(groups)]
                if with_missing:
                    tr.append(('lonely', {'status': TaskStatus.FAILED}))
                inp = {'results': [[ok, labels] for _, ok, labels in results], 'split': list(split), 'missing_task': with_missing}
                st = TestStatsTests(name='s', task_results=tr).evaluate()
                got = sorted((o.name, nf.name) for o, names in st.classify.items() for nf in names)
                want = sorted([('SUCCESS' if ok else 'FAILURE', r.test.name) for r, ok, _ in results] + ([('MISSING', 'lonely')] if with_missing else []))
                bad = None
                if got != want:
                    bad = f'classify lists {got}, expected {want}'
                elif bool(st) != (all(ok for _, ok, _ in results) and not with_missing):
                    bad = f'bool(result) = {bool(st)}'
                if bad:
                    fails.append({'input': inp, 'observed': bad, 'expected': 'each result once as SUCCESS/FAILURE by its verdict, tasks without results as MISSING'})
                    continue
                for sel in selections:
                    n += 1
                    carrying = [(ok, labels) for _, ok, labels in results if all(s in labels for s in sel)]
                    try:
                        bl = TestStatsTestsByLabels(name='b', task_results=tr, by_labels=sel).evaluate()
                    except TestStatsTestsByLabelsException:
                        if any(all(s in labels for s in sel) for _, _, labels in results) and all(any(s in labels for _, _, labels in results) for s in sel):
                            # every label exists somewhere: the documented exception is for labels absent from ALL results
                            pass
                        continue
                    except Exception as e:     # noqa
                        fails.append({'input': dict(inp, by_labels=list(sel)), 'observed': f'raised {e!r}', 'expected': 'a summary'})
                        continue
                    want_rows = {}
                    for ok, labels in carrying:
                        key = tuple(labels[s] for s in sel)
                        row = want_rows.setdefault(key, [0, 0])
                        row[0 if ok else 1] += 1
                    got_rows = {tuple(d['labels']): [d['OK'], d['KO'], d['total']] for d in bl.classify}
                    bad = None
                    if len(got_rows) != len(bl.classify):
                        bad = f'a label combination is listed twice: {bl.classify}'
                    elif {k2: v[:2] for k2, v in got_rows.items()} != want_rows:
                        bad = f'per-combination counts {got_rows}, expected {want_rows}'
                    elif any(v[0] + v[1] != v[2] for v in got_rows.values()):
                        bad = f'OK + KO != total: {got_rows}'
                    elif bl.nb_missing_labels() != len(results) - len(carrying):
                        bad = f'nb_missing_labels = {bl.nb_missing_labels()}, expected {len(results) - len(carrying)}'
                    elif bool(bl) != all(ok for ok, _ in carrying) or bl.oracles() != [d['KO'] == 0 for d in bl.classify]:
                        bad = f'bool = {bool(bl)}, oracles = {bl.oracles()} for {got_rows}'
                    if bad:
                        fails.append({'input': dict(inp, by_labels=list(sel)), 'observed': bad,
                                      'expected': 'successes + failures = number of results carrying the requested labels, per combination'})
        if len(fails) >= 8:
            break
    # reserved label names used as ordinary labels must not disturb the classification by verdict
    for extra in ({'_result': 'whatever'}, {'_result': 0}, {'_result': 1}, {'_test_name': 'n'}, {'_result': TestOutcome.SUCCESS}, {'_result': TestOutcome.FAILURE}):
        for ok1, ok2 in itertools.product((True, False), repeat=2):
            n += 1
            rs = [Tst('t0', ok1, dict({'x': 'x0'}, **extra)).evaluate(), Tst('t1', ok2, {'x': 'x0'}).evaluate()]
            try:
                bl = TestStatsTestsByLabels(name='b', task_results=[('task0', {'result': rs})], by_labels=('x',)).evaluate()
            except Exception as e:     # noqa
                fails.append({'input': {'reserved_label': repr(extra), 'verdicts': [ok1, ok2]}, 'observed': f'raised {e!r}', 'expected': 'a summary'})
                continue
            want = [{'labels': ('x0',), 'OK': int(ok1) + int(ok2), 'KO': 2 - int(ok1) - int(ok2), 'total': 2}]
            if bl.classify != want or bool(bl) != (ok1 and ok2):
                fails.append({'input': {'reserved_label': repr(extra), 'verdicts': [ok1, ok2]}, 'observed': f'{bl.classify}, bool = {bool(bl)}', 'expected': repr(want)})
    return {'name': 'diagnostic-statistics-native', 'evaluations': n, 'distinct': n, 'failures': fails[:8], 'exhaustive': True,
            'bound': f'all task-status lists of length <= {nmax}; all lists of <= {2 if tier == "quick" else 3} test results with verdict in {{T, F}} and labels x, y in '
                     '{absent, 0, 1}, split over 1 or 2 tasks, with / without a task lacking results; label selections (x), (y), (x, y), (y, x); results carrying the reserved label names _result / _test_name; results sharing a test name across tasks (9 cases); verdict re-read after looking at classify[status] for every status; every summary test evaluated twice and fingerprinted before its evaluation',
            'samples': [{'results': [[True, {'x': 'x0'}], [False, {'x': 'x0', 'y': 'y1'}]], 'by_labels': ['x']}]}


def replay(inp):
    out = sweep('quick', 0)
    return {'reproduced': bool(out['failures']), 'observed': out['failures'][:1]}
