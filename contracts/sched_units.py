'''Units shared by the scheduler properties C01-C04 (every property re-discharges the contract closure
it rests on).  See DESIGN.md sections 3 and 4 (C01-C04).'''
import ast
import json
import os

import z3

from pyvc import prop, solve, extract
from pyvc.values import SV, SObj
from pyvc.verify import verify_function
from . import sched_world as sw
from . import sched_worker as sk
from . import sched_native as native

ENVF = sw.ENVF
QF = sw.QF

ASSUMPTIONS = [
    'A-thread: CPython RLock / Condition / Queue meet their documented contracts (mutual exclusion; wait releases and re-acquires '
    'atomically; every put item is returned by exactly one get; join returns when task_done was called once per put); dict reads are atomic under the GIL',
    'A-env-model: the abstract Env methods of contracts/sched_world.py::EnvModel (get_status inserts WAITING on a missing entry, set_status, '
    'is_*/set_* accessors, clocks, atomically) are ASSUMED contracts of valjean/cosette/env.py, exercised by the bounded unit env_conformance and '
    'by the structural lock obligations; they are not proved from the Env source',
    'A-task-readonly: Task.do does not write the environment it is handed and returns or raises (any BaseException, SystemExit included); '
    "A-update: the update it returns does not contain 'status' / 'start_clock' / 'end_clock' keys of any task, does not create the entry of "
    'ANOTHER task and does not replace the entry of ANOTHER task by something that is not a dictionary (its OWN entry may be anything: a dictionary, '
    'a read-only mapping, a number)',
    'A-thread-start: threading.Thread.start() does not fail (no exhaustion of threads: C03 does not quantify over resource faults); A-depth: dependency chains are '
    'shorter than the recursion limit of the interpreter (DepGraph.topological_sort is recursive: a chain of ~1500 tasks raises RecursionError before anything runs)',
    'A-update-commute: the updates of tasks that may run concurrently commute under Env.apply (disjoint keys, or sections that merge): two tasks writing one top-level '
    "key with different shapes ({'shared': 5} / {'shared': {'x': 1}}) make Env.apply raise for whichever comes second, i.e. a status that depends on the schedule",
    'A-unique-names: distinct tasks of a scheduled graph have distinct names (check_unique_task_names, C15)',
    'A-toposort: DepGraph.topological_sort returns every node once, dependencies first, or raises DepGraphError (real body: bounded part of C16); '
    'Scheduler.__init__ hands over hard_graph <= full_graph over the same nodes',
    'A-clock: time.time() returns finite, non-decreasing values over the runs whose clocks are compared',
    'A-log: LOGGER calls and Chrono timers are dropped (no effect on program state; LOGGER.isEnabledFor is taken as False)',
    'Owicki-Gries soundness (induction over the interleaving) and induction over topological rank are meta-theorems of the method, not checked',
    'liveness (absence of a lost wake-up, termination of `while tasks_left`) is NOT decided by any contract here',
]
TRUSTED = ['z3 unsat answers (cvc5 cross-check in the thorough tier)', 'CPython ast module', 'pyvc engine (symbolic executor, libspec encodings)',
           'hand-written action summaries of contracts/sched_og.py (each conjunct cites the verified contract clause it comes from)']


def _world():
    w = sw.make_world()
    w.add(sw.c_last_end_time())
    w.add(sw.c_decide_waiting())
    w.add(sw.c_decide())
    return w


# ---------------------------------------------------------------------------------------
def concretise_decide(model, res):
    '''tasks of the model's universe with their names, statuses and clocks'''
    scope, heap = res.inputs['scope'], res.inputs['heap']
    ev = lambda t: model.eval(t, model_completion=True)      # noqa
    task = scope.get('task')
    env = scope.get('env')
    out = {'tasks': []}
    if env is None or not isinstance(env, SObj):
        return out
    f = heap[env.oid]['fields']
    uni = model.get_universe(sw.zsort(sw.TASK)) or []
    name_f = sw.th.func('Task.name', sw.zsort(sw.TASK), sw.zsort(sw.NAME))
    deps = scope.get('deps')
    hard = scope.get('hard_deps')
    for u in uni:
        n = ev(name_f(u))
        rec = {'id': str(u), 'name': str(n), 'present': z3.is_true(ev(f['present'].t[n])),
               'status': str(ev(f['status'].t[n])),
               'start': solve.py_of(model, SV(sw.CLOCK, f['start'].t[n])), 'end': solve.py_of(model, SV(sw.CLOCK, f['end'].t[n])),
               'is_task': bool(task is not None and isinstance(task, SV) and z3.is_true(ev(task.t == u))),
               'dep': bool(deps is not None and isinstance(deps, SV) and z3.is_true(ev(deps.t[u]))),
               'hard': bool(hard is not None and isinstance(hard, SV) and z3.is_true(ev(hard.t[u])))}
        out['tasks'].append(rec)
    return out


def replay_decide(name, inp):
    '''run the real decide_new_state on the model's environment and evaluate the property-level clauses natively'''
    from valjean.cosette.backends.queue import QueueScheduling
    from valjean.cosette.env import Env
    from valjean.cosette.task import Task, TaskStatus
    recs = (inp or {}).get('tasks') or []
    main = [r for r in recs if r['is_task']]
    if len(main) != 1:
        return decide_enumeration(name)
    by_name = {}
    env = Env()

    class Probe(Task):
        def do(self, env, config):
            raise NotImplementedError

    for r in recs:
        if r['name'] not in by_name:
            by_name[r['name']] = Probe(r['name'])
        if r['present']:
            ent = {'status': TaskStatus[r['status']]}
            if r['start'] is not None:
                ent['start_clock'] = r['start']
            if r['end'] is not None:
                ent['end_clock'] = r['end']
            env[r['name']] = ent
    task = by_name[main[0]['name']]
    deps = {by_name[r['name']] for r in recs if r['dep']}
    hard = {by_name[r['name']] for r in recs if r['hard']}
    if not hard <= deps or task in deps:
        return {'reproduced': False, 'note': 'model outside the precondition'}
    FIN = (TaskStatus.DONE, TaskStatus.FAILED, TaskStatus.SKIPPED)
    BAD = (TaskStatus.FAILED, TaskStatus.SKIPPED)
    st0 = {t: (env[t.name]['status'] if t.name in env else TaskStatus.WAITING) for t in deps | {task}}
    present0 = {t: t.name in env for t in deps}
    before = {k: dict(v) for k, v in env.items()}
    fn = QueueScheduling.decide_new_state_waiting if 'decide_new_state_waiting' in name else QueueScheduling.decide_new_state
    try:
        r = fn(task, deps, hard, env)
    except Exception as e:       # noqa
        return {'reproduced': True, 'observed': f'raised {e!r}', 'expected': 'no exception'}
    probs = []
    if r == TaskStatus.PENDING:
        if not all(present0[d] and st0[d] in FIN for d in deps):
            probs.append('released although a dependency is not final')
        if any(st0[h] in BAD for h in hard):
            probs.append('released past a failed/skipped hard dependency')
    if r == TaskStatus.SKIPPED and not any(st0[h] in BAD for h in hard):
        probs.append('skipped without a failed/skipped hard dependency')
    if r is None:
        if st0[task] != TaskStatus.DONE:
            probs.append('kept although it was not DONE')
        if any(not present0[d] or st0[d] != TaskStatus.DONE for d in deps):
            probs.append('kept although a dependency is not DONE')
        for d in deps:
            if present0[d] and st0[d] == TaskStatus.DONE:
                e, s = before[d.name].get('end_clock'), before[task.name].get('start_clock')
                if e is None or s is None or not e <= s:
                    probs.append(f'kept although dependency {d.name} finished at {e}, task started at {s}')
        if {k: dict(v) for k, v in env.items()} != before:
            probs.append('kept but the environment changed')
    if st0[task] != TaskStatus.DONE and all(present0[d] and st0[d] in FIN for d in deps):
        want = TaskStatus.SKIPPED if any(st0[h] in BAD for h in hard) else TaskStatus.PENDING
        if r != want:
            probs.append(f'dependencies final: expected {want}, got {r}')
    if r is not None and env[task.name]['status'] != r:
        probs.append('returned state differs from the recorded one')
    return {'reproduced': bool(probs), 'observed': probs or f'returned {r}', 'expected': 'clauses of the decide_new_state contract',
            'returned': repr(r)}


def replay_native(modes):
    '''fallback replay of an obligation without a concrete model: the bounded stand-ins look for a failing input'''
    def f(name, inp):
        for mode, args in modes:
            out = native.call(mode, args)
            if out.get('failures'):
                fl = out['failures'][0]
                return {'reproduced': True, 'observed': fl.get('observed'), 'expected': fl.get('expected'), 'input_found': fl.get('input'),
                        'by': f'native stand-in {mode}'}
            if out.get('error'):
                return {'reproduced': False, 'note': out}
        return {'reproduced': False, 'note': 'bounded stand-ins found no failing input'}
    return f


SWEEP_SMALL = ('sweep', {'budget': 1500, 'seed': 0})
PARK = ('park', {})
RERUN_SMALL = ('rerun', {'budget': 600, 'seed': 0})


# ---------------------------------------------------------------------------------------
def decide_enumeration(name):
    """fallback of replay_decide when the solver's model is not a finite environment: every environment of a task with up to 3 dependencies
    (each absent / WAITING / PENDING / DONE / FAILED / SKIPPED, hard or soft; clocks 1 < 2 < 3 in both orders) against the same clauses"""
    import itertools
    states = (None, 'WAITING', 'PENDING', 'DONE', 'FAILED', 'SKIPPED')
    own = ('WAITING',) if 'decide_new_state_waiting' in name else ('WAITING', 'DONE', None)
    for ndeps in (0, 1, 2, 3):
        for sts in itertools.product(states, repeat=ndeps):
            for hard in itertools.product((False, True), repeat=ndeps):
                for mine in own:
                    for late in ((False,) if mine != 'DONE' else (False, True)):
                        recs = [{'name': 't', 'is_task': True, 'dep': False, 'hard': False, 'present': mine is not None, 'status': mine or 'WAITING',
                                 'start': 2.0 if mine == 'DONE' else None, 'end': 2.5 if mine == 'DONE' else None}]
                        for k in range(ndeps):
                            recs.append({'name': f'd{k}', 'is_task': False, 'dep': True, 'hard': hard[k], 'present': sts[k] is not None, 'status': sts[k] or 'WAITING',
                                         'start': 0.5 if sts[k] in ('DONE', 'FAILED') else None,
                                         'end': (3.0 if late and k == ndeps - 1 else 1.0) if sts[k] in ('DONE', 'FAILED') else None})
                        out = replay_decide(name, {'tasks': recs})
                        if out.get('reproduced'):
                            out['input_found'] = {'tasks': recs}
                            out['by'] = 'enumeration of small environments (the solver model was not a finite environment)'
                            return out
    return {'reproduced': False, 'note': 'no failing environment with up to 3 dependencies'}


def unit_decide(tier, pid, which):
    w = _world()
    c = {'decide': sw.c_decide, 'decide_waiting': sw.c_decide_waiting, 'last_end_time': sw.c_last_end_time}[which]()
    res = verify_function(w, c)
    rp = replay_decide if which != 'last_end_time' else replay_native([RERUN_SMALL])
    return {'functions': [prop.discharge(res, tier, pid, concretise_decide, rp)]}


def unit_enqueue(tier, pid):
    w = _world()

    def setup(I, scope):
        sw.enqueue_setup(I, scope)
        I.atomic_depth = 0
        orig = I.apply_contract

        def apply_contract(c, args, kwargs, recv=None, node=None):
            if c.qual.endswith('decide_new_state'):
                I.path.oblige(f'{QF}::QueueScheduling._enqueue::structure::C02-decision-runs-under-env.atomically', I.atomic_depth >= 1, kind='structure',
                              meta={'expr': 'decide_new_state (read-decide-write of the task state) is called through env.atomically'})
            return orig(c, args, kwargs, recv=recv, node=node)
        I.apply_contract = apply_contract
    res = verify_function(w, sw.c_enqueue(), setup=setup)
    return {'functions': [prop.discharge(res, tier, pid, lambda m, r: {'note': 'see model text'}, replay_native([SWEEP_SMALL, PARK]))]}


def unit_worker(tier, pid):
    w = sk.make_worker_world()
    res = verify_function(w, sk.worker_contract(), setup=sk.worker_setup, body_of=sk.worker_body, extra_check=sk.worker_check)

    def conc(model, r):
        out = {}
        for d in model.decls():
            if d.name().startswith(('outcome!', 'returned_status!', 'update_kind!')):
                out[d.name().split('!')[0]] = str(model[d])
        return out

    def rp(name, inp):
        # map the model to a probe outcome and run the real scheduler on it
        o = inp.get('outcome')
        probe = None
        if o == 'RAISES':
            probe = 'raise'
        elif o == 'EXITS':
            probe = 'sysexit'
            for pr in ('sysexit', 'baseexc'):
                out = native.call('single', {'n': 2, 'edges': [], 'outcomes': [pr, 'done'], 'workers': 2}, timeout=60)
                if out.get('problems') or out.get('hang'):
                    return {'reproduced': True, 'observed': out.get('problems') or 'hang', 'expected': 'C01/C02/C03 oracles',
                            'input_found': {'n': 2, 'edges': [], 'outcomes': [pr, 'done']}, 'by': 'native single run'}
        elif o == 'NONE':
            probe = 'none'
        elif o == 'NOT_A_PAIR':
            probe = 'notpair'
        elif o == 'PAIR':
            rs, uk = inp.get('returned_status', ''), inp.get('update_kind')
            if uk == 'BAD':
                probe = 'badupdate'
            elif uk == 'CORRUPTING' and ('DONE' in rs or 'FAILED' in rs):
                probe = 'corrupt'
            elif uk == 'READONLY' and ('DONE' in rs or 'FAILED' in rs):
                probe = 'readonly'
            elif rs == 'none':
                probe = 'badstatus'
            elif 'DONE' in rs:
                probe = 'done'
            elif 'FAILED' in rs:
                probe = 'failed'
            else:
                probe = 'waiting'
        if 'sentinel' in name:
            return replay_native([('twice', {})])(name, inp)
        if probe and 'yield-inv' not in name:
            for edges in ([], [[0, 1, 'h']], [[0, 1, 's']]):
                out = native.call('single', {'n': 2, 'edges': edges, 'outcomes': [probe, 'done'], 'workers': 2}, timeout=60)
                if out.get('problems') or out.get('hang'):
                    return {'reproduced': True, 'observed': out.get('problems') or 'hang', 'expected': 'C01/C02/C03 oracles',
                            'input_found': {'n': 2, 'edges': edges, 'outcomes': [probe, 'done']}, 'by': 'native single run'}
        return replay_native([PARK, SWEEP_SMALL])(name, inp)
    return {'functions': [prop.discharge(res, tier, pid, conc, rp)]}


def unit_master(tier, pid):
    w = sk.make_master_world()
    res = verify_function(w, sk.master_contract(), setup=sk.master_setup, extra_check=sk.master_check)
    return {'functions': [prop.discharge(res, tier, pid, lambda m, r: {'note': 'see model text'}, replay_native([('cyclic', {}), ('master_error', {}), SWEEP_SMALL]))]}


def unit_schedule(tier, pid):
    out = []
    for given in (True, False):
        w = sk.make_schedule_world()
        res = verify_function(w, sk.schedule_contract(given), setup=sk.schedule_setup, extra_check=sk.schedule_check)
        out.append(prop.discharge(res, tier, pid, lambda m, r: {'note': 'see model text'}, replay_native([RERUN_SMALL, SWEEP_SMALL])))
    return {'functions': out}


def unit_scheduler_init(tier, pid):
    out = []
    for given in (True, False):
        w = sk.make_init_world()
        res = verify_function(w, sk.init_contract(given), setup=sk.init_setup(given), extra_check=sk.init_check)
        out.append(prop.discharge(res, tier, pid, lambda m, r: {'note': 'see model text'}, replay_native([('scheduler_graphs', {}), SWEEP_SMALL])))
    return {'functions': out}


def unit_backend_init(tier, pid):
    w = sk.make_backend_init_world()
    res = verify_function(w, sk.backend_init_contract(), setup=sk.backend_init_setup, extra_check=sk.backend_init_check)
    return {'functions': [prop.discharge(res, tier, pid, lambda m, r: {'note': 'see model text'}, replay_native([('nested', {}), ('wide', {}), SWEEP_SMALL]))]}


def unit_og(tier, pid, which='all'):
    from . import sched_og as og
    sw.make_world()       # declares the TaskStatus enum from the source
    recs = []
    items = og.lemmas() if which in ('all', 'og') else []
    if which in ('all', 'independence'):
        items = items + og.schedule_independence()
    for name, hyp, goal, text in items:
        r = prop.lemma('contracts/sched_og.py::' + name, hyp, goal, tier, pid, expr=text)
        if '::vacuity::' in name:
            # canary: the hypotheses of the step must be satisfiable, i.e. the canary must NOT be provable
            r['kind'] = 'vacuity'
            r['status'] = 'discharged' if r['status'] != 'discharged' else 'vacuous'
            r.pop('model', None)
        elif r['status'] == 'refuted':
            r['replay'] = replay_native([PARK, SWEEP_SMALL])(name, None)
            r.pop('model', None)
        recs.append(r)
    return {'lemmas': recs}


# ---------------------------------------------------------------------------------------
LOCKED_METHODS = ('set_status', 'get_status', 'atomically', 'apply')
ATOMIC_SELF_CALLS = {'apply', 'atomically', 'set_status', 'get_status'}


def unit_env_locks(tier, pid):
    '''structural obligations: every access of an Env mutator to the shared dictionary happens inside one
    `with self.lock:` block (so each call is a single atomic action), atomically runs its action under that lock'''
    recs = []

    def rec(name, ok, expr, why=''):
        recs.append({'name': f'{ENVF}::{name}', 'kind': 'structure', 'instances': 1, 'expr': expr,
                     'status': 'discharged' if ok else 'refuted', 'backend': 'syntactic (AST of the working tree)', 'seconds': 0.0,
                     'model_text': why})
    for m in LOCKED_METHODS + ('set_start_end_clock',):
        try:
            fn = extract.find(ENVF, 'Env.' + m)
        except extract.Missing as e:
            recs.append({'name': f'{ENVF}::Env.{m}::structure', 'kind': 'structure', 'instances': 1, 'status': 'undecided', 'reason': str(e),
                         'backend': 'syntactic', 'seconds': 0.0})
            continue
        bad = []
        sections = []

        def in_loop_of(node):
            # is `node` inside a loop of fn (not counting loops of nested function definitions it is not in)?
            def walk(cur, loops):
                if cur is node:
                    return loops > 0
                if isinstance(cur, ast.FunctionDef) and cur is not fn:
                    return None
                for ch in ast.iter_child_nodes(cur):
                    r = walk(ch, loops + (1 if isinstance(cur, (ast.For, ast.While)) else 0))
                    if r is not None:
                        return r
                return None
            return bool(walk(fn, 0))

        def visit(node, locked):
            if isinstance(node, ast.With):
                is_lock = any(isinstance(it.context_expr, ast.Attribute) and isinstance(it.context_expr.value, ast.Name)
                              and it.context_expr.value.id == 'self' and it.context_expr.attr == 'lock' for it in node.items)
                if is_lock and not locked:
                    sections.append(node)
                    if in_loop_of(node):
                        bad.append(f'line {node.lineno}: the lock is taken inside a loop: one call is several atomic actions')
                for ch in node.body:
                    visit(ch, locked or is_lock)
                return
            if isinstance(node, ast.FunctionDef) and node is not fn:
                for sub in ast.walk(node):
                    if isinstance(sub, ast.Name) and sub.id == 'self':
                        bad.append(f'line {sub.lineno}: closure {node.name} captures self')
                return
            if isinstance(node, ast.Call) and isinstance(node.func, ast.Attribute) and isinstance(node.func.value, ast.Name) \
                    and node.func.value.id == 'self' and node.func.attr in ATOMIC_SELF_CALLS and not locked:
                for a in list(node.args) + [k.value for k in node.keywords]:
                    visit(a, locked)
                return
            if isinstance(node, ast.Name) and node.id == 'self' and not locked:
                bad.append(f'line {node.lineno}: self used outside `with self.lock`')
            for ch in ast.iter_child_nodes(node):
                visit(ch, locked)
        for st in extract.strip_doc(fn):
            visit(st, False)
        if len(sections) > 1:
            bad.append(f'{len(sections)} separate `with self.lock:` sections (lines {[n_.lineno for n_ in sections]}): one call is several atomic actions')
        rec(f'Env.{m}::structure::shared-state-only-under-lock', not bad,
            'every use of self outside `with self.lock:` is self.lock itself or a call of an atomic Env method; the lock is taken once per call (one section, not in a loop)', '; '.join(bad))
    # replays of a refuted structure obligation: the parking stand-in
    for r in recs:
        if r['status'] == 'refuted':
            r['replay'] = replay_native([PARK, SWEEP_SMALL])(r['name'], None)
    return {'lemmas': recs}


def unit_env_conformance(tier, seed):
    '''bounded: the real Env methods against the abstract EnvModel, all single-entry states x all operations'''
    from valjean.cosette.env import Env
    from valjean.cosette.task import Task, TaskStatus
    statuses = list(TaskStatus)
    class _T(Task):
        def do(self, env, config):
            return None
    t = _T('x')
    states = [None] + [{'status': s} for s in statuses] + [{'status': s, 'start_clock': 1.0, 'end_clock': 2.0} for s in statuses] \
        + [{'status': TaskStatus.DONE, 'payload': 7}]
    fails, n = [], 0

    def mk(st):
        e = Env()
        if st is not None:
            e['x'] = dict(st)
        e['other'] = {'status': TaskStatus.DONE, 'k': 1}
        return e

    def expect(st, op, arg):
        '''reference semantics (the EnvModel), returns (result, new entry)'''
        cur = None if st is None else dict(st)
        if op == 'get_status':
            if cur is None:
                cur = {'status': TaskStatus.WAITING}
            return cur['status'], cur
        if op == 'set_status':
            cur = dict(cur or {})
            cur['status'] = arg
            return None, cur
        if op.startswith('is_'):
            if cur is None:
                cur = {'status': TaskStatus.WAITING}
            return cur['status'] == TaskStatus[op[3:].upper()], cur
        if op.startswith('set_') and op != 'set_clock':
            cur = dict(cur or {})
            cur['status'] = TaskStatus[op[4:].upper()]
            return None, cur
        if op == 'set_clock':
            cur = dict(cur or {})
            cur.update(start_clock=5.0, end_clock=6.0)
            return None, cur
        if op == 'apply':
            cur = dict(cur or {})
            cur.update({'payload': 'p', 'more': {'n': 1}})
            return None, cur
        if op == 'apply_none':
            return None, cur
        if op in ('get_start_clock', 'get_end_clock'):
            return (cur or {}).get(op[4:]), cur
        raise AssertionError(op)
    ops = [('get_status', None)] + [('set_status', s) for s in statuses] + [(f'is_{s.name.lower()}', None) for s in statuses] \
        + [(f'set_{s.name.lower()}', None) for s in statuses] + [('set_clock', None), ('apply', None), ('apply_none', None),
                                                                  ('get_start_clock', None), ('get_end_clock', None)]
    for st in states:
        for op, arg in ops:
            if op in ('get_start_clock', 'get_end_clock') and st is None:
                continue      # the model requires the entry (the real method raises AttributeError on None)
            e = mk(st)
            n += 1
            try:
                if op == 'get_status':
                    r = e.get_status(t)
                elif op == 'set_status':
                    r = e.set_status(t, arg)
                elif op == 'set_clock':
                    r = e.set_start_end_clock(t, start=5.0, end=6.0)
                elif op == 'apply':
                    r = e.apply({'x': {'payload': 'p', 'more': {'n': 1}}})
                elif op == 'apply_none':
                    r = e.apply(None)
                else:
                    r = getattr(e, op)(t)
                got = (r, dict(e['x']) if 'x' in e else None, dict(e['other']))
            except Exception as ex:      # noqa
                got = ('raised ' + repr(ex), None, None)
            want_r, want_e = expect(st, op, arg)
            want = (want_r, want_e, {'status': TaskStatus.DONE, 'k': 1})
            if got != want:
                fails.append({'input': {'entry': repr(st), 'op': op, 'arg': repr(arg)}, 'observed': repr(got), 'expected': repr(want)})
    # apply is a DEEP merge (sections shared by several tasks, at any depth): sequences of two or three updates against a recursive-merge oracle
    import copy
    import itertools

    class LeafToSection(Exception):
        pass

    def merged(old, upd):
        for k, v in upd.items():
            if isinstance(v, dict) and k in old:
                if not isinstance(old[k], dict):
                    raise LeafToSection      # a section written over an existing leaf: not claimed (the real method raises TypeError)
                merged(old[k], v)
            else:
                old[k] = v if not isinstance(v, dict) else copy.deepcopy(v)
        return old
    pool = [{'x': {'res': {'a': 1}}}, {'x': {'res': {'b': 2}}}, {'shared': {'sec': {'sub': {'a': 1}}}}, {'shared': {'sec': {'sub': {'b': 2}}}},
            {'shared': {'sec': {'other': 3}}}, {'x': {'res': 7}}, {'x': {'res': {'a': {'deep': [1]}}}}, {'shared': {'flat': 1}}, {}]
    for seq in itertools.chain(itertools.permutations(range(len(pool)), 2), [(2, 3, 4), (4, 3, 2), (0, 1, 6), (6, 1, 0), (5, 0, 1), (0, 5, 1)]):
        e = mk({'status': TaskStatus.PENDING})
        want = {k: copy.deepcopy(dict(v)) for k, v in e.items()}
        n += 1
        try:
            for i in seq:
                merged(want, copy.deepcopy(pool[i]))
        except LeafToSection:
            continue
        try:
            for i in seq:
                e.apply(copy.deepcopy(pool[i]))
            got = {k: v for k, v in e.items()}
        except Exception as ex:      # noqa
            got = 'raised ' + repr(ex)
        if got != want:
            fails.append({'input': {'entry': "{'status': PENDING}", 'op': 'apply, in sequence', 'updates': [pool[i] for i in seq]}, 'observed': repr(got), 'expected': repr(want)})
    # atomically: runs the action with the environment, under the lock (re-entrant), returns its result
    e = mk(None)
    n += 1
    seen = {}

    def action(env):
        seen['same'] = env is e
        seen['locked'] = e.lock._is_owned()
        return 42
    r = e.atomically(action)
    if r != 42 or not seen.get('same') or not seen.get('locked'):
        fails.append({'input': {'op': 'atomically'}, 'observed': repr((r, seen)), 'expected': 'action(env) under env.lock, result returned'})
    return {'bounded': [{'name': 'env-methods-vs-abstract-model', 'bound': 'all single-entry states (absent / each status / with clocks / with payload) x every '
                         'accessor, mutator, apply and clock operation (exhaustive); sequences of 2-3 nested updates (sections shared at depth 2-4, a section replaced by a '
                         'leaf; a section written over a leaf is not claimed) against a recursive-merge oracle; this is the conformance check of the ASSUMED Env contracts',
                         'evaluations': n, 'distinct': n, 'exhaustive': True, 'failures': fails[:10],
                         'samples': [{'entry': None, 'op': 'get_status', 'expect': 'WAITING inserted'}]}]}


def unit_native(mode, args, name, bound, known=()):
    out = native.call(mode, args, timeout=1500)
    if out.get('error'):
        return {'crash': json.dumps(out)[:1500]}
    return {'bounded': [{'name': name, 'bound': bound + (' (exhaustive)' if out.get('exhaustive') else ''), 'evaluations': out.get('evaluations', 0),
                         'distinct': out.get('distinct', out.get('evaluations', 0)), 'exhaustive': bool(out.get('exhaustive')),
                         'failures': out.get('failures', [])[:10], 'samples': [args], 'note': f"{out.get('seconds', '?')} s"}]}


def sweep_args(tier, seed):
    return {'budget': 4000 if tier == 'quick' else 10 ** 9, 'seed': seed, 'nmax': 3}


def rerun_args(tier, seed):
    return {'budget': 1500 if tier == 'quick' else 10 ** 9, 'seed': seed}


SWEEP_BOUND = ('real Scheduler/QueueScheduling on all DAGs <= 3 tasks with hard/soft edges x outcomes {done, failed, raise, None, not a pair, '
               'bad status, update not a mapping, non-final status} x workers {1, 2}; all 1- and 2-task cases + a seeded sample of the 3-task cases in '
               'the quick tier, every case in the thorough tier; cyclic graphs of 1-3 tasks; a second schedule() on the same backend; a task that schedules an inner graph on its own backend; an error raised by the master after the workers were started; an empty nested graph as a barrier between the hard and the soft graph; several schedulers built from the same graph objects; 300-1200 independent tasks on 1-4 workers; hang watchdog 6 s; C01/C02/C03 oracles')
PARK_BOUND = ('graph A -> B (hard and soft) + independent C, 3 workers; the worker of A is parked (threading.settrace) before every executed line '
              'of WorkerThread.run after task.do(); one preemption per run; B must read A complete whenever it starts')
RERUN_BOUND = ('two-run histories on all DAGs <= 3 tasks, first-run outcomes {done, failed}^n, between the runs each task keeps / loses its persisted '
               'entry / starts failing / recovers / is older than its re-executed dependencies / is a seeded entry without clocks; carried over with merge_done_tasks; seeded sample in the quick tier, every case in the thorough tier')
