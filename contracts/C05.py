'''C05 -- the Student verdict is true exactly when every bin is statistically compatible.

Deductive part (valjean/gavroche/stat_tests/student.py): student_test (array and 0-d branches, special cases), test_alpha,
oracles, __bool__ (conjunction over datasets and bins), test_pvalue, pvalue / student_threshold with the scipy laws as
axiomatised functions, and the lemmas of the statement (threshold <=> p-value decision, symmetry, rescaling,
monotonicity, one-sided NaN).  Numbers are extended reals (A-real).'''
import ast
import z3

from pyvc import prop, theory as th, solve
from pyvc.values import SV, SObj, SClass, SNamespace, SFunc, T, INT, BOOL, NUM, Undecided, lift, coerce
from pyvc.engine import Contract, Scope
from pyvc.verify import verify_function, ClassModel
from pyvc.libspec import SArr
from .dataset_world import make_world, DS
from . import stat_native as snat

ID = 'C05'
LEVEL = 'proof'
SF = 'valjean/gavroche/stat_tests/student.py'
EXPLANATION = ('Contracts on the real TestStudent.student_test (t = (v1 - v2)/sqrt(e1^2 + e2^2) pointwise, 0 for 0/0, for a zero difference with both errors NaN and for '
               'both values NaN; array and 0-d branches), TestResultStudent.test_alpha (|t| < threshold, false on NaN), oracles, __bool__ (conjunction over datasets and '
               'bins) and test_pvalue (p > alpha per bin); pvalue / student_threshold against axiomatised normal / Student laws; lemmas: threshold decision == p-value '
               'decision, verdict symmetric in the two datasets, invariant under a common positive rescaling, monotone in |difference| and in the errors, false for a '
               'one-sided NaN. Obligations generated from the AST and discharged by z3 over extended reals.')
ASSUMPTIONS = [
    'A-real: finite floating-point arithmetic is mathematical; NaN and infinities follow IEEE-754 exactly',
    'A-numpy: pointwise ufuncs, mask assignment a[m] = c, np.less / np.fabs / np.isnan / zeros_like as documented',
    'scipy.stats norm / t: sf(x) = 1 - cdf(x), cdf strictly increasing and continuous, symmetric laws (sf(-x) = 1 - sf(x)), ppf the inverse of cdf, '
    'sf(NaN) = NaN, sf(+inf) = 0 -- axioms instantiated at the ground terms of each VC, never proved',
    'Dataset.__sub__ is used through its contract (value v1 - v2, error sqrt(e1^2 + e2^2) for all extended reals, NaN and infinite errors included: verified here, unit dataset_sub); check_bins is not modelled (bins of the compared datasets agree)',
    'rank-1 arrays stand for every shape (the functions are pointwise); lists of compared datasets of length 1 and 2',
    'A-log: LOGGER calls dropped',
]
TRUSTED = ['z3 unsat answers (cvc5 cross-check in the thorough tier)', 'CPython ast module', 'pyvc engine (symbolic executor, libspec / libnumpy encodings)']

TSPEC = ('(0 if ((d == 0 and s == 0) or (d == 0 and isnan(e1) and isnan(e2)) or (isnan(v1) and isnan(v2))) else d / s)')


def _num_fn(f):
    return lambda I, *xs: SV(NUM, f(*[coerce(x if isinstance(x, SV) else lift(x), NUM).t for x in xs]))


def _world(scalar=False):
    w = make_world(ndim=None if scalar else 1, bins_layout=None, scalar=scalar)
    w.globals['sq'] = _num_fn(th.num_sq)
    w.globals['sqrt'] = _num_fn(th.num_sqrt)
    w.globals['fabs'] = _num_fn(th.num_abs)
    w.globals['isnan'] = lambda I, x: SV(BOOL, th.is_nan(coerce(x if isinstance(x, SV) else lift(x), NUM).t))
    # t as the property states it, from the four numbers of a bin
    src = ('def tstat(v1, e1, v2, e2):\n    d = v1 - v2\n    s = sqrt(sq(e1) + sq(e2))\n    return ' + TSPEC + '\n')
    for node in ast.parse(src).body:
        w.globals[node.name] = SFunc(node, None, node.name)
    # scipy.stats laws: uninterpreted functions over Num (their properties enter only through the lemmas)
    def law(name, nargs):
        f = th.func(name, *([th.Num] * nargs), th.Num)

        def g(I, x, *rest):
            extra = [coerce(r if isinstance(r, SV) else lift(r), NUM).t for r in rest]
            if isinstance(x, SArr):
                from pyvc.libnumpy import _to_num
                e = _to_num(x.elem, x.dtype)
                return I.world.lib._like(x, lambda i: f(e(i), *extra), 'num')
            xv = coerce(x if isinstance(x, SV) else lift(x), NUM)
            return I.world.lib.scalar_arr(I, f(xv.t, *extra), 'num')
        return f, g
    for dist, nargs in (('norm', 1), ('t', 2)):
        fs, gs = law(f'{dist}_sf', nargs)
        fp, gp = law(f'{dist}_ppf', nargs)
        w.globals[dist] = SNamespace(dist, {'sf': gs, 'ppf': gp})
        w.globals[f'{dist}_sf'] = _num_fn(fs)
        w.globals[f'{dist}_ppf'] = _num_fn(fp)
    # Dataset.__sub__ as its callers see it (contract verified by C08)
    n = 'self.value.size'
    sub = Contract(DS, 'Dataset.__sub__', params={'self': 'Obj:Dataset', 'other': 'Obj:Dataset'}, returns='Obj:Dataset',
                   ensures=[f'result.value.size == {n} and result.error.size == {n}',
                            f'all(same(result.value[i], self.value[i] - other.value[i]) and same(result.error[i], sqrt(sq(self.error[i]) + sq(other.error[i]))) for i in range({n}))'],
                   signals={})
    w.add(sub)
    return w


def c_student_test(scalar):
    n = 'ds1.value.size'
    body = 'same(result[i], tstat(ds1.value[i], ds1.error[i], ds2.value[i], ds2.error[i]))'
    return Contract(SF, 'TestStudent.student_test', params={'ds1': 'Obj:Dataset', 'ds2': 'Obj:Dataset'},
                    requires=['ds2.value.size == ds1.value.size', 'ds1.error.size == ds1.value.size', 'ds2.error.size == ds1.value.size'],
                    ensures=[('t-is-the-difference-over-the-quadratic-sum-of-the-errors', f'all({body} for i in range({n}))'),
                             ('one-value-per-bin', f'result.size == {n}'),
                             ('inputs-untouched', 'ds1.value is old(ds1.value) and ds1.error is old(ds1.error) and ds2.value is old(ds2.value) and ds2.error is old(ds2.error)')],
                    signals={}, variant='0-d' if scalar else 'array')


# ---- result object: tstud is a list of arrays (one per compared dataset), test.threshold / alpha numbers
class ResModel(ClassModel):
    name = 'TestResultStudent'
    fields = {}


def _result_world(ndatasets, scalar=False):
    w = _world(scalar)
    w.class_models['TestResultStudent'] = ResModel(w)

    def setup(I, scope):
        L = I.world.lib
        ts = [L.fresh_array(I, f'tstud{k}', scalar=scalar) for k in range(ndatasets)]
        ps = [L.fresh_array(I, f'pvalue{k}', scalar=scalar) for k in range(ndatasets)]
        if not scalar:
            for t_, p_ in zip(ts, ps):
                I.path.assume(p_.n == t_.n)
        thr = I.fresh(NUM, 'threshold')
        alpha = I.fresh(NUM, 'alpha')
        test = I.alloc('TestStudent', {'threshold': thr, 'alpha': alpha, 'ndf': None})
        me = I.alloc('TestResultStudent', {'tstud': ts, 'pvalue': ps, 'test': test})
        scope.set('self', me)
    return w, setup


ALPHA_OK = 'all(same(result[i], fabs(tstud[i]) < self.test.threshold) for i in range(tstud.size))'


def c_test_alpha():
    return Contract(SF, 'TestResultStudent.test_alpha', params={'tstud': lambda I, base: I.world.lib.fresh_array(I, base)},
                    returns=lambda I, base: I.world.lib.fresh_array(I, base, dtype='bool'),
                    ensures=[('a-bin-passes-iff-abs-t-is-below-the-threshold', ALPHA_OK), ('one-flag-per-bin', 'result.size == tstud.size')], signals={})


def c_pvalue(with_ndf):
    law = 't_sf(fabs(tstud[i]), ndf)' if with_ndf else 'norm_sf(fabs(tstud[i]))'
    return Contract(SF, 'TestStudent.pvalue', params={'tstud': lambda I, base: I.world.lib.fresh_array(I, base), 'ndf': 'Int' if with_ndf else 'None'},
                    ensures=[('two-sided-p-value', f'all(same(result[i], 2.0 * {law}) for i in range(tstud.size))'), ('one-per-bin', 'result.size == tstud.size')],
                    signals={}, variant='student-law' if with_ndf else 'normal-law')


def c_threshold(with_ndf):
    law = 't_ppf(0.5 * alpha, ndf)' if with_ndf else 'norm_ppf(0.5 * alpha)'
    return Contract(SF, 'TestStudent.student_threshold', params={'alpha': 'Num', 'ndf': 'Int' if with_ndf else 'None'},
                    ensures=[('two-sided-critical-value', f'same(result.item(), fabs({law}))')], signals={}, variant='student-law' if with_ndf else 'normal-law')


def c_bool(nd):
    conj = ' and '.join(f'all(fabs(self.tstud[{k}][i]) < self.test.threshold for i in range(self.tstud[{k}].size))' for k in range(nd))
    return Contract(SF, 'TestResultStudent.__bool__', params={}, returns='Bool',
                    ensures=[('C05-verdict-is-the-conjunction-over-datasets-and-bins', f'result == ({conj})')], signals={}, variant=f'{nd}-datasets')


def c_oracles(nd):
    per = ' and '.join(f'all(same(result[{k}][i], fabs(self.tstud[{k}][i]) < self.test.threshold) for i in range(self.tstud[{k}].size))' for k in range(nd))
    return Contract(SF, 'TestResultStudent.oracles', params={}, ensures=[('C05-oracles-are-the-per-bin-decisions', f'len(result) == {nd} and {per}')],
                    signals={}, variant=f'{nd}-datasets')


def c_test_pvalue(nd):
    per = ' and '.join(f'all(same(result[{k}][i], self.pvalue[{k}][i] > self.test.alpha) for i in range(self.pvalue[{k}].size))' for k in range(nd))
    return Contract(SF, 'TestResultStudent.test_pvalue', params={}, ensures=[('C05-p-value-decision-per-bin', f'len(result) == {nd} and {per}')],
                    signals={}, variant=f'{nd}-datasets')


# ---- lemmas over reals with the scipy laws as uninterpreted functions (axioms instantiated at ground terms)
def lemmas():
    out = []
    sf = z3.Function('sf', z3.RealSort(), z3.RealSort())        # survival function of a symmetric continuous law
    ppf = z3.Function('ppf', z3.RealSort(), z3.RealSort())
    a, x, thr = z3.Reals('alpha x thr')
    # threshold = |ppf(alpha/2)|, p = 2 sf(|t|)
    ax = [0 < a, a < 1, x >= 0,
          thr == z3.If(ppf(a / 2) >= 0, ppf(a / 2), -ppf(a / 2)),
          1 - sf(ppf(a / 2)) == a / 2,                       # cdf(ppf(q)) = q
          sf(-ppf(a / 2)) == 1 - sf(ppf(a / 2)),             # symmetry: sf(-y) = cdf(y)
          ppf(a / 2) < 0,                                    # q < 1/2 for a symmetric law centred at 0
          # sf strictly decreasing, instantiated at the two points compared
          z3.Implies(x < thr, sf(x) > sf(thr)), z3.Implies(x > thr, sf(x) < sf(thr)), z3.Implies(x == thr, sf(x) == sf(thr))]
    out.append(('C05-threshold-decision-equals-p-value-decision', ax, (x < thr) == (2 * sf(x) > a), '|t| < |ppf(alpha/2)|  <=>  2 sf(|t|) > alpha'))
    # the statistic on finite inputs: symmetry, rescaling, monotonicity
    v1, v2, e1, e2, k, r = z3.Reals('v1 v2 e1 e2 k r')
    s = z3.Real('s')
    sk = z3.Real('sk')
    fin = [e1 >= 0, e2 >= 0, s >= 0, s * s == e1 * e1 + e2 * e2, s > 0]
    out.append(('C05-symmetric-in-the-two-datasets', fin, z3.If((v1 - v2) / s >= 0, (v1 - v2) / s, -(v1 - v2) / s) == z3.If((v2 - v1) / s >= 0, (v2 - v1) / s, -(v2 - v1) / s),
                '|t(ds1, ds2)| == |t(ds2, ds1)| (the quadratic sum is symmetric)'))
    out.append(('C05-invariant-under-a-common-positive-rescaling', fin + [k > 0, sk >= 0, sk * sk == (k * e1) * (k * e1) + (k * e2) * (k * e2)],
                (k * v1 - k * v2) / sk == (v1 - v2) / s, 't(k ds1, k ds2) == t(ds1, ds2) for k > 0'))
    d, d2, s2 = z3.Reals('d d2 s2')
    absd = lambda u: z3.If(u >= 0, u, -u)      # noqa
    out.append(('C05-never-improves-when-a-difference-grows', [s > 0, absd(d2) >= absd(d), thr > 0, absd(d2) / s < thr], absd(d) / s < thr, '|d2| >= |d| and |d2|/s < thr => |d|/s < thr'))
    out.append(('C05-never-improves-when-an-error-shrinks', [s > 0, s2 > 0, s2 <= s, thr > 0, absd(d) / s2 < thr], absd(d) / s < thr, 's2 <= s and |d|/s2 < thr => |d|/s < thr'))
    # one-sided NaN over Num: the bin fails
    V1, E1, V2, E2 = (z3.Const(n_, th.Num) for n_ in ('V1', 'E1', 'V2', 'E2'))
    T_ = z3.Const('thrN', th.Num)
    D = th.num_sub(V1, V2)
    S = th.num_sqrt(th.num_add(th.num_sq(E1), th.num_sq(E2)))
    special = z3.Or(z3.And(th.num_eq(D, th.Fin(0)), th.num_eq(S, th.Fin(0))), z3.And(th.num_eq(D, th.Fin(0)), th.is_nan(E1), th.is_nan(E2)), z3.And(th.is_nan(V1), th.is_nan(V2)))
    Tval = z3.If(special, th.Fin(0), th.num_div(D, S))
    # one dataset carries a NaN (value or error) in the bin, the other one none
    one_sided = z3.Or(z3.And(z3.Or(th.is_nan(V1), th.is_nan(E1)), z3.Not(th.is_nan(V2)), z3.Not(th.is_nan(E2))),
                      z3.And(z3.Or(th.is_nan(V2), th.is_nan(E2)), z3.Not(th.is_nan(V1)), z3.Not(th.is_nan(E1))))
    out.append(('C05-a-one-sided-NaN-makes-the-bin-fail', [one_sided], z3.Not(th.num_lt(th.num_abs(Tval), T_)), 'NaN on one side only => not (|t| < threshold)'))
    return out


# ---- TestStudent.evaluate: the verified pieces are applied to every compared dataset, in order (trace contract)
def eval_world(nd):
    from pyvc.verify import World
    w = World()
    w.globals['LOGGER'] = SNamespace('LOGGER', dropped=True)
    for cname in ('TestStudent', 'TestResultStudent', 'DS', 'Arr'):
        w.class_models[cname] = type(cname, (ClassModel,), {'name': cname, 'fields': {}})(w)
    w.globals['TestResultStudent'] = SClass('TestResultStudent')
    w.construct_hooks['TestResultStudent'] = lambda I, args, kwargs: I.alloc('TestResultStudent', dict(zip(('test', 'tstud', 'pvalue'), args)))

    def check_bins(I, a, b):
        I.trace.append(('check_bins', a, b))
        if I.path.cond(z3.Bool(I.path.name('bins_differ'))):
            I.raise_('ValueError')
    w.globals['check_bins'] = check_bins

    def m_student_test(I, me, a, b):
        r = I.alloc('Arr', {'what': 't'})
        I.trace.append(('student_test', a, b, r))
        return r

    def m_pvalue(I, me, t, ndf):
        r = I.alloc('Arr', {'what': 'p'})
        I.trace.append(('pvalue', t, ndf, r))
        return r
    w.class_models['TestStudent'].m_student_test = m_student_test
    w.class_models['TestStudent'].m_pvalue = m_pvalue
    return w


def eval_setup(nd):
    def setup(I, scope):
        I.trace = []
        I.dsref = I.alloc('DS', {})
        I.dss = [I.alloc('DS', {}) for _ in range(nd)]
        I.ndf = I.fresh(T('Opt', INT), 'ndf')
        scope.set('self', I.alloc('TestStudent', {'dsref': I.dsref, 'datasets': list(I.dss), 'ndf': I.ndf}))
    return setup


def c_evaluate(nd):
    return Contract(SF, 'TestStudent.evaluate', params={}, signals={'ValueError': True}, variant=f'{nd}-datasets')


def eval_check(nd):
    def check(I, scope, outcome):
        L = f'{SF}::TestStudent.evaluate[{nd}-datasets]'
        if outcome[0] != 'return':
            return          # bins differ: the documented ValueError
        tr = I.trace
        tests = [e for e in tr if e[0] == 'student_test']
        pvals = [e for e in tr if e[0] == 'pvalue']
        checks = [e for e in tr if e[0] == 'check_bins']
        # either order of the two datasets: the property makes the verdict symmetric (only the sign of t changes)
        ok1 = len(tests) == nd and all({id(e[1]), id(e[2])} == {id(I.dsref), id(I.dss[k])} for k, e in enumerate(tests)) and \
            len(checks) == nd and all(e[1] is I.dsref and e[2] is I.dss[k] for k, e in enumerate(checks))
        I.path.oblige(f'{L}::post::C05-every-compared-dataset-is-tested-against-the-reference-in-order', ok1, kind='post',
                      meta={'expr': 'check_bins(dsref, ds_k) and student_test(dsref, ds_k) for k = 0 .. n-1, nothing else'})
        ok2 = ok1 and len(pvals) == nd and all(e[1] is tests[k][3] and e[2] is I.ndf for k, e in enumerate(pvals))
        I.path.oblige(f'{L}::post::C05-the-p-value-of-each-dataset-comes-from-its-own-statistic-and-the-ndf-of-the-test', ok2, kind='post',
                      meta={'expr': 'pvalue(t_k, self.ndf) for k = 0 .. n-1'})
        res = outcome[1]
        ok3 = ok2 and isinstance(res, SObj) and res.cls == 'TestResultStudent' and I.getfield(res, 'test') is scope.lookup('self')
        if ok3:
            ts, ps = I.getfield(res, 'tstud'), I.getfield(res, 'pvalue')
            ok3 = isinstance(ts, list) and isinstance(ps, list) and len(ts) == nd and len(ps) == nd and all(ts[k] is tests[k][3] and ps[k] is pvals[k][3] for k in range(nd))
        I.path.oblige(f'{L}::post::C05-the-result-holds-the-statistics-and-p-values-of-the-datasets-in-order', ok3, kind='post',
                      meta={'expr': 'TestResultStudent(self, [t_0 ..], [p_0 ..])'})
    return check


def units(tier):
    return ['dataset_sub', 'evaluate', 'student_test_array', 'student_test_0d', 'pvalue', 'threshold', 'test_alpha', 'bool_1', 'bool_2', 'oracles_1', 'oracles_2', 'test_pvalue_1', 'test_pvalue_2', 'lemmas', 'native']


def _replay_native(name, inp):
    out = snat.student_sweep('quick', 0)
    if out['failures']:
        fl = out['failures'][0]
        return {'reproduced': True, 'observed': fl['observed'], 'input_found': fl['input'], 'by': 'native student sweep'}
    return {'reproduced': False, 'note': 'native sweep found no failing input'}


def run_unit(unit, tier, seed, known):
    import logging
    import warnings
    logging.disable(logging.CRITICAL)
    warnings.filterwarnings('ignore')
    if unit == 'dataset_sub':
        from . import C08
        return {'functions': [C08.verify_sub_full(tier, ID, _replay_native)]}
    if unit == 'native':
        return {'bounded': [snat.student_sweep(tier, seed)]}
    if unit == 'lemmas':
        recs = []
        for name, hyp, goal, text in lemmas():
            r = prop.lemma(f'{SF}::lemma::{name}', hyp, goal, tier, ID, expr=text)
            if r['status'] == 'refuted':
                r['replay'] = _replay_native(name, None)
            r.pop('model', None)
            recs.append(r)
        return {'lemmas': recs}
    disc = lambda res: {'functions': [prop.discharge(res, tier, ID, lambda m, r: {'note': 'see model text'}, _replay_native)]}     # noqa
    if unit == 'evaluate':
        return {'functions': [prop.discharge(verify_function(eval_world(nd), c_evaluate(nd), setup=eval_setup(nd), extra_check=eval_check(nd)), tier, ID,
                                             lambda m, r: {'note': 'see model text'}, _replay_native) for nd in (1, 2)]}
    if unit.startswith('student_test'):
        scalar = unit.endswith('0d')
        w = _world(scalar)
        return disc(verify_function(w, c_student_test(scalar)))
    if unit in ('pvalue', 'threshold'):
        out = []
        for with_ndf in (False, True):
            w = _world()
            c = (c_pvalue if unit == 'pvalue' else c_threshold)(with_ndf)
            out.append(prop.discharge(verify_function(w, c), tier, ID, lambda m, r: {'note': 'see model text'}, _replay_native))
        return {'functions': out}
    if unit == 'test_alpha':
        w, setup = _result_world(1)
        return disc(verify_function(w, c_test_alpha(), setup=setup))
    kind, nd = unit.rsplit('_', 1)
    nd = int(nd)
    w, setup = _result_world(nd)
    ca = c_test_alpha()

    def m_test_alpha(I, me, tstud):
        # np.less(np.fabs(x), thr) on a LIST of same-shaped arrays is the per-array result (A-numpy: a list of arrays is stacked, ufuncs are pointwise)
        if isinstance(tstud, list):
            return [I.apply_contract(ca, [t_], {}, recv=me) for t_ in tstud]
        return I.apply_contract(ca, [tstud], {}, recv=me)
    w.class_models['TestResultStudent'].m_test_alpha = m_test_alpha
    c = {'bool': c_bool, 'oracles': c_oracles, 'test_pvalue': c_test_pvalue}[kind](nd)
    return disc(verify_function(w, c, setup=setup))


def replay(name, inp):
    return _replay_native(name or '', inp)
