'''C15 -- generated tasks correspond one-to-one to what was asked for.

Deductive part: the cache logic of Use.get_task and RunTaskFactory.make against a ghost request(task) and an arbitrary
(symbolic) cache satisfying the cache invariant -- i.e. for every history of earlier requests; close_dependency_graph
(while loop over sets, least closed superset) and check_unique_task_names (loop invariant).  Executing the generated
tasks against their requests is the labelled bounded stand-in.'''
import ast
import z3

from pyvc import prop, theory as th
from pyvc.values import SV, SObj, SClass, SNamespace, SFunc, T, INT, BOOL, STR, Undecided, lift, coerce, zsort, seq_len, seq_arr, map_dom, map_val
from pyvc.engine import Contract, LoopSpec, Scope
from pyvc.verify import World, ClassModel, verify_function
from . import tasks_native as tn

ID = 'C15'
LEVEL = 'proof'
USEF = 'valjean/cosette/use.py'
RUNF = 'valjean/cosette/run.py'
TASKF = 'valjean/cosette/task.py'
COMMONF = 'valjean/cambronne/common.py'
TASK = T('Ref', 'Task')
REQ = T('Ref', 'Req')

EXPLANATION = ('Contracts on the real Use.get_task and RunTaskFactory.make with a ghost request(task): for an ARBITRARY cache satisfying the cache invariant '
               '(every cached task was built for the request recorded with it, under its own name) the returned task was built for exactly the present request '
               '-- so two different requests never share a task, identical requests get the same task -- and the cache invariant is preserved (induction over '
               'the history of calls); close_dependency_graph returns the least superset of the job tasks closed under hard and soft dependencies, each task '
               'once (while-loop invariant, partial correctness); check_unique_task_names raises exactly when two listed tasks share a name (loop invariant). '
               'Obligations from the AST, discharged by z3. Executing generated tasks against their requests: labelled bounded sweeps.')
ASSUMPTIONS = [
    'Use._request() / the request tuple of RunTaskFactory.make identify a request: abstracted by an injective constructor (mk_req) over the wrapped function, '
    'injected tasks and keys, dependency type, serialisation flag (resp. arguments, format kwargs, subprocess arguments, dependencies); tuple / list equality of '
    'Python is assumed to coincide with equality of these abstract requests',
    'PythonTask / RunTask constructors build a task with the given name, closure and dependencies (ghost: request(task) = the request in scope); the body of the '
    'generated closures (inject_from_env, runner) is exercised by the bounded units and by C19',
    'the name of a generated task is an uninterpreted function of its hard dependencies and function name (string formatting not modelled)',
    'termination of close_dependency_graph (acyclic dependencies) is not proved',
    'Use.__init__ is an assumed constructor contract (stores what it is given); Use.map / using / UseRun: bounded units only',
    'A-log: LOGGER calls dropped',
]
TRUSTED = ['z3 unsat answers (cvc5 cross-check in the thorough tier)', 'CPython ast module', 'pyvc engine (symbolic executor, libspec encodings)']


# ---------------------------------------------------------------------------------------
# close_dependency_graph / check_unique_task_names
def graph_world():
    w = World()
    w.globals['LOGGER'] = SNamespace('LOGGER', dropped=True)
    w.ref_attrs['Task'] = {'depends_on': 'Set[Ref:Task]', 'soft_depends_on': 'Set[Ref:Task]', 'name': 'Str'}
    w.globals['Tasks'] = SV(T('Set', TASK), z3.K(zsort(TASK), z3.BoolVal(True)))
    # an arbitrary superset of the job tasks that is closed under hard and soft dependencies
    closed = th.func('some_closed_superset', zsort(TASK), z3.BoolSort())
    w.globals['closed'] = lambda I, t: SV(BOOL, closed(t.t))
    return w


CLOSED_AX = ['all(closed(tasks[i]) for i in range(len(tasks)))',
             'all(implies(closed(t), all(closed(d) for d in t.depends_on) and all(closed(d) for d in t.soft_depends_on)) for t in Tasks)']


def c_close():
    inv = ['all(tasks[i] in all_tasks for i in range(len(tasks)))',
           'all(implies(t in queue, t in all_tasks) for t in Tasks)',
           # everything collected so far, except the current frontier, already has its dependencies collected
           'all(implies(t in all_tasks and t not in queue, all(d in all_tasks for d in t.depends_on) and all(d in all_tasks for d in t.soft_depends_on)) for t in Tasks)',
           'all(implies(t in all_tasks, closed(t)) for t in Tasks)']
    return Contract(
        TASKF, 'close_dependency_graph', params={'tasks': 'Seq[Ref:Task]'}, returns='Seq[Ref:Task]',
        requires=CLOSED_AX,
        ensures=[('contains-the-job-tasks', 'all(any(result[j] is tasks[i] for j in range(len(result))) for i in range(len(tasks)))'),
                 ('closed-under-hard-and-soft-dependencies', 'all(all(any(result[k] is d for k in range(len(result))) for d in result[j].depends_on) and '
                                                              'all(any(result[k] is d for k in range(len(result))) for d in result[j].soft_depends_on) for j in range(len(result)))'),
                 ('nothing-but-transitive-dependencies', 'all(closed(result[j]) for j in range(len(result)))'),
                 ('each-task-exactly-once', 'all(implies(result[j] is result[k], j == k) for j in range(len(result)) for k in range(len(result)))')],
        signals={},
        loops={0: LoopSpec('while queue', inv, vars={'queue': 'Set[Ref:Task]', 'all_tasks': 'Set[Ref:Task]', 'deps': 'Set[Ref:Task]', 'soft_deps': 'Set[Ref:Task]'})})


def c_unique():
    dup = 'any(tasks[i].name == tasks[j].name and i != j for i in range({n}) for j in range({n}))'
    inv = ['all((s in names) == any(tasks[i].name == s for i in range(done)) for s in Strings)',
           '(len(dups) > 0) == ' + dup.format(n='done'),
           'all(implies(s in dups, s in names) for s in Strings)']
    return Contract(COMMONF, 'check_unique_task_names', params={'tasks': 'Seq[Ref:Task]'},
                    ensures=[('accepted-means-all-names-distinct', 'not ' + dup.format(n='len(tasks)'))],
                    signals={'ValueError': dup.format(n='len(tasks)')},
                    loops={0: LoopSpec('for task in tasks', inv, vars={'names': 'Set[Str]', 'dups': 'Set[Str]'})})


# ---------------------------------------------------------------------------------------
# Use.get_task : cache logic for every history
class UseModel(ClassModel):
    name = 'Use'
    fields = {'inj_args': 'Seq[Tuple[Ref:Task,Ref:Key]]', 'inj_kwargs': 'Map[Str,Tuple[Ref:Task,Ref:Key]]', 'wrapped': 'Ref:Func', 'func_name': 'Str',
              'deps_type': 'Str', 'serialize': 'Bool', '_USE_CACHING': 'Bool'}


def use_world():
    w = World()
    w.globals['LOGGER'] = SNamespace('LOGGER', dropped=True)
    w.class_models['Use'] = UseModel(w)
    w.globals['Use'] = SClass('Use')
    w.ref_attrs['Task'] = {'name': 'Str'}
    request_of = th.func('request_of_task', zsort(TASK), zsort(REQ))
    name_of = th.func('Task.name', zsort(TASK), z3.StringSort())
    hard_of = th.func('hard_deps_of_task', zsort(TASK), zsort(T('Set', TASK)))
    soft_of = th.func('soft_deps_of_task', zsort(TASK), zsort(T('Set', TASK)))
    w.request_of, w.name_of, w.hard_of, w.soft_of = request_of, name_of, hard_of, soft_of
    w.globals['request_of'] = lambda I, t: SV(REQ, request_of(t.t))
    w.globals['hard_of'] = lambda I, t: SV(T('Set', TASK), hard_of(t.t))
    w.globals['soft_of'] = lambda I, t: SV(T('Set', TASK), soft_of(t.t))
    mk_req = th.func('mk_req', zsort(T('Ref', 'Func')), zsort(parse('Seq[Tuple[Ref:Task,Ref:Key]]')), zsort(parse('Map[Str,Tuple[Ref:Task,Ref:Key]]')),
                     z3.StringSort(), z3.BoolSort(), zsort(REQ))
    w.mk_req = mk_req

    def m_request(I, me):
        '''contract of Use._request (assumption: identifies the request)'''
        g = lambda f: I.getfield(me, f).t      # noqa
        return SV(REQ, mk_req(g('wrapped'), g('inj_args'), g('inj_kwargs'), g('deps_type'), g('serialize')))
    w.class_models['Use'].m__request = lambda I, me: m_request(I, me)
    w.globals['req_of_use'] = lambda I, me: m_request(I, me)
    w.globals['chain'] = lambda I, *parts: I.world.lib.b_chain(I, *parts)
    w.globals['itertools'] = SNamespace('itertools', {'chain': lambda I, *parts: I.world.lib.b_chain(I, *parts)})
    w.globals['Path'] = SClass('Path')
    w.globals['PythonTask'] = SClass('PythonTask')
    names_fn = th.func('joined_sorted_names', zsort(T('Set', TASK)), z3.StringSort())

    def join_names(I, sep, gen):
        raise Undecided('join')
    # ','.join(sorted(dep.name for dep in deps)): an uninterpreted function of the set of dependencies
    lib_method = w.lib.method

    def method(I, recv, name, args, kwargs, node):
        if recv == ',' and name == 'join':
            deps = I.current_deps
            return SV(STR, names_fn(deps.t))
        return lib_method(I, recv, name, args, kwargs, node)
    w.lib.method = method
    lib_sorted = w.lib.b_sorted
    w.lib.b_sorted = lambda I, xs, **kw: xs if not isinstance(xs, (list, tuple, SV)) else lib_sorted(I, xs, **kw)

    def new_pytask(I, args, kwargs):
        '''contract of PythonTask(name, func, deps=, soft_deps=, ...): a new task with that name and those dependencies; ghost: it is built for the
        request of the Use object whose get_task is running'''
        t = I.fresh(TASK, 'new_task')
        name = args[0] if isinstance(args[0], SV) else lift(args[0])
        I.path.assume(name_of(t.t) == name.t)
        I.path.assume(request_of(t.t) == I.present_request.t)
        d, s = kwargs.get('deps'), kwargs.get('soft_deps')
        d = d if isinstance(d, SV) else lift(d, T('Set', TASK))
        s = s if isinstance(s, SV) else lift(s, T('Set', TASK))
        I.path.assume(hard_of(t.t) == d.t)
        I.path.assume(soft_of(t.t) == s.t)
        I.created = t
        return t
    w.construct_hooks['PythonTask'] = new_pytask
    w.globals['Keys'] = SV(T('Set', T('Ref', 'Key')), z3.K(zsort(T('Ref', 'Key')), z3.BoolVal(True)))
    w.globals['Strings'] = SV(T('Set', STR), z3.K(z3.StringSort(), z3.BoolVal(True)))
    w.globals['Tasks'] = SV(T('Set', TASK), z3.K(zsort(TASK), z3.BoolVal(True)))
    return w


def parse(s):
    from pyvc.values import parse_type
    return parse_type(s)


CACHE_T = 'Map[Str,Tuple[Ref:Task,Ref:Req]]'
CACHE_INV = 'all(implies(n in {c}, request_of({c}[n][0]) is {c}[n][1] and {c}[n][0].name == n) for n in Strings)'
INJECTED = ('all((t in {s}) == (any(self.inj_args[i][0] is t for i in range(len(self.inj_args))) or '
            'any(self.inj_kwargs[k][0] is t for k in self.inj_kwargs)) for t in Tasks)')


def c_get_task():
    return Contract(
        USEF, 'Use.get_task', params={'self': 'Obj:Use'}, returns='Ref:Task',
        requires=[CACHE_INV.format(c='self._CACHE'), "self.deps_type == 'hard' or self.deps_type == 'soft'"],
        ensures=[('C15-the-task-was-built-for-exactly-this-request', 'request_of(result) is req_of_use(self)'),
                 ('cache-invariant-preserved', CACHE_INV.format(c='self._CACHE')),
                 ('C15-identical-request-hits-the-cache', 'implies(self._USE_CACHING and result.name in old(self._CACHE) and old(self._CACHE)[result.name][1] is req_of_use(self), '
                                                          'result is old(self._CACHE)[result.name][0])'),
                 ('C15-hard-injection-gives-hard-dependencies', "implies(result.name not in old(self._CACHE) and self.deps_type == 'hard', " + INJECTED.format(s='hard_of(result)')
                  + ' and not any(t in soft_of(result) for t in Tasks))'),
                 ('C15-soft-injection-gives-soft-dependencies', "implies(result.name not in old(self._CACHE) and self.deps_type == 'soft', " + INJECTED.format(s='soft_of(result)')
                  + ' and not any(t in hard_of(result) for t in Tasks))'),
                 ('earlier-tasks-keep-their-cache-entries', 'all(implies(n in old(self._CACHE) and n != result.name, n in self._CACHE and same(self._CACHE[n], old(self._CACHE)[n])) for n in Strings)')],
        signals={})


def get_task_setup(I, scope):
    me = scope.lookup('self')
    cache = I.fresh(parse(CACHE_T), 'cache')
    I.setfield(me, '_CACHE', cache)
    I.present_request = I.world.class_models['Use'].m__request(I, me)
    I.created = None
    I.current_deps = None

    def stmt_hook(I2, st, sc):
        # `deps` as computed by the function, for the abstraction of the joined names
        if isinstance(st, ast.If) and isinstance(st.test, ast.Name) and st.test.id == 'deps':
            I2.current_deps = sc.lookup('deps')
    I.hooks['stmt'] = stmt_hook


# ---------------------------------------------------------------------------------------
# Use.from_func: decorating a wrapper extends a COPY of its injections
ARGS_T = 'Seq[Tuple[Ref:Task,Ref:Key]]'
KW_T = 'Map[Str,Tuple[Ref:Task,Ref:Key]]'


def from_func_world():
    w = use_world()

    def new_use(I, args, kwargs):
        '''assumed contract of Use.__init__: stores the given containers (copies of them do not change what they hold)'''
        g = lambda k, d=None: kwargs.get(k, d)      # noqa
        ia, ik = g('inj_args'), g('inj_kwargs')
        o = I.alloc('Use', {'inj_args': ia, 'inj_kwargs': ik, 'wrapped': g('wrapped'), 'deps_type': g('deps_type'), 'serialize': g('serialize'),
                            'func_name': I.fresh(STR, 'func_name'), '_USE_CACHING': True})
        return o
    w.construct_hooks['Use'] = new_use

    def isinstance_hook(I, x, cls):
        if isinstance(x, SV) and x.typ == T('Ref', 'Func'):
            return False          # a free function is not a Use object
        return NotImplemented
    w.isinstance_hook = isinstance_hook
    return w


def c_from_func(decorating, keyword):
    params = {'cls': 'Class:Use', 'func': 'Obj:Use' if decorating else 'Ref:Func', 'task': 'Ref:Task', 'key': 'Ref:Key', 'kwarg': 'Str' if keyword else 'None',
              'deps_type': 'Str', 'serialize': 'Bool'}
    base_args = 'old(func.inj_args)' if decorating else 'EMPTY_ARGS'
    base_kw = 'old(func.inj_kwargs)' if decorating else 'EMPTY_KW'
    ens = []
    if keyword:
        ens += [('C15-positional-injections-inherited', f'same_content(result.inj_args, {base_args})'),
                ('C15-the-keyword-injection-is-added', f'all((k in result.inj_kwargs) == (k in {base_kw} or k == kwarg) for k in Strings) and same(result.inj_kwargs[kwarg][0], task) '
                 f'and same(result.inj_kwargs[kwarg][1], key)' + (f' and all(implies(k in {base_kw} and k != kwarg, same(result.inj_kwargs[k], {base_kw}[k])) for k in Strings)'
                                                                   if decorating else ''))]      # (free function: no other key exists, by the first conjunct)
    else:
        ens += [('C15-the-positional-injection-is-appended', f'len(result.inj_args) == len({base_args}) + 1 and same(result.inj_args[len({base_args})][0], task) and '
                 f'same(result.inj_args[len({base_args})][1], key) and all(same(result.inj_args[j], {base_args}[j]) for j in range(len({base_args})))'),
                ('C15-keyword-injections-inherited', f'same_content(result.inj_kwargs, {base_kw})')]
    ens.append(('C15-wraps-what-was-asked', 'result.wrapped is func and same(result.deps_type, deps_type)'))
    if decorating:
        ens.append(('C15-the-decorated-wrapper-is-not-modified', 'same_content(func.inj_args, old(func.inj_args)) and same_content(func.inj_kwargs, old(func.inj_kwargs))'))
    return Contract(USEF, 'Use.from_func', params=params, ensures=ens, signals={},
                    variant=('decorating-a-wrapper' if decorating else 'free-function') + ('-keyword' if keyword else '-positional'))


def from_func_setup(I, scope):
    from pyvc.values import parse_type
    scope.set('EMPTY_ARGS', I.world.lib.empty_of(I, parse_type(ARGS_T)))
    scope.set('EMPTY_KW', I.world.lib.empty_of(I, parse_type(KW_T)))


# ---------------------------------------------------------------------------------------
# collect_tasks: names are checked on the CLOSED list of tasks
def c_collect():
    return Contract(COMMONF, 'collect_tasks', params={'job_file': 'Str', 'job_args': 'None', 'job_kwargs': 'None'}, signals={'ValueError': True})


def collect_world():
    w = World()
    w.globals['LOGGER'] = SNamespace('LOGGER', dropped=True)

    def run_job(I, *a):
        I.trace.append(('run_job',))
        I.job_tasks = I.fresh(parse('Seq[Ref:Task]'), 'job_tasks')
        return I.job_tasks

    def close(I, tasks):
        I.trace.append(('close', tasks))
        I.closed = I.fresh(parse('Seq[Ref:Task]'), 'closed_tasks')
        return I.closed

    def check(I, tasks):
        I.trace.append(('check', tasks))
        if I.path.cond(z3.Bool(I.path.name('duplicate_names'))):
            I.raise_('ValueError')
        return None
    w.globals.update({'run_job': run_job, 'close_dependency_graph': close, 'check_unique_task_names': check})
    return w


def collect_setup(I, scope):
    I.trace = []
    I.closed = None
    I.job_tasks = None


def collect_check(I, scope, outcome):
    p = I.path
    L = f'{COMMONF}::collect_tasks'
    closes = [e for e in I.trace if e[0] == 'close']
    checks = [e for e in I.trace if e[0] == 'check']
    p.oblige(f'{L}::post::C15-the-job-tasks-are-closed-under-dependencies-once', len(closes) == 1 and closes[0][1] is I.job_tasks, kind='post',
             meta={'expr': 'close_dependency_graph(tasks returned by job()) exactly once'})
    p.oblige(f'{L}::post::C15-names-are-checked-on-the-closed-list', len(checks) == 1 and I.closed is not None and checks[0][1] is I.closed, kind='post',
             meta={'expr': 'check_unique_task_names receives the closed list (transitive dependencies included)'})
    if outcome[0] == 'return':
        p.oblige(f'{L}::post::C15-returns-the-closed-list', outcome[1] is I.closed, kind='post', meta={'expr': 'the collected tasks are the closed list'})


# ---------------------------------------------------------------------------------------
# RunTaskFactory.make : cache logic
class FactoryModel(ClassModel):
    name = 'RunTaskFactory'
    fields = {'name': 'Str', 'deps': 'Seq[Ref:Task]', 'soft_deps': 'Seq[Ref:Task]', 'kwargs': 'Map[Str,Ref:Val]'}


def factory_world():
    w = World()
    w.globals['LOGGER'] = SNamespace('LOGGER', dropped=True)
    w.class_models['RunTaskFactory'] = FactoryModel(w)
    w.ref_attrs['Task'] = {'name': 'Str'}
    request_of = th.func('request_of_task', zsort(TASK), zsort(REQ))
    name_of = th.func('Task.name', zsort(TASK), z3.StringSort())
    w.globals['request_of'] = lambda I, t: SV(REQ, request_of(t.t))
    ARGS, KW, IDS = parse('Seq[Ref:Val]'), parse('Map[Str,Ref:Val]'), parse('Seq[Int]')
    mk_req = th.func('mk_factory_req', zsort(ARGS), zsort(KW), zsort(KW), zsort(IDS), zsort(IDS), zsort(REQ))
    w.mk_req = mk_req
    w.globals['Strings'] = SV(T('Set', STR), z3.K(z3.StringSort(), z3.BoolVal(True)))
    hashf = th.func('det_hash_str', z3.StringSort(), zsort(ARGS), zsort(KW), z3.StringSort())
    w.globals['det_hash'] = lambda I, name, extra, kw: SV(STR, hashf(name.t, extra.t, kw.t))
    lib_str = w.lib.b_str
    w.lib.b_str = lambda I, x='': x if isinstance(x, SV) and x.typ.kind == 'Str' else lib_str(I, x)
    w.globals['RunTask'] = SClass('RunTask')

    def new_runtask(I, args, kwargs):
        t = I.fresh(TASK, 'new_task')
        name = args[0] if isinstance(args[0], SV) else lift(args[0])
        I.path.assume(name_of(t.t) == name.t)
        I.path.assume(request_of(t.t) == I.present_request.t)
        I.created = (t, args, kwargs)
        return t
    w.construct_hooks['RunTask'] = new_runtask
    idf = th.func('id_Task', zsort(TASK), z3.IntSort())
    w.idf = idf
    lib_b_id = w.lib.b_id
    w.lib.b_id = lambda I, x: SV(INT, idf(x.t)) if isinstance(x, SV) and x.typ == TASK else lib_b_id(I, x)
    return w


FCACHE_T = 'Map[Str,Tuple[Ref:Task,Ref:Req]]'


def c_make(named):
    return Contract(
        RUNF, 'RunTaskFactory.make',
        params={'self': 'Obj:RunTaskFactory', 'name': 'Str' if named else 'None', 'extra_args': 'Seq[Ref:Val]', 'subprocess_args': 'Map[Str,Ref:Val]',
                'deps': 'Seq[Ref:Task]', 'soft_deps': 'Seq[Ref:Task]', 'kwargs': 'Map[Str,Ref:Val]'},
        returns='Ref:Task',
        requires=[CACHE_INV.format(c='self.cache')],
        ensures=[('C15-the-task-was-built-for-exactly-this-request', 'request_of(result) is present_request'),
                 ('cache-invariant-preserved', CACHE_INV.format(c='self.cache')),
                 ('C15-identical-request-hits-the-cache', 'implies(result.name in old(self.cache) and old(self.cache)[result.name][1] is present_request, '
                                                          'result is old(self.cache)[result.name][0])'),
                 ('C15-a-request-leaves-the-dependencies-of-the-factory-and-of-the-caller-alone',
                  'same_content(self.deps, old(self.deps)) and same_content(self.soft_deps, old(self.soft_deps)) and same_content(deps, old(deps)) and same_content(soft_deps, old(soft_deps))')],
        signals={}, variant='explicit-name' if named else 'generated-name')


def make_setup(I, scope):
    me = scope.lookup('self')
    I.setfield(me, 'cache', I.fresh(parse(FCACHE_T), 'cache'))
    I.created = None
    w = I.world
    I.setfield(me, 'make_closure', lambda I2, extra, **kw: I2.alloc('Closure', {}))
    scope.set('present_request', None)

    def after(I2, st, sc):
        # request = (extra_args, kwargs_, subprocess_args, [id(t) for t in deps], [id(t) for t in soft_deps]) is abstracted by the injective
        # constructor mk_factory_req of its five components (assumption: Python equality of the tuples == equality of the abstract requests)
        if isinstance(st, ast.Assign) and isinstance(st.targets[0], ast.Name) and st.targets[0].id == 'request':
            v = sc.lookup('request')
            if not (isinstance(v, tuple) and len(v) == 5 and all(isinstance(x, SV) for x in v)):
                raise Undecided('the request tuple of RunTaskFactory.make changed shape')
            r = SV(REQ, w.mk_req(*[x.t for x in v]))
            sc.set('request', r)
            sc.set('present_request', r)
            I2.present_request = r
    I.hooks['after-stmt'] = after


def units(tier):
    return ['close_dependency_graph', 'check_unique_task_names', 'collect_tasks', 'from_func', 'get_task', 'make_named', 'make_generated', 'native_use', 'native_factory', 'native_collect']


def _replay_native(name, inp):
    for f in (tn.sweep_use, tn.sweep_factory, tn.collect_cases):
        out = f('quick', 0)
        if out['failures']:
            fl = out['failures'][0]
            return {'reproduced': True, 'observed': fl['observed'], 'input_found': fl['input'], 'by': out['name']}
    return {'reproduced': False, 'note': 'native sweeps found no failing input'}


def run_unit(unit, tier, seed, known):
    import logging
    import warnings
    logging.disable(logging.CRITICAL)
    warnings.filterwarnings('ignore')
    if unit == 'native_use':
        return {'bounded': [tn.sweep_use(tier, seed)]}
    if unit == 'native_factory':
        return {'bounded': [tn.sweep_factory(tier, seed)]}
    if unit == 'native_collect':
        return {'bounded': [tn.collect_cases(tier, seed)]}
    if unit == 'close_dependency_graph':
        w = graph_world()
        res = verify_function(w, c_close())
    elif unit == 'check_unique_task_names':
        w = graph_world()
        w.globals['Strings'] = SV(T('Set', STR), z3.K(z3.StringSort(), z3.BoolVal(True)))
        res = verify_function(w, c_unique())
    elif unit == 'collect_tasks':
        res = verify_function(collect_world(), c_collect(), setup=collect_setup, extra_check=collect_check)
    elif unit == 'from_func':
        out = []
        for dec in (True, False):
            for kw in (True, False):
                w = from_func_world()
                out.append(prop.discharge(verify_function(w, c_from_func(dec, kw), setup=from_func_setup), tier, ID, lambda m, r: {'note': 'see model text'}, _replay_native))
        return {'functions': out}
    elif unit in ('make_named', 'make_generated'):
        w = factory_world()
        res = verify_function(w, c_make(unit == 'make_named'), setup=make_setup)
    elif unit == 'get_task':
        w = use_world()
        res = verify_function(w, c_get_task(), setup=get_task_setup)
    else:
        raise KeyError(unit)
    return {'functions': [prop.discharge(res, tier, ID, lambda m, r: {'note': 'see model text'}, _replay_native)]}


def replay(name, inp):
    return _replay_native(name or '', inp)
