'''Native bounded stand-in for C12 (labelled bounded): failure marks, detailed rows, reStructuredText read-back, slicing / joining.'''
import itertools
import re

KINDS = ('equal', 'approx', 'student', 'student2', 'bonferroni', 'holm', 'metadata', 'failed', 'stats_tasks', 'stats_tests', 'stats_by_labels')


def mark(templates):
    import numpy as np
    from valjean.javert.templates import TableTemplate, TextTemplate
    m = False
    for t in templates or []:
        if isinstance(t, TextTemplate):
            m = m or (':hl:`' in t.text)
        elif isinstance(t, TableTemplate):
            m = m or any(bool(np.any(h)) for h in t.highlights)
    return m


def parse_rst_table(text):
    '''cells of the first table of an rst fragment, via docutils; returns (rows, errors)'''
    import docutils.core
    import docutils.nodes
    import docutils.utils
    import io
    err = io.StringIO()
    doc = docutils.core.publish_doctree(text, settings_overrides={'report_level': 2, 'halt_level': 5, 'warning_stream': err})
    msgs = [m.astext() for m in doc.traverse(docutils.nodes.system_message)]
    rows = []
    for table in doc.traverse(docutils.nodes.table):
        for row in table.traverse(docutils.nodes.row):
            rows.append([(entry.astext(), bool(list(entry.traverse(docutils.nodes.inline)))) for entry in row.traverse(docutils.nodes.entry)])
        break
    return rows, msgs


def _fmt(raw):
    import numpy as np
    return ('{:11.6g}'.format(raw) if isinstance(raw, (float, np.floating)) else str(raw)).strip()


def expected_rows(t):
    '''the rows a table template asks for: cell texts and highlight flags, row i = element i (logical, C order) of every column'''
    import numpy as np
    n = int(np.size(t.columns[0]))
    cols = [np.ravel(np.asarray(c), order='C') for c in t.columns]
    hls = [np.ravel(np.asarray(h), order='C') for h in t.highlights]
    if any(c.size != n for c in cols) or any(h.size != n for h in hls):
        return None, f'columns of {[c.size for c in cols]} cells and highlight columns of {[h.size for h in hls]} entries'
    return [tuple((_fmt(c[i]), bool(h[i])) for c, h in zip(cols, hls)) for i in range(n)], None


def check_table_readback(t, label, ordered=False):
    '''the rendered table is valid rst; its rows are the rows asked for (cell text of the formatted input, highlighted exactly where asked).  Rows are compared as
    a multiset unless `ordered`: the order in which an N-d column is unrolled is not part of the property, the pairing of the cells of a row is'''
    import collections
    from valjean.javert.rst import RstTable
    probs = []
    try:
        text = str(RstTable(t))
    except Exception as e:      # noqa
        return [f'{label}: formatting the table raised {e!r}']
    rows, msgs = parse_rst_table(text)
    if msgs:
        probs.append(f'{label}: docutils reports {msgs[:2]}')
    want, err = expected_rows(t)
    if want is None:
        return probs + [f'{label}: the template is not rectangular: {err}']
    body = [tuple((c.strip(), h) for c, h in r) for r in (rows[1:] if rows else [])]
    ncols = len(t.columns)
    if len(body) != len(want) or any(len(r) != ncols for r in body):
        probs.append(f'{label}: the rendered table has {len(body)} rows of {[len(r) for r in body][:3]} cells, expected {len(want)} x {ncols}')
        return probs
    if ordered:
        for i, (g, w) in enumerate(zip(body, want)):
            if g != w:
                probs.append(f'{label}: row {i} reads {g}, asked {w}')
                break
    else:
        cg, cw = collections.Counter(body), collections.Counter(want)
        if cg != cw:
            extra = list((cg - cw).elements())[:2]
            missing = list((cw - cg).elements())[:2]
            probs.append(f'{label}: rendered rows {extra} were not asked for; rows asked for and not rendered: {missing} (cells of different rows paired, or a highlight on the wrong row)')
    return probs


def verdict_rows_check(t, label, verdict_col=-1):
    '''in a detailed comparison table the highlighted rows are exactly those whose verdict cell reads False'''
    from valjean.javert.rst import RstTable
    rows, _ = parse_rst_table(str(RstTable(t)))
    probs = []
    for i, r in enumerate(rows[1:] if rows else []):
        txt, hl = r[verdict_col]
        if txt.strip() in ('True', 'False') and hl != (txt.strip() == 'False'):
            probs.append(f'{label}: row {i} {[c for c, _ in r]} has verdict {txt.strip()} and highlight {hl}')
    return probs[:2]


def sweep(tier, seed):
    import warnings
    import numpy as np
    from valjean.javert.representation import TableRepresenter, FullTableRepresenter, Representation
    from valjean.javert.verbosity import Verbosity
    from valjean.javert.templates import TableTemplate, TextTemplate
    from . import results_native as rn
    warnings.filterwarnings('ignore')
    fails, n = [], 0
    known_seen = []
    pats = [(0, 0, 0), (1, 0, 0), (0, 1, 1), (1, 1, 1), (0, 0, 1), (1, 0, 1)] if tier != 'quick' else None
    for kind, label, res in rn.make_results(pats):
        if kind not in KINDS:
            continue
        for rep in (TableRepresenter, FullTableRepresenter):
            for v in Verbosity:
                if v == Verbosity.SILENT:
                    continue
                n += 1
                inp = {'result': kind, 'pattern': label, 'representer': rep.__name__, 'verbosity': v.name}
                try:
                    ts = Representation(rep(), verbosity=v)(res)
                except Exception as e:      # noqa
                    fails.append({'input': inp, 'observed': f'representation raised {e!r}', 'expected': 'templates'})
                    continue
                m, ok = mark(ts), bool(res)
                if m != (not ok):
                    if rep is FullTableRepresenter and kind in ('bonferroni', 'holm') and ok and m:
                        known_seen.append(inp)      # the full representer appends the (failing) underlying test to a passing corrected result
                    else:
                        fails.append({'input': inp, 'observed': f'mark = {m} but the result is {ok} ({len(ts or [])} templates)', 'expected': 'a highlight / KO mark exactly for a false result'})
                for k, t in enumerate(ts or []):
                    if isinstance(t, TableTemplate):
                        probs = check_table_readback(t, f'table {k}')
                        if probs:
                            fails.append({'input': inp, 'observed': probs[:3], 'expected': 'valid reStructuredText whose cells read back'})
                # detailed tables: the highlighted rows are exactly the failing bins, with the values of those bins
                probs = detail_check(kind, res, ts, v)
                if probs:
                    fails.append({'input': inp, 'observed': probs[:3], 'expected': 'highlighted rows == failing bins, shown with their own values'})
        if len(fails) >= 10:
            break
    # slicing and joining keep columns and highlights aligned
    for size in (3, 4):
        for hl_pattern in itertools.product((False, True), repeat=size):
            n += 1
            col = np.arange(size, dtype=float) * 1.5
            lab = np.array([f'r{i}' for i in range(size)])
            hl = np.array(hl_pattern)
            falses = np.zeros(size, dtype=bool)
            t = TableTemplate(lab, col, headers=['label', 'value'], highlights=[falses, hl])
            for sl in (slice(1, None), slice(None, 2), slice(1, 3), slice(2, None)):
                s = t[sl]
                probs = check_table_readback(s, f'sliced [{sl.start}:{sl.stop}]')
                want = hl[sl]
                got = np.ravel(s.highlights[1])
                if np.size(got) != np.size(want) or (got != want).any():
                    probs.append(f'sliced [{sl.start}:{sl.stop}]: highlights {got.tolist()} for rows whose highlights are {want.tolist()}')
                if probs:
                    fails.append({'input': {'table_rows': size, 'highlights': list(map(bool, hl_pattern)), 'slice': [sl.start, sl.stop]}, 'observed': probs[:3],
                                  'expected': 'a sliced table keeps the highlights of the rows it keeps'})
                    break
            j = t.copy()
            j.join(t[slice(0, 2)] if True else t)
            probs = check_table_readback(j, 'joined')
            if probs:
                fails.append({'input': {'table_rows': size, 'highlights': list(map(bool, hl_pattern)), 'join': True}, 'observed': probs[:3], 'expected': 'joined tables stay aligned'})
        if len(fails) >= 10:
            break
    n3, fails3 = metadata_cells_sweep()
    n += n3
    fails.extend(fails3)
    n2, fails2 = shapes_sweep(tier)
    n += n2
    fails.extend(fails2)
    return {'name': 'failure-marks-native', 'evaluations': n, 'distinct': n, 'failures': fails[:10], 'exhaustive': False, 'known_seen_inputs': known_seen[:3],
            'bound': 'every result kind with a built-in representation (equal, approx, student x2, bonferroni, holm over 4 (thorough: 6) failing-bin patterns + a one-sided NaN; '
                     'metadata; failed; task / test / by-label statistics) x {TableRepresenter, FullTableRepresenter} x 5 non-silent verbosities: mark <=> failure, docutils read-back '
                     'of every table, detailed rows; 2-column tables of 3-4 rows with every highlight pattern: 4 slices and one join; '
                     'detailed metadata tables cell by cell (4 sample sets with names not in alphabetical order); 2 x 3 datasets (float, and integers beyond 10^6) in C and Fortran memory order, 4 failing-bin patterns: equal / approx-equal / Student detailed tables rendered, '
                     'copied, sliced, joined and joined-then-sliced (5 sequences): rows read back with the cells of one bin together and the highlight on the failing bins',
            'samples': [{'result': 'stats_tasks', 'pattern': 'FAILED/SKIPPED', 'representer': 'TableRepresenter', 'verbosity': 'DEFAULT'}]}


def metadata_cells_sweep():
    '''detailed metadata tables: the cell under the header of a sample holds THAT sample's value for the key of the row; a row carries a highlight iff the samples disagree,
    and cells showing the same value are highlighted alike (sample names deliberately not in alphabetical order)'''
    import itertools as it
    from valjean.gavroche.diagnostics.metadata import TestMetadata
    from valjean.javert.representation import TableRepresenter, FullTableRepresenter, Representation
    from valjean.javert.verbosity import Verbosity
    from valjean.javert.templates import TableTemplate
    from valjean.javert.rst import RstTable
    fails, n = [], 0
    samples_sets = [
        {'zeta': {'code': 'T4', 'v': 1, 'w': 3}, 'alpha': {'code': 'T4', 'v': 2, 'w': 3}},
        {'zeta': {'code': 'T4', 'v': 1, 'w': 3}, 'alpha': {'code': 'T4', 'v': 2, 'w': 3}, 'mid': {'code': 'A3', 'v': 1}},
        {'b': {'k': 'x'}, 'a': {'k': 'x'}, 'c': {'k': 'y'}},
        {'m2': {'k': 1, 'l': 2}, 'm1': {'k': 1, 'l': 2}},
    ]
    for dmd in samples_sets:
        res = TestMetadata(dmd, name='md').evaluate()
        for rep in (TableRepresenter, FullTableRepresenter):
            for v in (Verbosity.INTERMEDIATE, Verbosity.FULL_DETAILS, Verbosity.DEVELOPMENT):
                n += 1
                inp = {'metadata_samples': {k: dict(x) for k, x in dmd.items()}, 'representer': rep.__name__, 'verbosity': v.name}
                ts = Representation(rep(), verbosity=v)(res)
                for t in [t for t in (ts or []) if isinstance(t, TableTemplate)]:
                    rows, msgs = parse_rst_table(str(RstTable(t)))
                    if not rows:
                        continue
                    header = [c.strip() for c, _ in rows[0]] if rows else []
                    if not set(dmd) <= set(header):
                        continue          # not the per-sample table
                    probs = []
                    for r in rows[1:]:
                        key = r[0][0].strip()
                        cells = {h: r[j] for j, h in enumerate(header) if h in dmd}
                        for sname, (txt, hl) in cells.items():
                            want = str(dmd[sname].get(key, 'MISSING'))
                            if txt.strip() != want:
                                probs.append(f'row {key!r}: the cell under {sname!r} reads {txt.strip()!r}, that sample has {want!r}')
                        vals = [c[0].strip() for c in cells.values()]
                        any_hl = any(c[1] for c in cells.values())
                        if any_hl != (len(set(vals)) > 1):
                            probs.append(f'row {key!r}: highlight {any_hl} while the samples show {vals}')
                        for a, b in it.combinations(cells.values(), 2):
                            if a[0].strip() == b[0].strip() and a[1] != b[1]:
                                probs.append(f'row {key!r}: two samples show {a[0].strip()!r}, only one of them is highlighted')
                                break
                    if probs:
                        fails.append({'input': inp, 'observed': probs[:3], 'expected': 'every cell under its own sample, highlights on the samples that disagree'})
    return n, fails


def shapes_sweep(tier):
    '''2-d datasets in C and Fortran memory order, float and large-integer values: detailed tables, then copy / slice / join'''
    import numpy as np
    from collections import OrderedDict
    from valjean.eponine.dataset import Dataset
    from valjean.gavroche.test import TestEqual, TestApproxEqual
    from valjean.gavroche.stat_tests.student import TestStudent
    from valjean.javert.representation import FullTableRepresenter, TableRepresenter, Representation
    from valjean.javert.verbosity import Verbosity
    from valjean.javert.templates import TableTemplate, join
    fails, n = [], 0
    pats = [((1, 0),), ((0, 2), (1, 0)), (), ((0, 0), (0, 1), (0, 2), (1, 0), (1, 1), (1, 2))]
    for dtype in ('float', 'int'):
        for order in ('C', 'F'):
            for pat in pats:
                base = (np.arange(6).reshape(2, 3) + 1) * (1.5 if dtype == 'float' else 1000001)
                base = base.astype(float if dtype == 'float' else np.int64)
                oth = base.copy()
                for ij in pat:
                    oth[ij] += 3
                a, b = (np.asfortranarray(base), np.asfortranarray(oth)) if order == 'F' else (base, oth)
                err = np.full(a.shape, 0.01, order=order)
                bins = OrderedDict([('x', np.arange(3.)), ('y', np.arange(4.))])
                ref, other = Dataset(a, err, bins=bins, name='ref'), Dataset(b, err.copy(order=order), bins=bins, name='oth')
                kinds = [('equal', TestEqual)] + ([('approx', TestApproxEqual), ('student', TestStudent)] if dtype == 'float' else [])
                for kind, cls in kinds:
                    res = cls(ref, other, name=f'{kind}-2d').evaluate()
                    for rep in (TableRepresenter, FullTableRepresenter):
                        for v in (Verbosity.DEFAULT, Verbosity.INTERMEDIATE, Verbosity.FULL_DETAILS):
                            n += 1
                            inp = {'result': kind, 'shape': [2, 3], 'dtype': dtype, 'memory_order': order, 'failing_bins': [list(x) for x in pat],
                                   'representer': rep.__name__, 'verbosity': v.name}
                            try:
                                ts = Representation(rep(), verbosity=v)(res)
                            except Exception as e:      # noqa
                                fails.append({'input': inp, 'observed': f'representation raised {e!r}', 'expected': 'templates'})
                                continue
                            if mark(ts) != (not bool(res)):
                                fails.append({'input': inp, 'observed': f'mark = {mark(ts)} but the result is {bool(res)}', 'expected': 'a mark exactly for a false result'})
                            for k, t in enumerate(ts or []):
                                if not isinstance(t, TableTemplate):
                                    continue
                                nrows = int(np.size(t.columns[0]))
                                variants = [('rendered', t)]
                                try:
                                    variants.append(('copied', t.copy()))
                                    if nrows >= 2:
                                        variants.append(('sliced', t[slice(1, None)]))
                                    joined = join(t, t.copy())
                                    variants.append(('joined', joined))
                                    # sequences of operations: the alignment must survive them
                                    if nrows >= 2:
                                        variants.append(('joined then sliced [1:]', joined[slice(1, None)]))
                                        variants.append(('joined then sliced [::2]', joined[slice(None, None, 2)]))
                                        variants.append(('joined then sliced [:2]', joined[slice(None, 2)]))
                                        variants.append(('sliced [1:] then joined', join(t[slice(1, None)], t[slice(None, 1)])))
                                        variants.append(('joined then copied then sliced', joined.copy()[slice(1, None)]))
                                except Exception as e:      # noqa
                                    fails.append({'input': inp, 'observed': f'copy / slice / join raised {e!r}', 'expected': 'a table'})
                                for what, tv in variants:
                                    probs = check_table_readback(tv, f'table {k} {what}') + (verdict_rows_check(tv, f'table {k} {what}') if kind in ('equal', 'approx') else [])
                                    if probs:
                                        fails.append({'input': dict(inp, table=what), 'observed': probs[:3],
                                                      'expected': 'rows read back as asked; highlighted rows are those whose verdict reads False'})
    return n, fails


def detail_check(kind, res, ts, v):
    import numpy as np
    from valjean.javert.templates import TableTemplate
    probs = []
    tables = [t for t in (ts or []) if isinstance(t, TableTemplate)]
    if kind in ('equal', 'approx') and tables:
        t = tables[0]
        flags = res.equal if kind == 'equal' else res.approx_equal
        ok = np.ravel(flags[0])
        ref = np.ravel(res.test.dsref.value)
        oth = np.ravel(res.test.datasets[0].value)
        n = np.size(t.columns[0])
        if n == ok.size:
            hl_rows = set()
            for h in t.highlights:
                hl_rows |= {i for i in range(n) if bool(np.ravel(h)[i])}
            if hl_rows != {i for i in range(n) if not ok[i]}:
                probs.append(f'highlighted rows {sorted(hl_rows)} != failing bins {[i for i in range(n) if not ok[i]]}')
            cols = [np.ravel(c) for c in t.columns]
            if not any(np.array_equal(c, ref, equal_nan=True) for c in cols if c.dtype.kind == 'f') or not any(np.array_equal(c, oth, equal_nan=True) for c in cols if c.dtype.kind == 'f'):
                probs.append('the table does not show the values of the compared datasets bin by bin')
    if kind == 'student' and tables and v.name == 'INTERMEDIATE':
        # only the failing bins are listed, with their own values
        t = tables[0]
        ok = np.ravel(res.oracles()[0])
        ref = np.ravel(res.test.dsref.value)
        failing = [i for i in range(ok.size) if not ok[i]]
        cols = [np.ravel(c) for c in t.columns if np.ravel(c).dtype.kind == 'f']
        if failing and not any(np.size(c) == len(failing) and np.array_equal(c, ref[failing], equal_nan=True) for c in cols):
            probs.append(f'the intermediate table does not list the reference values of exactly the failing bins {failing}')
    return probs


def replay(inp):
    out = sweep('quick', 0)
    return {'reproduced': bool(out['failures']), 'observed': out['failures'][:1]}
