'''Native bounded stand-in for C11 (labelled bounded): real listings cut at byte offsets, parsed with the real Parser.

Oracle (from the property text): for every prefix, Parser(path) / parse_from_number either raise ParserException or succeed -- no other
exception, no hang (time limit); when an edition parses, its results are those of the same edition of the complete listing.'''
import glob
import os
import random
import signal
import sys
import shutil
import tempfile

MARKERS = ('BATCH', 'number of tasks is', 'PACKET_LENGTH', 'initialization time', 'Edition after batch number', 'number of batches used',
           'batch number :', 'number of batch', 'simulation time', 'exploitation time', 'elapsed time', 'RESULTS ARE GIVEN', 'PARTIAL EDITION',
           'NORMAL COMPLETION', 'Type and parameters of random generator')
PER_PARSE_SECONDS = 60


class Hang(Exception):
    pass


def _alarm(signum, frame):
    raise Hang()


def repo_root():
    return os.environ.get('REPO', '/repo')


def listings():
    d = os.path.join(repo_root(), 'tests', 'eponine', 'tripoli4', 'data')
    return sorted(glob.glob(os.path.join(d, '*.res*')))


def canon(x):
    '''hashable, NaN-stable image of a parse result'''
    import numpy as np
    from valjean.eponine.dataset import Dataset
    if isinstance(x, Dataset):
        return ('Dataset', canon(x.value), canon(x.error), canon(x.bins), x.name, x.what)
    if isinstance(x, np.ndarray):
        return ('nd', str(x.dtype), x.shape, x.tobytes())
    if isinstance(x, np.generic):
        return ('g', str(x.dtype), x.tobytes())
    if isinstance(x, dict):
        return ('d', tuple((repr(k), canon(v)) for k, v in x.items()))
    if isinstance(x, (list, tuple)):
        return ('l', tuple(canon(v) for v in x))
    if isinstance(x, float):
        return ('f', repr(x))
    return ('o', repr(x))


EDITION_KEYS_SKIP = ('run_data',)     # run-level data (normal end, warning counts of the whole file) are not the edition's results


# 'elapsed_time' is the wall-clock time of the run, printed by parallel jobs AFTER the block of the edition (after its end flag "simulation time"): a listing cut
# between the two lines holds the complete edition and cannot hold that time (Parser.check_times() is the API that reports it as missing).  It is not part of
# "the results of that edition" and is left out of the comparison; every other entry of batch_data, the responses and all other top-level keys are compared.
AFTER_THE_EDITION = ('elapsed_time',)


def _edition(res):
    out = {k: v for k, v in res.items() if k not in EDITION_KEYS_SKIP}
    if isinstance(out.get('batch_data'), dict):
        out['batch_data'] = {k: v for k, v in out['batch_data'].items() if k not in AFTER_THE_EDITION}
    return out


def edition_image(res):
    return canon(_edition(res))


def parse_all(path):
    '''-> ('error', None) | ('ok', {batch: (block string, image | ('error',))}) ; raises on a foreign exception'''
    from valjean.eponine.tripoli4.parse import Parser, ParserException
    try:
        p = Parser(path)
    except ParserException:
        return 'error', None, None
    out = {}
    for b in p.batch_numbers():
        out[b] = p.scan_res[b]
    return 'ok', out, p


def interpreted_offsets(data):
    '''every byte offset inside the lines the scanner interprets (and the first byte after them)'''
    offs = set()
    pos = 0
    for line in data.split(b'\n'):
        end = pos + len(line) + 1
        try:
            txt = line.decode('utf-8', errors='ignore')
        except Exception:      # noqa
            txt = ''
        if any(m in txt for m in MARKERS):
            offs.update(range(pos, min(end + 1, len(data) + 1)))
        pos = end
    return offs


def check_prefix(path_full, data, k, full, tmpdir, parse_budget):
    '''-> list of problems for the prefix data[:k]'''
    from valjean.eponine.tripoli4.parse import ParserException
    probs = []
    tmp = os.path.join(tmpdir, os.path.basename(path_full))
    with open(tmp, 'wb') as f:
        f.write(data[:k])
    signal.signal(signal.SIGALRM, _alarm)
    signal.alarm(PER_PARSE_SECONDS)
    try:
        try:
            st, blocks, p = parse_all(tmp)
        except Hang:
            return [f'scanning did not finish within {PER_PARSE_SECONDS} s']
        except Exception as e:      # noqa
            return [f'Parser(path) raised {type(e).__name__}: {e}']
        if st == 'error':
            return []
        if not blocks:
            # (the editions that exist are parsed below; asking for the last edition of a listing without any must be a parser error too)
            probs.append('Parser(path) succeeded although the listing holds no complete edition')
            try:
                p.parse_from_index(-1)
            except ParserException:
                pass
            except Hang:
                probs.append(f'parse_from_index(-1) did not finish within {PER_PARSE_SECONDS} s')
            except Exception as e:      # noqa
                probs.append(f'parse_from_index(-1) raised {type(e).__name__}: {e}')
        for b, block in blocks.items():
            same_block = full['blocks'] is not None and full['blocks'].get(b) == block
            if same_block and parse_budget[0] <= 0:
                continue
            if same_block:
                parse_budget[0] -= 1
            try:
                r = p.parse_from_number(b)
            except ParserException:
                continue
            except Hang:
                probs.append(f'parsing edition {b} did not finish within {PER_PARSE_SECONDS} s')
                continue
            except Exception as e:      # noqa
                probs.append(f'parse_from_number({b}) raised {type(e).__name__}: {e}')
                continue
            img = edition_image(r.res)
            want = full['images'].get(b)
            if want is None:
                if full['blocks'] is not None and b not in full['blocks']:
                    probs.append(f'edition {b} parses from the truncated listing but the complete listing has no such edition (it has {sorted(full["blocks"])})')
                elif full['blocks'] is None:
                    pass      # the complete listing does not parse at all: nothing to compare with
                else:
                    probs.append(f'edition {b} parses from the truncated listing but not from the complete one')
            elif img != want:
                probs.append(f'edition {b}: results differ from those of the complete listing ({_first_diff(_edition(r.res), _edition(full["res"][b]))})')
    finally:
        signal.alarm(0)
    return probs


def _first_diff(a, b, path=''):
    if isinstance(a, dict) and isinstance(b, dict):
        for k in a:
            if k in EDITION_KEYS_SKIP and not path:
                continue
            if k not in b:
                return f'{path}/{k} only in the truncated result'
            if canon(a[k]) != canon(b[k]):
                return _first_diff(a[k], b[k], f'{path}/{k}')
        for k in b:
            if k not in a and not (k in EDITION_KEYS_SKIP and not path):
                return f'{path}/{k} missing from the truncated result'
    if isinstance(a, (list, tuple)) and isinstance(b, (list, tuple)):
        if len(a) != len(b):
            return f'{path}: {len(a)} items instead of {len(b)}'
        for i, (x, y) in enumerate(zip(a, b)):
            if canon(x) != canon(y):
                return _first_diff(x, y, f'{path}[{i}]')
    return f'{path}: {str(a)[:60]!r} instead of {str(b)[:60]!r}'


def full_reference(path):
    from valjean.eponine.tripoli4.parse import ParserException
    st, blocks, p = parse_all(path)
    ref = {'blocks': blocks, 'images': {}, 'res': {}}
    if st == 'ok':
        for b in blocks:
            try:
                r = p.parse_from_number(b)
            except ParserException:
                continue
            ref['images'][b] = edition_image(r.res)
            ref['res'][b] = r.res
    return ref


def offsets_for(data, tier, rng, every_byte=False):
    n = len(data)
    if every_byte:
        return list(range(n + 1))
    offs = interpreted_offsets(data)
    nsample = 200 if tier == 'quick' else 2000
    offs.update(rng.randrange(0, n + 1) for _ in range(nsample))
    offs.update((0, 1, n - 1, n))
    return sorted(o for o in offs if 0 <= o <= n)


def sweep_file(args):
    '''worker: (path, tier, seed, lo, hi) -> (evaluations, failures) over the offsets of rank lo..hi'''
    import logging
    import warnings
    path, tier, seed, part, nparts, every = args
    logging.disable(logging.CRITICAL)
    warnings.filterwarnings('ignore')
    sys.setrecursionlimit(max(sys.getrecursionlimit(), 3000))
    data = open(path, 'rb').read()
    rng = random.Random(f'{seed}:{os.path.basename(path)}')
    offs = offsets_for(data, tier, rng, every)[part::nparts]
    full = full_reference(path)
    fails, n = [], 0
    budget = [20 if tier == 'quick' else 200]
    with tempfile.TemporaryDirectory(prefix='c11_', dir='/var/tmp') as td:
        for k in offs:
            n += 1
            probs = check_prefix(path, data, k, full, td, budget)
            if probs:
                line_start = data.rfind(b'\n', 0, k) + 1
                fails.append({'input': {'listing': os.path.relpath(path, repo_root()), 'cut_at_byte': k,
                                        'last_line_kept': data[line_start:k].decode('utf-8', errors='replace')[-120:]},
                              'observed': probs[:3], 'expected': 'ParserException, or the same results as the complete listing for that edition'})
    return n, fails


def classify(f):
    '''a stable key for a failure: what was raised and on which kind of line'''
    ob = f['observed'][0]
    line = f['input']['last_line_kept']
    marker = next((m for m in MARKERS if m in line), None)
    what = ob.split(':')[0] if 'raised' in ob else ob.split('(')[0][:60]
    return f'{what} @ {marker or "other line"}'


def free_format_copy(path, dest_dir):
    '''the same listing with the number of batches written on the line AFTER the BATCH keyword (free format of the data file echoed at the top of the listing):
    the scanner then does not know how many batches were required'''
    import re
    data = open(path, 'rb').read().decode('utf-8', errors='surrogateescape')
    new, k = re.subn(r'(?m)^([ \t]*BATCH)[ \t]+(\d+)[ \t]*$', lambda m: m.group(1) + '\n' + ' ' * len(m.group(1)) + m.group(2), data, count=1)
    if not k:
        return None
    dest = os.path.join(dest_dir, 'freeformat_' + os.path.basename(path))
    with open(dest, 'wb') as f:
        f.write(new.encode('utf-8', errors='surrogateescape'))
    return dest


def sweep(tier, seed, known=(), every_byte_for=()):
    from concurrent.futures import ProcessPoolExecutor
    files = listings()
    nparts = 4
    if tier != 'quick' and not every_byte_for:
        # thorough: EVERY byte offset of the listings below 70 kB
        every_byte_for = tuple(os.path.basename(p) for p in files if os.path.getsize(p) < 70000)
    nparts = 4 if tier == 'quick' else 16
    jobs = [(p, tier, seed, part, nparts, os.path.basename(p) in every_byte_for) for p in files for part in range(nparts)]
    derived_dir = tempfile.mkdtemp(prefix='c11d_', dir='/var/tmp')
    derived = {}
    for p in sorted(files, key=os.path.getsize):
        if len(derived) >= 2:
            break
        try:
            ok = bool(full_reference(p)['images'])
        except Exception:      # noqa
            ok = False
        d = free_format_copy(p, derived_dir) if ok else None
        if d:
            derived[d] = p
            jobs += [(d, tier, seed, part, nparts, False) for part in range(nparts)]
    n, fails = 0, []
    with ProcessPoolExecutor(max_workers=min(16, os.cpu_count() or 4)) as ex:
        for cnt, fl in ex.map(sweep_file, jobs):
            n += cnt
            fails.extend(fl)
    for f in fails:
        src = next((v for k, v in derived.items() if os.path.basename(k) == os.path.basename(f['input']['listing'])), None)
        if src:
            f['input']['listing'] = os.path.relpath(src, repo_root())
            f['input']['rewritten'] = 'the number of batches moved to the line after the BATCH keyword'
    shutil.rmtree(derived_dir, ignore_errors=True)
    # the same PATH parsed again after its content changed (a job run again in the same directory and killed): what is reported is what the file holds NOW
    import logging
    import warnings
    logging.disable(logging.CRITICAL)
    warnings.filterwarnings('ignore')
    small = []
    for p in sorted((p for p in files if os.path.getsize(p) < 600000), key=os.path.getsize):
        try:
            if full_reference(p)['images']:
                small.append(p)            # a listing with at least one edition that parses
        except Exception:      # noqa
            pass
        if len(small) >= 4:
            break
    pairs = [(small[i], small[j]) for i, j in ((1, 0), (0, 1), (2, 3))] if len(small) >= 4 else []
    for first, second in pairs:
        data2 = open(second, 'rb').read()
        full2 = full_reference(second)
        with tempfile.TemporaryDirectory(prefix='c11o_', dir='/var/tmp') as td:
            shared = os.path.join(td, os.path.basename(second))
            with open(shared, 'wb') as f:
                f.write(open(first, 'rb').read())
            try:
                parse_all(shared)
            except Exception:      # noqa
                pass
            for k in (len(data2), len(data2) // 2, 200, 0):
                n += 1
                probs = check_prefix(second, data2, k, full2, td, [5])
                if probs:
                    fails.append({'input': {'listing': os.path.relpath(second, repo_root()), 'cut_at_byte': k, 'last_line_kept': '',
                                            'same_path_parsed_before_with': os.path.relpath(first, repo_root())},
                                  'observed': probs[:3], 'expected': 'the results of the listing the path holds now (or ParserException)'})
    # one representative per class, smallest listing first
    classes = {}
    for f in sorted(fails, key=lambda f: (len(f['input']['listing']), f['input']['cut_at_byte'])):
        classes.setdefault(classify(f), []).append(f)
    reps = []
    for key, fl in sorted(classes.items()):
        r = dict(fl[0])
        r['class'] = key
        r['count_in_class'] = len(fl)
        reps.append(r)
    return {'name': 'truncated-listings-native', 'evaluations': n, 'distinct': n, 'failures': reps[:12], 'exhaustive': False, 'failure_classes': {k: len(v) for k, v in classes.items()},
            'bound': f'{len(files)} shipped listings (tests/eponine/tripoli4/data/*.res*); cuts at every byte of every line holding a scanner keyword + '
                     f'{200 if tier == "quick" else 2000} seeded random offsets per file + offsets 0, 1, n-1, n'
                     + (f'; EVERY byte offset of the {len(every_byte_for)} listings below 70 kB' if every_byte_for else '') + f'; {PER_PARSE_SECONDS} s limit per prefix; editions whose text block differs from the '
                     'complete listing are always parsed and compared, identical blocks are re-parsed for a sample; compared: every key of ParseResult.res except run_data and the elapsed_time of '
                     'parallel jobs (printed after the edition); 3 pairs of listings written one after the other at the same path (complete, half, 200 bytes, empty); 2 listings re-written with the number of batches on the line after the BATCH keyword, cut at the same kinds of offsets',
            'samples': [{'listing': 'tests/eponine/tripoli4/data/ttsSimplePacket20.d.res.ceav5', 'cut_at_byte': 1234}]}


def replay(inp):
    import logging
    import warnings
    logging.disable(logging.CRITICAL)
    warnings.filterwarnings('ignore')
    path = os.path.join(repo_root(), inp['listing'])
    with tempfile.TemporaryDirectory(prefix='c11_', dir='/var/tmp') as td:
        if inp.get('rewritten'):
            os.makedirs(os.path.join(td, 'src'))
            path = free_format_copy(path, os.path.join(td, 'src'))
        data = open(path, 'rb').read()
        full = full_reference(path)
        probs = check_prefix(path, data, inp['cut_at_byte'], full, td, [1])
    return {'reproduced': bool(probs), 'observed': probs}


if __name__ == '__main__':
    import json
    sys.path.insert(0, repo_root())
    out = sweep(sys.argv[1] if len(sys.argv) > 1 else 'quick', 0)
    print(json.dumps({k: out[k] for k in ('evaluations', 'failure_classes')}, indent=1))
    for f in out['failures']:
        print(json.dumps(f)[:600])
