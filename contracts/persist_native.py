'''Native bounded stand-in for C14 (labelled bounded): write / crash-during-write / read of persisted environments.'''
import os
import pickle
import shutil
import tempfile


def sample_envs():
    from valjean.cosette.task import TaskStatus
    S = TaskStatus
    yield 'all-statuses', {f't_{s.name.lower()}': {'status': s, 'payload': {'n': i, 'nested': {'k': [1, 2.5, 'x']}}} for i, s in enumerate(S)}
    yield 'one-done', {'solo': {'status': S.DONE, 'result': list(range(50)), 'start_clock': 1.0, 'end_clock': 2.0}}
    yield 'two-done', {'a': {'status': S.DONE, 'value': 3.14}, 'b': {'status': S.DONE, 'value': b'bytes\x00\xff', 'tuple': (1, (2, 3))}}
    yield 'none-done', {'a': {'status': S.FAILED}, 'b': {'status': S.SKIPPED}}
    yield 'no-output-dir', {'a': {'status': S.DONE, 'x': 1}}
    yield 'empty', {}
    # task names are not file names: a checkout task named 'ext/mylib' writes to <output-root>/ext/mylib, which is where its environment is looked for
    yield 'names-with-a-slash', {'ext/mylib': {'status': S.DONE, 'value': 1}, 'ext/other': {'status': S.FAILED}, 'plain': {'status': S.DONE, 'value': 2}}


def _prepare(root, entries, with_dir=True):
    from valjean.cosette.env import Env
    env = Env()
    for name, ent in entries.items():
        ent = dict(ent)
        if with_dir:
            d = os.path.join(root, name)
            os.makedirs(d, exist_ok=True)
            ent['output_dir'] = d
        env[name] = ent
    return env


def sweep(tier, seed):
    from valjean.cosette.env import Env
    from valjean.cosette.task import TaskStatus
    from valjean.cambronne.common import read_env, write_env
    fails, n = [], 0
    fname = 'valjean.env'
    step = 1 if tier != 'quick' else 1
    for label, entries in sample_envs():
        root = tempfile.mkdtemp(prefix='c14_', dir='/var/tmp')
        try:
            env = _prepare(root, entries, with_dir=(label != 'no-output-dir'))
            names = list(entries)
            before = {k: dict(v) for k, v in env.items()}
            write_env(env, filename=fname, fmt='pickle')
            if {k: dict(v) for k, v in env.items()} != before:
                fails.append({'input': {'env': label}, 'observed': 'write_env modified the environment', 'expected': 'unchanged'})
            # intact round trip
            n += 1
            bad = _read_and_judge(read_env, root, names + ['ghost'], fname, env, set(), label, 'intact', TaskStatus)
            if bad:
                fails.append(bad)
            # every truncation point of every written file, one file at a time; also empty and missing
            for name in names:
                path = os.path.join(root, name, fname)
                if not os.path.exists(path):
                    continue
                data = open(path, 'rb').read()
                cuts = list(range(0, len(data), step))
                for cut in cuts:
                    n += 1
                    with open(path, 'wb') as f:
                        f.write(data[:cut])
                    bad = _read_and_judge(read_env, root, names, fname, env, {name}, label, f'{name} truncated at byte {cut}/{len(data)}', TaskStatus)
                    if bad:
                        fails.append(bad)
                        break
                # garbage and foreign pickles
                for what, blob in (('garbage', b'\x80\x04not a pickle at all'), ('foreign pickle (a dict)', pickle.dumps({'a': 1})),
                                   ('foreign pickle (an int)', pickle.dumps(42)), ('text', b'hello\n')):
                    n += 1
                    with open(path, 'wb') as f:
                        f.write(blob)
                    bad = _read_and_judge(read_env, root, names, fname, env, {name}, label, f'{name} replaced by {what}', TaskStatus)
                    if bad:
                        fails.append(bad)
                # a file that unpickles to an environment whose entry carries something that is not a status: otherwise unreadable -> not done, no exception
                from valjean.cosette.env import Env as _Env
                for weird in ('DONE', None, 0, 42, 2.5, b'DONE', [3]):
                    n += 1
                    with open(path, 'wb') as f:
                        pickle.dump(_Env({name: {'status': weird, 'output_dir': os.path.join(root, name), 'result': 'x'}}), f)
                    bad = _read_and_judge(read_env, root, names, fname, env, {name}, label, f'{name} holds an entry whose status is {weird!r}', TaskStatus)
                    if bad:
                        fails.append(bad)
                        break
                n += 1
                os.remove(path)
                bad = _read_and_judge(read_env, root, names, fname, env, {name}, label, f'{name} missing', TaskStatus)
                if bad:
                    fails.append(bad)
                with open(path, 'wb') as f:
                    f.write(data)
                if len(fails) >= 8:
                    break
        finally:
            shutil.rmtree(root, ignore_errors=True)
        if len(fails) >= 8:
            break
    # histories: a task that was DONE and later fails (or is skipped) must not be reported DONE by the next read
    for later in (TaskStatus.FAILED, TaskStatus.SKIPPED, TaskStatus.WAITING):
        n += 1
        root = tempfile.mkdtemp(prefix='c14h_', dir='/var/tmp')
        try:
            env1 = _prepare(root, {'t': {'status': TaskStatus.DONE, 'result': 'old'}, 'u': {'status': TaskStatus.DONE, 'result': 'u1'}})
            write_env(env1, filename=fname, fmt='pickle')
            env2 = _prepare(root, {'t': {'status': later, 'result': 'new'}, 'u': {'status': TaskStatus.DONE, 'result': 'u2'}})
            write_env(env2, filename=fname, fmt='pickle')
            got = read_env(root=root, names=['t', 'u'], filename=fname, fmt='pickle')
            gd = {k: dict(v) for k, v in got.items()}
            if 't' in gd or gd.get('u', {}).get('result') != 'u2':
                fails.append({'input': {'history': ['write t=DONE', f'write t={later.name}', 'read']},
                              'observed': f'read_env reports {dict((k, (v.get("status").name, v.get("result"))) for k, v in gd.items())}',
                              'expected': 't is not DONE after the second run; u carries the results of the second run'})
        finally:
            shutil.rmtree(root, ignore_errors=True)
    # write / crash-during-REwrite / read: the real write_env runs in a child process that dies after exactly k bytes of the new entry reached the file
    # (pickle.dump is replaced in the child by "write the first k bytes of the dump, flush, die"; the file is opened by the real Env.to_file)
    for later in (TaskStatus.FAILED, TaskStatus.DONE):
        root = tempfile.mkdtemp(prefix='c14k_', dir='/var/tmp')
        try:
            env1 = _prepare(root, {'t': {'status': TaskStatus.DONE, 'result': 'old result, rather long ' * 4}})
            write_env(env1, filename=fname, fmt='pickle')
            old_bytes = open(os.path.join(root, 't', fname), 'rb').read()
            env2 = _prepare(root, {'t': {'status': later, 'result': 'new'}})
            new_len = _dump_len(env2, 't')
            for k in sorted(set(list(range(0, min(new_len, 40))) + list(range(0, new_len + 1, 7)) + [new_len])):
                n += 1
                with open(os.path.join(root, 't', fname), 'wb') as f:
                    f.write(old_bytes)
                _killed_write(env2, fname, k)
                try:
                    got = read_env(root=root, names=['t'], filename=fname, fmt='pickle')
                    gd = {kk: dict(v) for kk, v in got.items()}
                    problem = None
                    if 't' in gd and gd['t'].get('result') != 'new':
                        problem = f'read_env reports t as DONE with the entry of the EARLIER run (result {str(gd["t"].get("result"))[:20]!r}...)'
                    elif 't' in gd and later != TaskStatus.DONE:
                        problem = 'read_env reports t as DONE although the run being written recorded it as FAILED'
                    elif 't' in gd and k < new_len:
                        problem = 'read_env returns an entry from a partially written file'
                except BaseException as e:      # noqa
                    problem = f'read_env raised {type(e).__name__}'
                if problem:
                    fails.append({'input': {'history': ['write t=DONE (old)', f'write t={later.name} killed after {k} of {new_len} bytes', 'read']}, 'observed': problem,
                                  'expected': 'a task whose file was being re-written when the job died is treated as not done'})
                    break
        finally:
            shutil.rmtree(root, ignore_errors=True)
    # the whole command: sequences of `valjean run` (RunCommand.execute) on a 3-task job (a <- b <- c, b also hard-depends on nothing else); between two runs a
    # task may start failing and an environment file may be damaged.  After EVERY run, reading back gives exactly the DONE entries of the environment the run returned.
    for hist in command_histories(tier):
        n += 1
        bad = _command_history(hist, fname)
        if bad:
            fails.append({'input': {'runs_of_the_command': hist}, 'observed': bad, 'expected': 'after each run read_env returns exactly the entries the run left DONE'})
    n += 1
    probs = cyclic_case()
    if probs:
        fails.append({'input': {'env': 'entries holding the environment itself'}, 'observed': probs[:3], 'expected': 'the entry read is the entry written'})
    return {'name': 'persisted-environments-native', 'evaluations': n, 'distinct': n, 'failures': fails[:8], 'exhaustive': True,
            'bound': '7 sample environments (all statuses, nested / binary payloads, with and without output directories, task names holding a slash) + one whose entries hold the environment itself; write_env then read_env: intact, '
                     'every byte prefix of every written file (one damaged file at a time), empty, missing, garbage, foreign pickles and environments whose entry holds a non-status (string, None, numbers, bytes, list); two-run histories DONE -> FAILED / SKIPPED / WAITING; re-writing an existing DONE file with a FAILED / DONE entry in a child process killed after k bytes (k = 0..39, every 7th, all); 2-3 successive runs of the real RunCommand.execute on a 3-task job with failing tasks and damaged files in between',
            'samples': [{'env': 'one-done', 'damage': 'solo truncated at byte 17'}]}


JOB_SRC = """
from pathlib import Path
from valjean.cosette.pythontask import PythonTask
from valjean.cosette.task import TaskStatus

ROOT = Path({root!r})


def mk(name, deps):
    def fn(*, env, config):
        out = Path(config.query('path', 'output-root'), name)
        out.mkdir(parents=True, exist_ok=True)
        counter = ROOT / (name + '.count')
        k = int(counter.read_text()) + 1 if counter.exists() else 1
        counter.write_text(str(k))
        if (ROOT / (name + '.fail')).exists():
            return {{name: {{'output_dir': str(out), 'result': 'failed run %d' % k}}}}, TaskStatus.FAILED
        return {{name: {{'output_dir': str(out), 'result': 'run %d' % k, 'saw': sorted(d.name for d in deps)}}}}, TaskStatus.DONE
    return PythonTask(name, fn, env_kwarg='env', config_kwarg='config', deps=deps)


def job():
    a = mk('a', [])
    b = mk('b', [a])
    c = mk('c', [b])
    return [c]
"""


def command_histories(tier):
    '''each run: (tasks that fail in this run, files damaged before this run)'''
    base = [
        [((), ()), (('a',), ('a',))],                       # a's file damaged and a fails: b, c restored DONE then SKIPPED
        [((), ()), (('b',), ('b',))],
        [((), ()), ((), ('a',)), ((), ())],                 # a re-executed: b and c re-run
        [(('b',), ()), ((), ())],                           # b fails first, recovers
        [((), ()), (('a',), ('a',)), ((), ())],
        [((), ()), ((), ('c',))],
        [((), ()), (('c',), ('b',))],
    ]
    return base if tier == 'quick' else base + [[((), ()), (f, d), ((), ())] for f in (('a',), ('b',), ('c',)) for d in ((), ('a',), ('b',), ('c',))]


def _command_history(hist, fname):
    import argparse
    from valjean.config import Config
    from valjean.cambronne.commands.run import RunCommand
    from valjean.cambronne.common import read_env
    from valjean.cosette.task import TaskStatus
    tmp = tempfile.mkdtemp(prefix='c14cmd_', dir='/var/tmp')
    try:
        root = os.path.join(tmp, 'output')
        job_file = os.path.join(tmp, 'job_c14.py')
        with open(job_file, 'w') as f:
            f.write(JOB_SRC.format(root=tmp))
        config = Config({'path': {'log-root': os.path.join(tmp, 'log'), 'output-root': root, 'report-root': os.path.join(tmp, 'report')}})
        names = ['a', 'b', 'c']
        for k, (failing, damaged) in enumerate(hist):
            for nm in names:
                flag = os.path.join(tmp, nm + '.fail')
                if nm in failing:
                    open(flag, 'w').write('x')
                elif os.path.exists(flag):
                    os.remove(flag)
            for nm in damaged:
                pth = os.path.join(root, nm, fname)
                if os.path.exists(pth):
                    data = open(pth, 'rb').read()
                    with open(pth, 'wb') as f:
                        f.write(data[:len(data) // 2])
            args = argparse.Namespace(job_file=job_file, job_args=[], job_kwargs={}, workers=2, env_filename=fname, env_format='pickle')
            try:
                env = RunCommand().execute(args, config)
            except Exception as e:      # noqa
                return f'run {k + 1} raised {e!r}'
            try:
                back = read_env(root=root, names=names, filename=fname, fmt='pickle')
            except Exception as e:      # noqa
                return f'reading back after run {k + 1} raised {e!r}'
            want = {nm: dict(env[nm]) for nm in names if nm in env and env[nm].get('status') == TaskStatus.DONE and 'output_dir' in env[nm]}
            got = {nm: dict(v) for nm, v in back.items()}
            if got != want:
                st = {nm: getattr(env[nm].get('status'), 'name', None) for nm in names if nm in env}
                return (f'after run {k + 1} the tasks ended {st}; reading back reports {sorted(got)} as DONE '
                        f'(entries equal to those of the run: {[nm for nm in got if got.get(nm) == want.get(nm)]}), expected exactly {sorted(want)}')
    finally:
        shutil.rmtree(tmp, ignore_errors=True)
    return None


def _dump_len(env, name):
    import io
    buf = io.BytesIO()
    pickle.dump(env.__class__({name: env[name]}), buf) if False else None
    # the payload Env.to_file writes for one task: measured by running the real to_file into a scratch file
    import tempfile as _tf
    d = _tf.mkdtemp(prefix='c14len_', dir='/var/tmp')
    try:
        path = os.path.join(d, 'probe.env')
        env.to_file(path, task_name=name, fmt='pickle')
        return os.path.getsize(path)
    finally:
        shutil.rmtree(d, ignore_errors=True)


def _killed_write(env, fname, k):
    '''run the real write_env in a forked child in which pickle.dump writes only k bytes and the process dies at once (no flush of anything else)'''
    pid = os.fork()
    if pid == 0:
        try:
            real_dumps = pickle.dumps

            def dying_dump(obj, f, *a, **kw):
                data = real_dumps(obj, *a, **kw)
                f.write(data[:k])
                f.flush()
                os._exit(0)
            pickle.dump = dying_dump
            from valjean.cambronne.common import write_env
            write_env(env, filename=fname, fmt='pickle')
        finally:
            os._exit(0)
    os.waitpid(pid, 0)


def cyclic_case():
    '''entries that hold a reference to the environment itself (a task keeping the env it was given, as results of several tasks): what is read back for a DONE task is
    what was written, the inner environment included'''
    from valjean.cosette.task import TaskStatus
    from valjean.cambronne.common import read_env, write_env
    root = tempfile.mkdtemp(prefix='c14c_', dir='/var/tmp')
    probs = []
    try:
        env = _prepare(root, {'prepare': {'status': TaskStatus.DONE, 'n': 1}, 'report': {'status': TaskStatus.DONE, 'n': 2}, 'summary': {'status': TaskStatus.DONE, 'n': 3}})
        for nm in ('report', 'summary'):
            env[nm]['seen_env'] = env
            env[nm]['peer'] = env['prepare']
        write_env(env, filename='valjean.env', fmt='pickle')
        got = read_env(root=root, names=list(env), filename='valjean.env', fmt='pickle')
        if sorted(got) != sorted(env):
            probs.append(f'read back {sorted(got)}, written {sorted(env)}')
        for nm in ('report', 'summary'):
            if nm not in got:
                continue
            inner = got[nm].get('seen_env')
            if inner is None or sorted(inner) != sorted(env):
                probs.append(f"{nm}: 'seen_env' was written with tasks {sorted(env)}, read back with tasks {sorted(inner) if inner is not None else None}")
            elif any(inner[k].get('n') != env[k]['n'] for k in env):
                probs.append(f"{nm}: the entries of the inner environment differ from those written")
            if got[nm].get('peer', {}).get('n') != 1:
                probs.append(f"{nm}: 'peer' read back as {got[nm].get('peer')}")
    except Exception as e:      # noqa
        probs.append(f'raised {e!r}')
    finally:
        shutil.rmtree(root, ignore_errors=True)
    return probs


def _read_and_judge(read_env, root, names, fname, env, damaged, label, damage, TaskStatus):
    inp = {'env': label, 'damage': damage}
    try:
        got = read_env(root=root, names=names, filename=fname, fmt='pickle')
    except BaseException as e:      # noqa
        return {'input': inp, 'observed': f'read_env raised {type(e).__name__}: {str(e)[:120]}', 'expected': 'the task is treated as not done; no exception'}
    want = {k: dict(v) for k, v in env.items() if v.get('status') == TaskStatus.DONE and 'output_dir' in v and k not in damaged}
    gotd = {k: dict(v) for k, v in got.items()}
    if gotd != want:
        return {'input': inp, 'observed': f'read_env returned {sorted(gotd)} (entries equal: {[k for k in gotd if gotd.get(k) == want.get(k)]})',
                'expected': f'exactly the intact DONE entries {sorted(want)}'}
    return None


def replay(inp):
    out = sweep('quick', 0)
    return {'reproduced': bool(out['failures']), 'observed': out['failures'][:1]}
