'''C08 -- dataset arithmetic propagates uncorrelated errors and keeps datasets well formed.

Deductive part (valjean/eponine/dataset.py): __add__, __sub__, __mul__, __truediv__ with a dataset and with a number /
array on the right, _check_datasets_consistency, copy.  Pointwise contracts over Num (extended reals, IEEE special values
exact, finite arithmetic mathematical: A-real); ownership of buffers for copy; frames for the operands.'''
import ast
import z3

from pyvc import prop, theory as th, solve
from pyvc.values import SV, SObj, SClass, SNamespace, SFunc, T, INT, BOOL, NUM, Undecided, lift, coerce
from pyvc.engine import Contract
from pyvc.verify import verify_function
from pyvc.libspec import SArr
from .dataset_world import make_world, DS
from . import dataset_native as dnat

ID = 'C08'
LEVEL = 'proof'
EXPLANATION = ('Pointwise contracts on the real Dataset operators: value = the array operation; error = sqrt(e1^2 + e2^2) for + and -, '
               'sqrt((e1 v2)^2 + (e2 v1)^2) for *, sqrt((e1/v2)^2 + (v1 e2/v2^2)^2) for / (lemmas: equal to |v| sqrt((e1/v1)^2 + (e2/v2)^2) for finite non-zero values), '
               'error unchanged for + - with a number / array and scaled by |c| for * /; errors stay non-negative when the operands\' errors are; result keeps the bins of the '
               'left operand and has value / error of one shape; operands (arrays and bins) are not written; copy() returns equal content in buffers disjoint from the '
               'original (bins included). Obligations generated from the AST, discharged by z3 (nonlinear reals for the lemmas).')
ASSUMPTIONS = [
    'A-real: finite floating-point arithmetic is mathematical (rounding / overflow / underflow ignored); NaN and infinities follow IEEE-754 rules exactly',
    'A-numpy: arithmetic operators and np.sqrt / np.fabs are pointwise on same-shaped operands (scalar broadcasting only) and return fresh arrays; '
    'ndarray.copy / np.copy return equal content in a fresh buffer; array_equal = same shape and all elements equal',
    'contract of Dataset.__init__ as modelled in contracts/dataset_world.py (type / shape / bins-count checks, shallow copy of the bins dictionary)',
    'rank-1 datasets stand for every shape: the operators never look at the shape except through the consistency check (flat element index)',
    'Dataset.mask and chains of operations: bounded unit only; squeeze is under contract in C09',
    'A-log: LOGGER calls dropped',
]
TRUSTED = ['z3 unsat answers (cvc5 cross-check in the thorough tier)', 'CPython ast module', 'pyvc engine (symbolic executor, libspec / libnumpy encodings)']

N = 'self.value.size'
WF = ["len(self.bins['b0']) == self.shape[0] or len(self.bins['b0']) == self.shape[0] + 1"]
ALL = 'all({body} for i in range(self.value.size))'


def _world(scalar_other=None):
    w = make_world(ndim=1, bins_layout=['b0'])
    w.globals['sq'] = lambda I, x: SV(NUM, th.num_sq(coerce(x if isinstance(x, SV) else lift(x), NUM).t))
    w.globals['sqrt'] = lambda I, x: SV(NUM, th.num_sqrt(coerce(x if isinstance(x, SV) else lift(x), NUM).t))
    w.globals['fabs'] = lambda I, x: SV(NUM, th.num_abs(coerce(x if isinstance(x, SV) else lift(x), NUM).t))
    w.globals['isnan'] = lambda I, x: SV(BOOL, th.is_nan(coerce(x if isinstance(x, SV) else lift(x), NUM).t))
    w.globals['isfinite'] = lambda I, x: SV(BOOL, th.is_fin(coerce(x if isinstance(x, SV) else lift(x), NUM).t))
    w.globals['array_equal'] = lambda I, a, b: I.world.globals['np'].members['array_equal'](I, a, b)
    w.globals['shares'] = lambda I, a, b: isinstance(a, SArr) and isinstance(b, SArr) and a.buf == b.buf
    ns = w.globals['np']
    ns.members['copy'] = lambda I, a: I.world.lib.arr_method(I, a, 'copy', [], {})

    def ordered_dict(I, args, kwargs):
        if not args:
            return {}
        src = args[0]
        from pyvc.engine import GenExp
        if isinstance(src, GenExp):
            items = I.world.lib.comprehension(I, src.node, src.scope, 'list')
            return {k: v for k, v in items}
        if isinstance(src, dict):
            return dict(src)
        raise Undecided('OrderedDict(...)')
    w.construct_hooks['OrderedDict'] = ordered_dict
    return w


FRAME = ['self.value is old(self.value)', 'self.error is old(self.error)', "self.bins['b0'] is old(self.bins['b0'])", 'len(self.bins) == 1']
FRAME_O = ['other.value is old(other.value)', 'other.error is old(other.error)', "other.bins['b0'] is old(other.bins['b0'])"]
WF_RES = ['result.error.size == result.value.size', 'result.value.size == self.value.size', "result.bins['b0'] is self.bins['b0'] and len(result.bins) == 1",
          'same(result.name, self.name)']
NONNEG2 = ALL.format(body='implies(self.error[i] >= 0 and other.error[i] >= 0, result.error[i] >= 0)')


# the domain of C08: finite values, non-negative errors (an infinite error is non-negative; NaN is not).  Callers that need the formula outside of it
# (C05 / C07 rely on it for NaN errors) verify the unguarded contract themselves (full=True) under their own property id.
DOMAIN_PM = 'self.error[i] >= 0 and other.error[i] >= 0'
DOMAIN_MD = DOMAIN_PM + ' and isfinite(self.value[i]) and isfinite(other.value[i])'


def c_binary(op, full=False):
    method = {'+': '__add__', '-': '__sub__', '*': '__mul__', '/': '__truediv__'}[op]
    if op in '+-':
        val = f'self.value[i] {op} other.value[i]'
        err = 'sqrt(sq(self.error[i]) + sq(other.error[i]))'
    elif op == '*':
        val = 'self.value[i] * other.value[i]'
        err = 'sqrt(sq(self.error[i] * other.value[i]) + sq(other.error[i] * self.value[i]))'
    else:
        val = 'self.value[i] / other.value[i]'
        err = 'sqrt(sq(self.error[i] / other.value[i]) + sq(self.value[i] * other.error[i] / sq(other.value[i])))'
    ens = [('value-is-the-array-operation', ALL.format(body=f'same(result.value[i], {val})')),
           ('error-is-the-first-order-uncorrelated-error', ALL.format(body=f'same(result.error[i], {err})' if full else
                                                                      f'implies({DOMAIN_PM if op in "+-" else DOMAIN_MD}, same(result.error[i], {err}))')),
           ('errors-stay-non-negative', NONNEG2 if op in '+-' else ALL.format(body='implies(self.error[i] >= 0 and other.error[i] >= 0 and not isnan(self.value[i]) and '
                                                                                  'not isnan(other.value[i]), result.error[i] >= 0 or isnan(result.error[i]))'))]
    ens += [(f'well-formed-{k}', e) for k, e in enumerate(WF_RES)] + [(f'left-operand-untouched-{k}', e) for k, e in enumerate(FRAME)] \
        + [(f'right-operand-untouched-{k}', e) for k, e in enumerate(FRAME_O)]
    return Contract(DS, f'Dataset.{method}', params={'self': 'Obj:Dataset', 'other': 'Obj:Dataset'}, requires=WF + ['other.error.size == other.value.size'],
                    ensures=ens, signals={'ValueError': MISMATCH},
                    variant='dataset-operand')


def c_scalar(op):
    method = {'+': '__add__', '-': '__sub__', '*': '__mul__', '/': '__truediv__'}[op]
    val = f'self.value[i] {op} other'
    err = {'+': 'self.error[i]', '-': 'self.error[i]', '*': 'self.error[i] * fabs(other)', '/': 'self.error[i] / fabs(other)'}[op]
    ens = [('value-is-the-array-operation', ALL.format(body=f'same(result.value[i], {val})')),
           ('a-constant-scales-the-error-by-its-magnitude' if op in '*/' else 'a-constant-leaves-the-error-unchanged', ALL.format(body=f'same(result.error[i], {err})')),
           ('errors-stay-non-negative', ALL.format(body='implies(self.error[i] >= 0 and not isnan(other), result.error[i] >= 0 or isnan(result.error[i]))'))]
    ens += [(f'well-formed-{k}', e) for k, e in enumerate(WF_RES)] + [(f'left-operand-untouched-{k}', e) for k, e in enumerate(FRAME)]
    return Contract(DS, f'Dataset.{method}', params={'self': 'Obj:Dataset', 'other': 'Num'}, requires=WF, ensures=ens, signals={}, variant='number-operand')


MISMATCH = "other.value.size != self.value.size or not array_equal(self.bins['b0'], other.bins['b0'])"


def c_consistency():
    return Contract(DS, 'Dataset._check_datasets_consistency', params={'self': 'Obj:Dataset', 'other': 'Obj:Dataset', 'operation': 'Str'},
                    requires=WF, ensures=[('accepted-means-same-shape-and-bins', f'not ({MISMATCH})')] + [(f'untouched-{k}', e) for k, e in enumerate(FRAME + FRAME_O)],
                    signals={'ValueError': MISMATCH})


def c_copy():
    return Contract(DS, 'Dataset.copy', params={'self': 'Obj:Dataset'}, requires=WF,
                    ensures=[('equal-content', ALL.format(body='same(result.value[i], self.value[i]) and same(result.error[i], self.error[i])')
                              + " and all(same(result.bins['b0'][j], self.bins['b0'][j]) for j in range(self.bins['b0'].size))"),
                             ('C08-a-copy-shares-no-data-with-its-original',
                              "not shares(result.value, self.value) and not shares(result.error, self.error) and not shares(result.bins['b0'], self.bins['b0']) "
                              "and not shares(result.value, self.error) and not shares(result.error, self.value)"),
                             ('same-sizes', "result.value.size == self.value.size and result.error.size == self.error.size and result.bins['b0'].size == self.bins['b0'].size"),
                             ('same-labels', 'same(result.name, self.name) and same(result.what, self.what)')]
                    + [(f'original-untouched-{k}', e) for k, e in enumerate(FRAME)],
                    signals={})


def relative_error_lemmas():
    '''for finite non-zero values the formulas of * and / are |v| sqrt((e1/v1)^2 + (e2/v2)^2) (nonlinear reals)'''
    v1, v2, e1, e2, s, r = z3.Reals('v1 v2 e1 e2 s r')
    hyp = [v1 != 0, v2 != 0, e1 >= 0, e2 >= 0]
    out = []
    # s = sqrt(rel) , r = sqrt(abs formula): equal after scaling.  Stated on squares (sqrt is injective on non-negatives).
    rel = (e1 / v1) * (e1 / v1) + (e2 / v2) * (e2 / v2)
    mul = (e1 * v2) * (e1 * v2) + (e2 * v1) * (e2 * v1)
    out.append(('C08-product-error-is-the-quadratic-sum-of-relative-errors', hyp, mul == (v1 * v2) * (v1 * v2) * rel, '(e1 v2)^2 + (e2 v1)^2 == (v1 v2)^2 ((e1/v1)^2 + (e2/v2)^2)'))
    div = (e1 / v2) * (e1 / v2) + (v1 * e2 / (v2 * v2)) * (v1 * e2 / (v2 * v2))
    out.append(('C08-quotient-error-is-the-quadratic-sum-of-relative-errors', hyp, div == (v1 / v2) * (v1 / v2) * rel, '(e1/v2)^2 + (v1 e2/v2^2)^2 == (v1/v2)^2 ((e1/v1)^2 + (e2/v2)^2)'))
    return out


def units(tier):
    return ['consistency'] + [f'binary{op}' for op in 'asmd'] + [f'scalar{op}' for op in 'asmd'] + ['copy', 'lemmas', 'native']


OPS = {'a': '+', 's': '-', 'm': '*', 'd': '/'}


def _replay_native(name, inp):
    out = dnat.sweep('quick', 0)
    if out['failures']:
        fl = out['failures'][0]
        return {'reproduced': True, 'observed': fl['observed'], 'input_found': fl['input'], 'by': 'native dataset-arithmetic sweep'}
    return {'reproduced': False, 'note': 'native sweep found no failing input'}


def replay_scalar(name, inp):
    '''replay a model of a number-operand obligation: a 1-cell dataset with the model's error and constant'''
    import numpy as np
    from valjean.eponine.dataset import Dataset
    try:
        c = float(inp['other'])
        e = float(inp.get('error', 1.0))
        v = float(inp.get('value', 1.0))
    except Exception:      # noqa
        return _replay_native(name, inp)
    ds = Dataset(np.array([v]), np.array([e]))
    op = inp.get('op', '*')
    r = {'+': ds + c, '-': ds - c, '*': ds * c, '/': ds / c}[op] if not (op == '/' and c == 0) else ds * c
    want = e if op in '+-' else (e * abs(c) if op == '*' else e / abs(c))
    bad = not np.allclose(r.error, want, equal_nan=True) or (e >= 0 and np.any(r.error < 0))
    return {'reproduced': bool(bad), 'observed': f'Dataset([{v}], [{e}]) {op} {c} has error {r.error.tolist()}', 'expected': f'error {want}'}


def run_unit(unit, tier, seed, known):
    import logging
    import warnings
    logging.disable(logging.CRITICAL)
    warnings.filterwarnings('ignore')
    if unit == 'native':
        return {'bounded': [dnat.sweep(tier, seed)]}
    if unit == 'lemmas':
        recs = []
        for name, hyp, goal, text in relative_error_lemmas():
            r = prop.lemma(f'{DS}::lemma::{name}', hyp, goal, tier, ID, expr=text)
            r.pop('model', None)
            recs.append(r)
        return {'lemmas': recs}
    w = _world()
    w.add(c_consistency())
    if unit == 'consistency':
        res = verify_function(w, c_consistency())
        return {'functions': [prop.discharge(res, tier, ID, lambda m, r: {'note': 'see model text'}, _replay_native)]}
    if unit == 'copy':
        res = verify_function(w, c_copy())
        return {'functions': [prop.discharge(res, tier, ID, lambda m, r: {'note': 'see model text'}, _replay_native)]}
    kind, op = unit[:-1], OPS[unit[-1]]
    if kind == 'binary':
        res = verify_function(w, c_binary(op))
        return {'functions': [prop.discharge(res, tier, ID, lambda m, r: {'note': 'see model text'}, _replay_native)]}
    res = verify_function(w, c_scalar(op))

    def conc(model, r):
        sc, heap = r.inputs['scope'], r.inputs['heap']
        out = {'op': op, 'other': solve.py_of(model, sc['other'])}
        ds = heap[sc['self'].oid]['fields']
        i0 = z3.IntVal(0)
        out['error'] = solve.py_of(model, SV(NUM, ds['error'].elem(i0)))
        out['value'] = solve.py_of(model, SV(NUM, ds['value'].elem(i0)))
        return out
    return {'functions': [prop.discharge(res, tier, ID, conc, replay_scalar)]}


def verify_sub_full(tier, pid, replay_fn):
    '''Dataset.__sub__ against its contract over ALL extended reals (NaN and infinite errors included): the contract C05 and C07 use at their call sites.
    Discharged under the caller's property id.'''
    w = _world()
    w.add(c_consistency())
    c = c_binary('-', full=True)
    c.ensures = [(('callers-rely-on-' + lab) if isinstance(e, tuple) else e, ex) for e in c.ensures for lab, ex in [e]][:2]
    c.variant = 'dataset-operand-any-extended-real'
    return prop.discharge(verify_function(w, c), tier, pid, lambda m, r: {'note': 'see model text'}, replay_fn)


def replay(name, inp):
    if inp and 'other' in inp:
        return replay_scalar(name, inp)
    return _replay_native(name or '', inp)
