'''World shared by the scheduler contracts (C01, C02, C03, C04): Env / Queue / Condition / DepGraph
models (assumed contracts, section 3 of DESIGN.md) and the contracts of QueueScheduling.'''
import ast
import z3

from pyvc import theory as th
from pyvc.values import SV, SObj, SClass, SNamespace, SFunc, SPyExc, T, INT, BOOL, NUM, Undecided, lift, coerce, parse_type, zsort
from pyvc.engine import Contract, LoopSpec, PyRaise
from pyvc.verify import World, ClassModel

QF = 'valjean/cosette/backends/queue.py'
ENVF = 'valjean/cosette/env.py'
TASKF = 'valjean/cosette/task.py'

NAME = T('Ref', 'Name')
TASK = T('Ref', 'Task')
STATUS = T('Enum', 'TaskStatus')
CLOCK = T('Opt', NUM)

SPEC_DEFS = '''
def st(env, t):
    return env.status[t.name] if t.name in env.present else TaskStatus.WAITING

def final(s):
    return s == TaskStatus.DONE or s == TaskStatus.FAILED or s == TaskStatus.SKIPPED

def bad(s):
    return s == TaskStatus.FAILED or s == TaskStatus.SKIPPED

def end_of(env, t):
    return env.end[t.name]

def start_of(env, t):
    return env.start[t.name]
'''


class EnvModel(ClassModel):
    '''Abstract view of Env: dictionary keys (present), and per task name the 'status',
    'start_clock', 'end_clock' entries.  Every method below is the assumed contract of the
    method of the same name in valjean/cosette/env.py (see unit env_conformance).'''
    name = 'Env'
    fields = {'present': 'Set[Ref:Name]', 'status': 'Fun[Ref:Name,Enum:TaskStatus]',
              'start': 'Fun[Ref:Name,Opt[Num]]', 'end': 'Fun[Ref:Name,Opt[Num]]'}

    def _name(self, I, task):
        return I.getattr(task, 'name')

    def m___contains__(self, I, env, name):
        return SV(BOOL, I.getfield(env, 'present').t[name.t])

    def m_get_status(self, I, env, task):
        n = self._name(I, task)
        present = I.getfield(env, 'present')
        status = I.getfield(env, 'status')
        if I.path.nofork:
            # inside a quantifier the call must be pure: the entry exists
            I.require(present.t[n.t], 'impure', 'get_status on a missing entry inside a quantifier')
            return SV(STATUS, status.t[n.t])
        W = I.world.enum_const('TaskStatus', 'WAITING')
        if I.path.cond(present.t[n.t]):
            return SV(STATUS, status.t[n.t])
        # setdefault inserts {'status': WAITING}
        I.setfield(env, 'present', SV(present.typ, z3.Store(present.t, n.t, True)))
        I.setfield(env, 'status', SV(status.typ, z3.Store(status.t, n.t, W.t)))
        e0 = lift(None, CLOCK)
        I.setfield(env, 'start', SV(I.getfield(env, 'start').typ, z3.Store(I.getfield(env, 'start').t, n.t, e0.t)))
        I.setfield(env, 'end', SV(I.getfield(env, 'end').typ, z3.Store(I.getfield(env, 'end').t, n.t, e0.t)))
        return W

    def m_set_status(self, I, env, task, status):
        n = self._name(I, task)
        present = I.getfield(env, 'present')
        st = I.getfield(env, 'status')
        if not (isinstance(status, SV) and status.typ == STATUS):
            raise Undecided('set_status with a non-status value')
        was = present.t[n.t]
        e0 = lift(None, CLOCK)
        for f in ('start', 'end'):
            cur = I.getfield(env, f)
            I.setfield(env, f, SV(cur.typ, z3.If(was, cur.t, z3.Store(cur.t, n.t, e0.t))))
        I.setfield(env, 'present', SV(present.typ, z3.Store(present.t, n.t, True)))
        I.setfield(env, 'status', SV(st.typ, z3.Store(st.t, n.t, status.t)))
        return None

    def m_get_end_clock(self, I, env, task):
        n = self._name(I, task)
        I.require(I.getfield(env, 'present').t[n.t], 'AttributeError', 'get_end_clock on a missing entry')
        return SV(CLOCK, I.getfield(env, 'end').t[n.t])

    def m_get_start_clock(self, I, env, task):
        n = self._name(I, task)
        I.require(I.getfield(env, 'present').t[n.t], 'AttributeError', 'get_start_clock on a missing entry')
        return SV(CLOCK, I.getfield(env, 'start').t[n.t])

    def m_atomically(self, I, env, action):
        I.atomic_depth = getattr(I, 'atomic_depth', 0) + 1
        try:
            return I.call(action, [env], {})
        finally:
            I.atomic_depth -= 1


def _add_accessors(model_cls, members):
    for m in members:
        lname = m.lower()

        def getter(self, I, env, task, _m=m):
            s = self.m_get_status(I, env, task)
            return SV(BOOL, s.t == I.world.enum_const('TaskStatus', _m).t)

        def setter(self, I, env, task, _m=m):
            return self.m_set_status(I, env, task, I.world.enum_const('TaskStatus', _m))
        setattr(model_cls, 'm_is_' + lname, getter)
        setattr(model_cls, 'm_set_' + lname, setter)


class GraphModel(ClassModel):
    '''DepGraph as seen by the scheduler: dependencies(task) is a set of tasks (C16 carries the
    contract of the real method).'''
    name = 'DepGraph'
    fields = {'deps': 'Fun[Ref:Task,Set[Ref:Task]]'}

    def m_dependencies(self, I, g, task):
        return SV(T('Set', TASK), I.getfield(g, 'deps').t[task.t])


def make_world():
    w = World()
    ns = w.enum('TaskStatus', TASKF, ordered=True)
    w.globals['LOGGER'] = SNamespace('LOGGER', dropped=True)
    w.globals['logging'] = SNamespace('logging', {'DEBUG': 10})
    w.ref_attrs['Task'] = {'name': 'Ref:Name', 'rank': 'Int'}
    _add_accessors(EnvModel, list(ns.members))
    w.class_models['Env'] = EnvModel(w)
    w.class_models['DepGraph'] = GraphModel(w)
    w.class_models['Queue'] = QueueModel(w)
    w.class_models['QueueScheduling'] = SchedModel(w)
    w.globals['QueueScheduling'] = SClass('QueueScheduling')
    for node in ast.parse(SPEC_DEFS).body:
        w.globals[node.name] = SFunc(node, None, node.name)
    x = z3.Const('n!all', zsort(NAME))
    w.globals['Names'] = SV(T('Set', NAME), z3.K(zsort(NAME), z3.BoolVal(True)))
    w.globals['partial'] = lambda I, f, *a, **k: I.world.lib.b_partial(I, f, *a, **k)

    def isnan(I, x):
        if x is None:
            return False
        x = x if isinstance(x, SV) else lift(x, NUM)
        if x.typ.kind == 'Opt':
            from pyvc.values import opt_is_none, opt_get
            return SV(BOOL, z3.And(z3.Not(opt_is_none(x)), th.is_nan(opt_get(x).t)))
        return SV(BOOL, th.is_nan(coerce(x, NUM).t))

    def some(I, x):
        x = x if isinstance(x, SV) else lift(x)
        return coerce(x, T('Opt', x.typ))
    w.globals['isnan'] = isnan
    w.globals['some'] = some
    return w


FRAME_OTHERS = ('all(implies(n != task.name, (n in env.present) == (n in old(env.present)) and '
                'same(env.status[n], old(env.status[n]))) for n in Names)')
FRAME_CLOCKS = 'all(implies(n in old(env.present), same(env.start[n], old(env.start[n])) and same(env.end[n], old(env.end[n]))) for n in Names)'


def c_last_end_time():
    return Contract(
        QF, 'QueueScheduling.last_end_time', params={'cls': 'Class:QueueScheduling', 'tasks': 'Set[Ref:Task]', 'env': 'Obj:Env'},
        returns='Opt[Num]',
        requires=['all(t.name in env.present for t in tasks)',
                  'all(end_of(env, t) is None or not isnan(end_of(env, t)) for t in tasks)'],
        ensures=[('none-iff', '(result is None) == (not any(True for t in tasks) or any(end_of(env, t) is None for t in tasks))'),
                 ('upper-bound', 'implies(result is not None, all(end_of(env, t) <= result for t in tasks))'),
                 ('attained', 'implies(result is not None, any(same(end_of(env, t), result) for t in tasks))'),
                 ('env-unchanged', 'same(env.present, old(env.present)) and same(env.status, old(env.status)) and same(env.start, old(env.start)) and same(env.end, old(env.end))')],
        signals={},
        loops={0: LoopSpec('for task in tasks',
                           ['all(end_of(env, t) is not None for t in done)',
                            'all(any(same(ends[j], end_of(env, t).unwrap) for j in range(len(ends))) for t in done)' if False else
                            'all(any(same(some(ends[j]), end_of(env, t)) for j in range(len(ends))) for t in done)',
                            'all(any(same(some(ends[j]), end_of(env, t)) for t in done) for j in range(len(ends)))',
                            '(len(ends) == 0) == (not any(True for t in done))',
                            'same(env.present, old(env.present)) and same(env.status, old(env.status)) and same(env.start, old(env.start)) and same(env.end, old(env.end))'],
                           vars={'ends': 'Seq[Num]'})})


def c_decide_waiting():
    return Contract(
        QF, 'QueueScheduling.decide_new_state_waiting',
        params={'cls': 'Class:QueueScheduling', 'task': 'Ref:Task', 'deps': 'Set[Ref:Task]', 'hard_deps': 'Set[Ref:Task]', 'env': 'Obj:Env'},
        returns='Enum:TaskStatus',
        requires=['all(h in deps for h in hard_deps)', 'all(d.name in env.present for d in deps)',
                  'all(d.name != task.name for d in deps)'],
        modifies=['env.present', 'env.status', 'env.start', 'env.end'],
        ensures=[('skip-iff', '(result == TaskStatus.SKIPPED) == any(bad(old(st(env, h))) for h in hard_deps)'),
                 ('release-iff', '(result == TaskStatus.PENDING) == (not any(bad(old(st(env, h))) for h in hard_deps) and all(final(old(st(env, d))) for d in deps))'),
                 ('else-waiting', 'result == TaskStatus.SKIPPED or result == TaskStatus.PENDING or result == TaskStatus.WAITING'),
                 ('new-status', 'task.name in env.present and same(env.status[task.name], result)'),
                 ('present-grows', 'all(implies(n in old(env.present), n in env.present) for n in Names)'),
                 ('new-entries-have-no-clocks', 'all(implies(n in env.present and n not in old(env.present), env.start[n] is None and env.end[n] is None) for n in Names)'),
                 ('frame-others', FRAME_OTHERS),
                 ('frame-clocks', FRAME_CLOCKS)],
        signals={})


def c_decide():
    return Contract(
        QF, 'QueueScheduling.decide_new_state',
        params={'cls': 'Class:QueueScheduling', 'task': 'Ref:Task', 'deps': 'Set[Ref:Task]', 'hard_deps': 'Set[Ref:Task]', 'env': 'Obj:Env'},
        returns='Opt[Enum:TaskStatus]',
        requires=['all(h in deps for h in hard_deps)', 'all(d.name != task.name for d in deps)',
                  'all(implies(n in env.present, env.end[n] is None or not isnan(env.end[n])) for n in Names)',
                  'all(implies(n in env.present, env.start[n] is None or not isnan(env.start[n])) for n in Names)',
                  # initial environments hold DONE / FAILED / SKIPPED / WAITING / PENDING entries only (all statuses)
                  ],
        modifies=['env.present', 'env.status', 'env.start', 'env.end'],
        ensures=[
            # C01: released only when every dependency is final
            ('C01-release-needs-final-deps', 'implies(result == TaskStatus.PENDING, all(d.name in old(env.present) and final(old(st(env, d))) for d in deps))'),
            # C02: never released past a failed / skipped hard dependency; skipped only for that reason
            ('C02-no-release-past-failed-hard-dep', 'implies(result == TaskStatus.PENDING, not any(bad(old(st(env, h))) for h in hard_deps))'),
            ('C02-skip-only-for-failed-hard-dep', 'implies(result == TaskStatus.SKIPPED, any(bad(old(st(env, h))) for h in hard_deps))'),
            ('C02-skip-when-deps-final', 'implies(old(st(env, task)) != TaskStatus.DONE and all(d.name in old(env.present) and final(old(st(env, d))) for d in deps), '
                                         '(result == TaskStatus.SKIPPED) == any(bad(old(st(env, h))) for h in hard_deps))'),
            ('C02-release-when-deps-final', 'implies(old(st(env, task)) != TaskStatus.DONE and all(d.name in old(env.present) and final(old(st(env, d))) for d in deps) '
                                            'and not any(bad(old(st(env, h))) for h in hard_deps), result == TaskStatus.PENDING)'),
            ('C02-wait-otherwise', 'implies(not all(d.name in old(env.present) and final(old(st(env, d))) for d in deps) and not any(d.name in old(env.present) and bad(old(st(env, h))) for h in hard_deps for d in deps if d is h), '
                                   'result == TaskStatus.WAITING or result is None or result == TaskStatus.PENDING or result == TaskStatus.SKIPPED') if False else
            ('C02-wait-while-a-dep-runs', 'implies(any(d.name not in old(env.present) or old(st(env, d)) == TaskStatus.PENDING for d in deps), result == TaskStatus.WAITING)'),
            # C04: a DONE task is kept only if it is up to date
            ('C04-kept-only-if-was-done', 'implies(result is None, old(st(env, task)) == TaskStatus.DONE)'),
            ('C04-kept-needs-final-deps', 'implies(result is None, all(d.name in old(env.present) and final(old(st(env, d))) for d in deps))'),
            ('C04-kept-is-newer-than-done-deps', 'implies(result is None, all(implies(old(st(env, d)) == TaskStatus.DONE, '
                                                 'end_of(env, d) is not None and start_of(env, task) is not None and end_of(env, d) <= start_of(env, task)) for d in deps))'),
            ('C04-kept-has-no-failed-hard-dep', 'implies(result is None, not any(bad(old(st(env, h))) for h in hard_deps))'),
            ('C04-kept-leaves-env-untouched', 'implies(result is None, same(env.present, old(env.present)) and same(env.status, old(env.status)) and same(env.start, old(env.start)) and same(env.end, old(env.end)))'),
            ('C04-up-to-date-is-kept', 'implies(old(st(env, task)) == TaskStatus.DONE and old(start_of(env, task)) is not None and all(d.name in old(env.present) and old(st(env, d)) == TaskStatus.DONE '
                                       'and old(end_of(env, d)) is not None and old(end_of(env, d)) <= old(start_of(env, task)) for d in deps), result is None)'),
            # bookkeeping: the returned state is the recorded state; nothing else is written
            ('new-status', 'implies(result is not None, task.name in env.present and same(some(env.status[task.name]), result))'),
            ('present-grows', 'all(implies(n in old(env.present), n in env.present) for n in Names)'),
            ('new-entries-have-no-clocks', 'all(implies(n in env.present and n not in old(env.present), env.start[n] is None and env.end[n] is None) for n in Names)'),
            ('frame-others', FRAME_OTHERS),
            ('frame-clocks', FRAME_CLOCKS)],
        signals={})


# ---------------------------------------------------------------------------------------
class QueueModel(ClassModel):
    '''queue.Queue as a ghost sequence of the items put so far (assumed contract: put appends, never blocks
    for an unbounded queue; get/task_done/join are used by the worker / execute_tasks units).'''
    name = 'Queue'
    fields = {'items': 'Seq[Ref:Task]'}

    def m_put(self, I, q, item):
        items = I.getfield(q, 'items')
        if item is None:
            I.trace.append(('put-sentinel',)) if hasattr(I, 'trace') else None
            return None
        new, _ = I.world.lib.mutate(I, items, 'append', [item])
        I.setfield(q, 'items', new)
        return None


class SchedModel(ClassModel):
    name = 'QueueScheduling'
    fields = {'queue': 'Obj:Queue', 'n_workers': 'Int'}


DISTINCT_NAMES = 'all(implies(i != j, tasks[i].name != tasks[j].name) for i in range(len(tasks)) for j in range(len(tasks)))'
CLOCKS_OK = ['all(implies(n in env.present, env.end[n] is None or not isnan(env.end[n])) for n in Names)',
             'all(implies(n in env.present, env.start[n] is None or not isnan(env.start[n])) for n in Names)']
RELEASED = ('all(implies(k >= len(old(queue_.items)), st(env, queue_.items[k]) == TaskStatus.PENDING '
            'and any(queue_.items[k] is tasks[i] for i in range({upto})) '
            'and all(d.name in env.present and final(st(env, d)) for d in full_graph.dependencies(queue_.items[k])) '
            'and not any(bad(st(env, h)) for h in hard_graph.dependencies(queue_.items[k]))) '
            'for k in range(len(queue_.items)))')
QUEUE_PREFIX = ('len(queue_.items) >= len(old(queue_.items)) and '
                'all(queue_.items[k] is old(queue_.items)[k] for k in range(len(old(queue_.items))))')
LEFT_WAITING = 'all(st(env, tasks_left[k]) == TaskStatus.WAITING and any(tasks_left[k] is tasks[i] for i in range({upto})) for k in range(len(tasks_left)))'
OUTSIDE_UNTOUCHED = ('all(implies(not any(tasks[i].name == n for i in range({upto})), (n in env.present) == (n in old(env.present)) '
                     'and same(env.status[n], old(env.status[n]))) for n in Names)')
CLOCKS_KEPT = 'all(implies(n in old(env.present), same(env.start[n], old(env.start[n])) and same(env.end[n], old(env.end[n]))) for n in Names)'
FINAL_STABLE = ('all(implies(n in old(env.present) and final(old(env.status[n])) and not any(tasks[i].name == n for i in range({upto})), '
                'n in env.present and same(env.status[n], old(env.status[n]))) for n in Names)')
# a task considered in this pass is no longer left as it was only if it was released, skipped, kept (None) or left waiting
DECIDED_ONCE = ('all(implies(i < {upto}, st(env, tasks[i]) == TaskStatus.PENDING or st(env, tasks[i]) == TaskStatus.SKIPPED '
                'or st(env, tasks[i]) == TaskStatus.WAITING or st(env, tasks[i]) == TaskStatus.DONE) for i in range(len(tasks)))')
QUEUED_ONCE = ('all(implies(k1 != k2 and k1 >= len(old(queue_.items)) and k2 >= len(old(queue_.items)), queue_.items[k1] is not queue_.items[k2]) '
               'for k1 in range(len(queue_.items)) for k2 in range(len(queue_.items)))')


# tasks come in topological order: a dependency of tasks[i] is not the name of a task considered at or after i
TOPO_ORDER = ('all(all(implies(j >= i, tasks[j].name != d.name) for j in range(len(tasks))) '
              'for i in range(len(tasks)) for d in full_graph.dependencies(tasks[i]))')


# ghost rank: position in the topological order computed by execute_tasks (contract of topological_sort)
RANKED = 'all(implies(i < j, tasks[i].rank < tasks[j].rank) for i in range(len(tasks)) for j in range(len(tasks)))'
DEPS_RANK_LOWER = 'all(all(d.rank < t.rank for d in full_graph.dependencies(t)) for t in tasks)'
# A-unique-names: distinct tasks of a job have distinct names (enforced by check_unique_task_names, C15)
UNIQUE_NAMES = ('all(all(implies(d.name == tasks[j].name, d is tasks[j]) for j in range(len(tasks))) for t in tasks for d in full_graph.dependencies(t))'
                ' and all(implies(tasks[i].name == tasks[j].name, i == j) for i in range(len(tasks)) for j in range(len(tasks)))')
LEFT_RANKED = ('all(implies(a < b, tasks_left[a].rank < tasks_left[b].rank) for a in range(len(tasks_left)) for b in range(len(tasks_left)))')


def c_enqueue():
    inv = [LEFT_RANKED, 'all(implies(i >= done, tasks_left[a].rank < tasks[i].rank) for a in range(len(tasks_left)) for i in range(len(tasks)))',
           'all(implies(n in old(env.present), n in env.present) for n in Names)', QUEUE_PREFIX, RELEASED.format(upto='done'), LEFT_WAITING.format(upto='done').replace('tasks_left', 'tasks_left'),
           OUTSIDE_UNTOUCHED.format(upto='done'), CLOCKS_KEPT,
           'all(implies(n in env.present, env.end[n] is None or not isnan(env.end[n])) for n in Names)',
           'all(implies(n in env.present, env.start[n] is None or not isnan(env.start[n])) for n in Names)',
           'all(implies(i >= done, (tasks[i].name in env.present) == (tasks[i].name in old(env.present)) and same(env.status[tasks[i].name], old(env.status[tasks[i].name]))) for i in range(len(tasks)))',
           'all(implies(k >= len(old(queue_.items)), any(queue_.items[k] is tasks[i] for i in range(done))) for k in range(len(queue_.items)))']
    return Contract(
        QF, 'QueueScheduling._enqueue',
        params={'self': 'Obj:QueueScheduling', 'tasks': 'Seq[Ref:Task]', 'full_graph': 'Obj:DepGraph', 'hard_graph': 'Obj:DepGraph', 'env': 'Obj:Env'},
        returns='Seq[Ref:Task]',
        requires=[RANKED, DEPS_RANK_LOWER, UNIQUE_NAMES,
                  'all(all(h in full_graph.dependencies(t) for h in hard_graph.dependencies(t)) for t in tasks)'] + CLOCKS_OK,
        ensures=[('queue-only-grows', QUEUE_PREFIX),
                 ('C01-queued-tasks-have-final-deps', RELEASED.format(upto='len(tasks)')),
                 ('left-are-waiting', LEFT_WAITING.format(upto='len(tasks)').replace('tasks_left', 'result')),
                 ('tasks-outside-the-pass-untouched', OUTSIDE_UNTOUCHED.format(upto='len(tasks)')),
                 ('clocks-kept', CLOCKS_KEPT),
                 ('left-keep-their-order', LEFT_RANKED.replace('tasks_left', 'result')),
                 ('present-grows', 'all(implies(n in old(env.present), n in env.present) for n in Names)')] + [(f'clocks-stay-comparable-{k}', e) for k, e in enumerate(CLOCKS_OK)],
        signals={},
        loops={0: LoopSpec('for task in tasks', inv,
                           vars={'tasks_left': 'Seq[Ref:Task]', 'n_tasks': 'Int', 'env.present': 'Set[Ref:Name]',
                                 'env.status': 'Fun[Ref:Name,Enum:TaskStatus]', 'env.start': 'Fun[Ref:Name,Opt[Num]]',
                                 'env.end': 'Fun[Ref:Name,Opt[Num]]', 'queue_.items': 'Seq[Ref:Task]'})})


def enqueue_setup(I, scope):
    '''ghost alias for the work queue so that contracts can name it'''
    scope.set('queue_', I.getfield(scope.lookup('self'), 'queue'))
