'''C09 -- slicing a dataset keeps exactly the selected cells together with their bin edges.

Functions under contract (valjean/eponine/dataset.py, re-read every run):
  Dataset._get_bins_slice, Dataset._get_bins_items, Dataset.__getitem__, Dataset.squeeze
Top-level postconditions come from the property statement; slice normalisation
(slice.indices, unit step) is the library contract norm_lo / norm_hi.
'''
import itertools
import z3

from pyvc import prop, solve
from pyvc.engine import Contract
from pyvc.values import SV, SObj, Undecided, INT
from pyvc.verify import verify_function
from pyvc.libspec import SArr
from .dataset_world import make_world, DS

ID = 'C09'
LEVEL = 'proof'
EXPLANATION = ('Contracts on the real slicing functions of Dataset, obligations generated from the AST of the working '
               'tree and discharged by z3 over linear integer arithmetic (all dimensions lengths, all unit-step slices); '
               'ranks 1..4 are a complete case split of the property domain. A native bounded enumeration runs as a '
               'labelled stand-in / conformance check and is never counted as proved.')
ASSUMPTIONS = [
    'A-numpy: a[slice] on a 1-d array selects slice.indices(len(a)) (unit step) and is a view; N-d basic slicing applies '
    'each slice to its own axis; squeeze removes exactly the axes of length 1',
    'Python ints are mathematical integers (exact)',
    'contract of Dataset.__init__ (type / shape / bins-count checks, shallow copy of bins) as modelled in '
    'contracts/dataset_world.py::DatasetModel.construct',
    'A-log: LOGGER calls dropped',
]
TRUSTED = ['z3 4.x/5.x unsat answers', 'CPython ast module', 'pyvc engine (symbolic executor, libspec encodings)']

MAXDIM = 4


def _names(k):
    return [f'b{d}' for d in range(k)]


def slice_contract():
    # Helper contract: the weakest one that carries the property through _get_bins_items.  Its caller hands it
    # a slice normalised by slice.indices (pre@call obligation there).  For stop == 0 (a selection that retains
    # no cell) only "0 or 1" is demanded, because only emptiness is claimed for empty selections.
    return Contract(
        DS, 'Dataset._get_bins_slice', params={'index': 'Slice'}, returns='Slice',
        requires=['index.start is not None and index.start >= 0', 'index.stop is not None and index.stop >= 0',
                  'index.step is None or index.step == 1'],
        ensures=[('start', 'result.start == index.start'),
                 ('step', 'result.step is None or result.step == 1'),
                 ('stop-shifted', 'implies(index.stop > 0, result.stop == index.stop + 1)'),
                 ('stop-zero', 'implies(index.stop == 0, result.stop == 0 or result.stop == 1)')],
        signals={})


def wf_requires(k, recv='self'):
    req = []
    for d in range(k):
        req.append(f"len({recv}.bins['b{d}']) == {recv}.shape[{d}] or len({recv}.bins['b{d}']) == {recv}.shape[{d}] + 1")
    return req


def bins_post(k, idx, res, recv='self'):
    '''property statement, per dimension: the bins of the result are exactly those that
    delimit (edges) or locate (centres) the retained cells, in the same order'''
    ens = []
    los = [f'norm_lo({idx(d)}.start, {recv}.shape[{d}])' for d in range(k)]
    his = [f'norm_hi({idx(d)}.stop, {recv}.shape[{d}])' for d in range(k)]
    # "for selections that retain no cell only the emptiness of the result is claimed"
    nonempty = ' and '.join(f'{his[d]} > {los[d]}' for d in range(k))
    for d in range(k):
        lo, hi = los[d], his[d]
        b = f"{recv}.bins['b{d}']"
        r = f"{res}['b{d}']"
        ens.append((f'edges-dim{d}',
                    f"implies({nonempty} and len({b}) == {recv}.shape[{d}] + 1, len({r}) == {hi} - {lo} + 1 and "
                    f"all(same({r}[j], {b}[{lo} + j]) for j in range({hi} - {lo} + 1)))"))
        ens.append((f'centres-dim{d}',
                    f"implies({nonempty} and len({b}) == {recv}.shape[{d}], len({r}) == {hi} - {lo} and "
                    f"all(same({r}[j], {b}[{lo} + j]) for j in range({hi} - {lo})))"))
        # every selection (empty ones too) yields bins the Dataset constructor accepts: the result exists
        cnt = f'max({hi} - {lo}, 0)'
        ens.append((f'accepted-dim{d}', f'len({r}) == 0 or len({r}) == {cnt} or len({r}) == {cnt} + 1'))
    return ens


def items_contract(k, tuple_index=True):
    idx = (lambda d: f'index[{d}]') if tuple_index else (lambda d: 'index')
    req = wf_requires(k)
    for d in range(k):
        req.append(f'{idx(d)}.step is None or {idx(d)}.step == 1')
    frame = []
    return Contract(
        DS, 'Dataset._get_bins_items',
        params={'self': 'Obj:Dataset', 'index': 'Tuple[' + ','.join(['Slice'] * k) + ']' if tuple_index else 'Slice'},
        requires=req, ensures=bins_post(k, idx, 'result'), signals={}, returns=_bins_factory(k),
        variant=f'rank{k}' + ('' if tuple_index else '-bare-slice'))


def getitem_contract(k, tuple_index=True):
    idx = (lambda d: f'index[{d}]') if tuple_index else (lambda d: 'index')
    req = wf_requires(k)
    for d in range(k):
        req.append(f'{idx(d)}.step is None or {idx(d)}.step == 1')
    ens = bins_post(k, idx, 'result.bins')
    ens.append(('value-is-numpy-slice', 'sliced_like(result.value, self.value, index)'))
    ens.append(('error-is-numpy-slice', 'sliced_like(result.error, self.error, index)'))
    ens.append(('name', 'same(result.name, self.name) and same(result.what, self.what)'))
    return Contract(
        DS, 'Dataset.__getitem__',
        params={'self': 'Obj:Dataset', 'index': 'Tuple[' + ','.join(['Slice'] * k) + ']' if tuple_index else 'Slice'},
        requires=req, ensures=ens, signals={}, variant=f'rank{k}' + ('' if tuple_index else '-bare-slice'))


def _bins_factory(k):
    def f(I, base):
        out = {}
        for d in range(k):
            a = I.world.lib.fresh_array(I, f'{base}_b{d}')
            a.shape = (SV(INT, a.n),)
            out[f'b{d}'] = a
        return out
    return f


def squeeze_contract(k):
    req = wf_requires(k) + [f'self.shape[{d}] >= 1' for d in range(k)]
    ens = []
    for d in range(k):
        ens.append((f'kept-dim{d}', f"implies(self.shape[{d}] != 1, 'b{d}' in result.bins and result.bins['b{d}'] is self.bins['b{d}'])"))
        ens.append((f'dropped-dim{d}', f"implies(self.shape[{d}] == 1, 'b{d}' not in result.bins)"))
    ens.append(('value-squeezed', 'squeezed_like(result.value, self.value) and squeezed_like(result.error, self.error)'))
    ens.append(('rank', 'len(result.bins) == result.value.ndim'))
    return Contract(DS, 'Dataset.squeeze', params={'self': 'Obj:Dataset'}, requires=req, ensures=ens, signals={}, variant=f'rank{k}')


def _world(k):
    w = make_world(ndim=k, bins_layout=_names(k))
    w.add(slice_contract())

    def sliced_like(I, r, base, index):
        sf = getattr(r, 'sliced_from', None) or ((getattr(r, 'view_of', (None,))[0], index) if getattr(r, 'view_of', None) else None)
        if sf is None:
            return False
        if sf[0] is not base:
            return False
        if isinstance(index, tuple):
            return isinstance(sf[1], tuple) and len(sf[1]) == len(index) and all(a is b for a, b in zip(sf[1], index))
        return True

    def squeezed_like(I, r, base):
        return isinstance(r, SArr) and r.buf == base.buf and r.elem is base.elem
    w.globals['sliced_like'] = sliced_like
    w.globals['squeezed_like'] = squeezed_like
    return w


# ---------------------------------------------------------------------------------------
def units(tier):
    u = ['slice']
    for k in range(1, MAXDIM + 1):
        u += [f'items_{k}', f'getitem_{k}', f'squeeze_{k}']
    u += ['items_1s', 'getitem_1s', 'bounded']
    return u


def _concretise(k, tuple_index):
    def f(model, res):
        scope, heap = res.inputs['scope'], res.inputs['heap']
        out = {'ndim': k, 'dims': [], 'nbins': [], 'slices': []}
        if 'self' in scope:
            ds = scope['self']
            fields = heap[ds.oid]['fields']
            shape = fields['value'].shape
            for d in range(k):
                out['dims'].append(solve.py_of(model, shape[d]))
                out['nbins'].append(model.eval(fields['bins'][f'b{d}'].n, model_completion=True).as_long())
        idx = scope['index']
        sl = idx if isinstance(idx, tuple) else (idx,)
        for s in sl:
            f_ = heap[s.oid]['fields']
            out['slices'].append([solve.py_of(model, f_['start']), solve.py_of(model, f_['stop'])])
        out['tuple_index'] = tuple_index
        return out
    return f


def replay(name, inp):
    '''native oracle written from the property statement'''
    import numpy as np
    from collections import OrderedDict
    from valjean.eponine.dataset import Dataset
    if 'dims' not in inp or not inp.get('dims'):
        # _get_bins_slice alone: evaluate its contract natively on the model's slice
        a, b = inp['slices'][0]
        r = Dataset._get_bins_slice(slice(a, b, inp.get('step')))
        ok = r.start == a and r.step in (None, 1) and ((b > 0 and r.stop == b + 1) or (b == 0 and r.stop in (0, 1)))
        return {'reproduced': not ok, 'observed': repr(r), 'expected': f'slice({a}, {b + 1 if b > 0 else "0 or 1"})'}
    dims = [int(d) for d in inp['dims']]
    if any(d < 0 or d > (1200 if len(dims) == 1 else 50) for d in dims):
        return {'reproduced': False, 'note': 'dimension out of replay range'}
    size = int(np.prod(dims)) if dims else 1
    value = np.arange(size, dtype=float).reshape(dims)
    error = value * 0.1
    bins = OrderedDict()
    for d, (n, nb) in enumerate(zip(dims, inp['nbins'])):
        bins[f'b{d}'] = np.arange(nb, dtype=float) * 10 + d
    try:
        ds = Dataset(value, error, bins=bins)
    except Exception as e:      # noqa
        return {'reproduced': False, 'note': f'input rejected by the constructor: {e!r}'}
    if name.endswith('squeeze') or '::Dataset.squeeze::' in name or inp.get('op') == 'squeeze':
        before = {k: v.copy() for k, v in ds.bins.items()}
        import logging
        lg = logging.getLogger('valjean')
        saved = (logging.root.manager.disable, lg.level, lg.propagate, list(lg.handlers))
        if inp.get('logging') == 'DEBUG':
            # the same call with debug messages switched on (and sent nowhere): what a method returns does not depend on the level of the logger
            logging.disable(logging.NOTSET)
            lg.setLevel(logging.DEBUG)
            lg.propagate = False
            lg.handlers = [logging.NullHandler()]
        try:
            r = ds.squeeze()
        except Exception as e:  # noqa
            return {'reproduced': True, 'observed': repr(e), 'expected': 'a squeezed dataset'}
        finally:
            logging.disable(saved[0])
            lg.setLevel(saved[1])
            lg.propagate = saved[2]
            lg.handlers = saved[3]
        exp = OrderedDict((k, before[k]) for d, k in enumerate(before) if dims[d] != 1)
        ok = list(r.bins) == list(exp) and all(np.array_equal(r.bins[k], exp[k]) for k in exp) \
            and r.value.shape == tuple(d for d in dims if d != 1) and np.array_equal(r.value, value.squeeze())
        return {'reproduced': not ok, 'observed': {k: v.tolist() for k, v in r.bins.items()}, 'expected': {k: v.tolist() for k, v in exp.items()}}
    # the same limits written another way select the same cells: numpy integers (limits computed with argmax / searchsorted), an explicit unit step
    how = inp.get('limits_written_as', 'int')
    conv = {'int': lambda x: x, 'np.int64': lambda x: None if x is None else np.int64(x), 'np.int32': lambda x: None if x is None else np.int32(x),
            'np.intp': lambda x: None if x is None else np.intp(x), 'explicit unit step': lambda x: x}[how]
    sl = tuple(slice(conv(a), conv(b), 1 if how == 'explicit unit step' else None) for a, b in inp['slices'])
    index = sl if inp.get('tuple_index', True) else sl[0]
    v0, b0 = value.copy(), {k: v.copy() for k, v in bins.items()}
    try:
        r = ds[index]
    except Exception as e:      # noqa
        return {'reproduced': True, 'observed': repr(e), 'expected': 'a sliced dataset'}
    exp_val = value[index]
    problems = []
    if not np.array_equal(r.value, exp_val) or not np.array_equal(r.error, error[index]):
        problems.append('value/error differ from the numpy slice')
    exp_bins = {}
    if exp_val.size > 0:
        for d, k in enumerate(bins):
            lo, hi, _ = sl[d].indices(dims[d])
            nb = len(bins[k])
            want = bins[k][lo:hi + 1] if nb == dims[d] + 1 else bins[k][lo:hi]
            exp_bins[k] = want.tolist()
            if not np.array_equal(r.bins[k], want):
                problems.append(f'bins {k}: got {r.bins[k].tolist()} want {want.tolist()}')
    if not np.array_equal(ds.value, v0) or any(not np.array_equal(ds.bins[k], b0[k]) for k in b0):
        problems.append('original modified')
    return {'reproduced': bool(problems), 'observed': problems or 'as expected', 'expected': exp_bins}


def bounded(tier, seed):
    '''labelled bounded stand-in: exhaustive for 1-d (n <= 3, start/stop in None,-5..5), sampled for 2-d'''
    import random
    rng = random.Random(seed)
    vals = [None] + list(range(-5, 6))
    fails, n, distinct = [], 0, set()
    samples = []
    for nd in (1, 2, 3):
        for edges in (True, False):
            for a in vals:
                for b in vals:
                    inp = {'ndim': 1, 'dims': [nd], 'nbins': [nd + 1 if edges else nd], 'slices': [[a, b]], 'tuple_index': False}
                    r = replay('bounded', inp)
                    n += 1
                    distinct.add((nd, edges, a, b))
                    if r['reproduced']:
                        fails.append({'input': inp, 'observed': r['observed'], 'expected': r['expected']})
    samples.append({'ndim': 1, 'dims': [3], 'nbins': [4], 'slices': [[-2, None]]})
    # long dimensions (beyond one byte / beyond CPython's cached small integers): a few slices on 255 .. 300 and 1000 cells
    for nd in (255, 256, 257, 258, 300, 1000):
        for edges in (True, False):
            for a, b in ((2, 5), (None, 3), (250, None), (-3, None), (100, 257), (-400, 2), (None, None), (256, 258)):
                inp = {'ndim': 1, 'dims': [nd], 'nbins': [nd + 1 if edges else nd], 'slices': [[a, b]], 'tuple_index': bool(a and a % 2)}
                r = replay('bounded', inp)
                n += 1
                distinct.add((nd, edges, a, b))
                if r['reproduced'] and len(fails) < 40:
                    fails.append({'input': inp, 'observed': r['observed'], 'expected': r['expected']})
    for how in ('np.int64', 'np.int32', 'np.intp', 'explicit unit step'):
        for nd in (1, 3):
            for edges in (True, False):
                for a in vals:
                    for b in vals:
                        for tup in (False, True):
                            inp = {'ndim': 1, 'dims': [nd], 'nbins': [nd + 1 if edges else nd], 'slices': [[a, b]], 'tuple_index': tup, 'limits_written_as': how}
                            r = replay('bounded', inp)
                            n += 1
                            distinct.add((nd, edges, a, b, tup, how))
                            if r['reproduced'] and len(fails) < 40:
                                fails.append({'input': inp, 'observed': r['observed'], 'expected': r['expected']})
    count2 = 400 if tier == 'quick' else 4000
    for _ in range(count2):
        dims = [rng.choice((1, 2, 3)), rng.choice((1, 2))]
        nb = [d + rng.choice((0, 1)) for d in dims]
        sl = [[rng.choice(vals), rng.choice(vals)] for _ in dims]
        inp = {'ndim': 2, 'dims': dims, 'nbins': nb, 'slices': sl, 'tuple_index': True, 'limits_written_as': rng.choice(('int', 'int', 'np.int64', 'explicit unit step'))}
        r = replay('bounded', inp)
        n += 1
        distinct.add((tuple(dims), tuple(nb), tuple(map(tuple, sl))))
        if r['reproduced']:
            fails.append({'input': inp, 'observed': r['observed'], 'expected': r['expected']})
    # squeeze: all shapes with dims in 1..3, rank <= 3
    for k in (1, 2, 3):
        for dims in itertools.product((1, 2, 3), repeat=k):
            for edges in itertools.product((0, 1), repeat=k):
                for level in (None, 'DEBUG'):
                    inp = {'ndim': k, 'dims': list(dims), 'nbins': [d + e for d, e in zip(dims, edges)], 'op': 'squeeze'}
                    if level:
                        inp['logging'] = level
                    r = replay('squeeze', inp)
                    n += 1
                    distinct.add(('sq', dims, edges, level))
                    if r['reproduced'] and len(fails) < 40:
                        fails.append({'input': inp, 'observed': r['observed'], 'expected': r['expected']})
    samples.append({'ndim': 2, 'dims': [1, 3], 'nbins': [2, 3], 'op': 'squeeze'})
    return {'name': 'slicing-and-squeeze-native', 'bound': '1-d: n<=3, start/stop in {None,-5..5}, edges|centres (exhaustive), 8 slices on dimensions of 255 .. 300 and 1000 cells, also with the limits written as numpy integers (int64 / int32 / intp) and with an explicit unit step; '
            f'2-d: {count2} seeded samples; squeeze: all shapes of rank<=3 with dims in 1..3 (exhaustive), with the logger at its default level and at DEBUG',
            'evaluations': n, 'distinct': len(distinct), 'failures': fails[:20], 'samples': samples}


def run_unit(unit, tier, seed, known):
    if unit == 'bounded':
        return {'bounded': [bounded(tier, seed)]}
    if unit == 'slice':
        w = _world(1)
        res = verify_function(w, slice_contract())
        return {'functions': [prop.discharge(res, tier, ID, _concretise(1, False), replay)]}
    kind, k = unit.split('_')
    tuple_index = not k.endswith('s')
    k = int(k.rstrip('s'))
    w = _world(k)
    if kind == 'items':
        c = items_contract(k, tuple_index)
    elif kind == 'getitem':
        c = getitem_contract(k, tuple_index)
        w.add(items_contract(k, tuple_index))
    else:
        c = squeeze_contract(k)
    res = verify_function(w, c)

    def rp(name, inp):
        if kind == 'squeeze':
            inp = dict(inp, op='squeeze')
            first = replay(name, inp)
            if first.get('reproduced'):
                return first
            # the counter-model does not say at which level the logger was: replay at DEBUG as well
            second = replay(name, dict(inp, logging='DEBUG'))
            if second.get('reproduced'):
                second['input_found'] = dict(inp, logging='DEBUG')
            return second if second.get('reproduced') else first
        return replay(name, inp)
    return {'functions': [prop.discharge(res, tier, ID, _concretise(k, tuple_index) if kind != 'squeeze' else _conc_squeeze(k), rp)]}


def _conc_squeeze(k):
    def f(model, res):
        scope, heap = res.inputs['scope'], res.inputs['heap']
        fields = heap[scope['self'].oid]['fields']
        shape = fields['value'].shape
        return {'ndim': k, 'dims': [solve.py_of(model, shape[d]) for d in range(k)],
                'nbins': [model.eval(fields['bins'][f'b{d}'].n, model_completion=True).as_long() for d in range(k)],
                'op': 'squeeze'}
    return f
