'''C14 -- persisted environments survive crashes: a bad file means not-done, not an abort.'''
from . import env_units as eu
from . import persist_native as pn

ID = 'C14'
LEVEL = 'proof'
EXPLANATION = ('Exceptional postconditions on the real Env.from_file (nothing escapes whatever open() / pickle.load() raise -- pickle.load is given its documented '
               'contract "signals any Exception subclass" -- and the result is None or an Env), Env.to_file (one open(path, "wb"), one dump of exactly the entry of '
               'the task or of the whole environment, environment untouched), Env.merge_done_tasks (exactly the DONE entries are merged; loop invariant) and '
               'read_env (only DONE entries are reported; loop invariant, from_file and merge_done_tasks used through their contracts) and write_env (per-entry trace contract: every entry with an output directory is written once, whatever its status, to output_dir/filename). Obligations generated '
               'from the AST and discharged by z3. Every byte prefix of every written file of 6 sample environments is the labelled bounded stand-in.')
ASSUMPTIONS = [
    'pickle.load signals any Exception subclass and otherwise returns an arbitrary object; pickle.dump does not raise on picklable payloads; '
    'load(dump(x)) == x for an intact file (round trip of the pickle library: assumed, exercised by the bounded unit only)',
    'open() signals OSError or returns a file; a crash while to_file runs leaves a byte prefix of the dump in the destination (the file is opened '
    'for writing, then written): decided for every prefix by the bounded unit',
    'A-env-entries: every entry of a persisted Env carries a status key',
    'Env entries are maps whose values are abstracted by parametricity (only status is inspected)',
    'the producers of output_dir (written path == read path) are not under a discharged contract here: bounded unit only',
    'A-log: LOGGER calls dropped',
]
TRUSTED = ['z3 unsat answers (cvc5 cross-check in the thorough tier)', 'CPython ast module', 'pyvc engine (symbolic executor, libspec encodings)']


# ---- RunCommand.execute: what was read is scheduled, and the WHOLE environment is written back once, under the same file name and format
RUNCMD = 'valjean/cambronne/commands/run.py'


def exec_world():
    from pyvc.verify import World, ClassModel
    from pyvc.values import SNamespace
    w = World()
    w.globals['LOGGER'] = SNamespace('LOGGER', dropped=True)
    for cname in ('RunCommand', 'Args', 'ConfigX', 'EnvX', 'Graph', 'TaskX'):
        w.class_models[cname] = type(cname, (ClassModel,), {'name': cname, 'fields': {}})(w)
    w.class_models['ConfigX'].m_query = lambda I, c, section, option: I.output_root
    w.class_models['ConfigX'].m___setitem__ = lambda I, c, k, v: None
    w.class_models['Graph'].m_nodes = lambda I, g: list(I.tasks)
    w.class_models['Graph'].m___len__ = lambda I, g: len(I.tasks)
    w.class_models['RunCommand'].m_task_diagnostics = lambda I, me, **kw: I.trace.append(('diagnostics', kw.get('env')))
    w.globals['vars'] = lambda I, o: {}
    w.globals['build_graphs'] = lambda I, args: (I.hard, I.soft)

    def read_env(I, *, root, names, filename, fmt):
        I.trace.append(('read_env', root, list(names), filename, fmt))
        return I.env_read

    def schedule(I, *, hard_graph, soft_graph, env, config=None, workers=1):
        I.trace.append(('schedule', hard_graph, soft_graph, env))
        # the scheduler updates the environment it is given and returns it (contract of Scheduler.schedule, sched_worker.py)
        return env

    def write_env(I, env, *, filename, fmt):
        I.trace.append(('write_env', env, filename, fmt))
    w.globals.update({'read_env': read_env, 'schedule': schedule, 'write_env': write_env})
    return w


def exec_setup(I, scope):
    from pyvc.values import STR, INT
    I.trace = []
    I.output_root = I.fresh(STR, 'output_root')
    I.tasks = [I.alloc('TaskX', {'name': I.fresh(STR, f'name{k}')}) for k in range(2)]
    I.hard, I.soft = I.alloc('Graph', {}), I.alloc('Graph', {})
    I.env_read = I.alloc('EnvX', {})
    I.fname, I.fmt = I.fresh(STR, 'env_filename'), I.fresh(STR, 'env_format')
    scope.set('self', I.alloc('RunCommand', {}))
    scope.set('args', I.alloc('Args', {'env_filename': I.fname, 'env_format': I.fmt, 'workers': I.fresh(INT, 'workers')}))
    scope.set('config', I.alloc('ConfigX', {}))


def c_execute():
    from pyvc.engine import Contract
    return Contract(RUNCMD, 'RunCommand.execute', params={}, signals={})


def exec_check(I, scope, outcome):
    L = f'{RUNCMD}::RunCommand.execute'
    p = I.path
    reads = [e for e in I.trace if e[0] == 'read_env']
    scheds = [e for e in I.trace if e[0] == 'schedule']
    writes = [e for e in I.trace if e[0] == 'write_env']
    ok_r = len(reads) == 1 and reads[0][1] is I.output_root and len(reads[0][2]) == len(I.tasks) and reads[0][3] is I.fname and reads[0][4] is I.fmt
    p.oblige(f'{L}::post::C14-the-environment-of-every-task-of-the-job-is-read-back-first', ok_r and outcome[0] == 'return', kind='post',
             meta={'expr': 'read_env(root=output-root, names=<all task names>, filename=args.env_filename, fmt=args.env_format) once'})
    ok_s = ok_r and len(scheds) == 1 and scheds[0][3] is I.env_read and scheds[0][1] is I.hard and scheds[0][2] is I.soft
    p.oblige(f'{L}::post::C14-what-was-read-is-what-is-scheduled', ok_s, kind='post', meta={'expr': 'schedule(hard_graph, soft_graph, env=<the environment read>)'})
    ok_w = ok_s and len(writes) == 1 and writes[0][1] is I.env_read and writes[0][2] is I.fname and writes[0][3] is I.fmt \
        and I.trace.index(writes[0]) > I.trace.index(scheds[0])
    p.oblige(f'{L}::post::C14-the-whole-environment-is-written-once-after-the-run-under-the-name-it-is-read-from', ok_w, kind='post',
             meta={'expr': 'write_env(<the environment scheduled, unfiltered>, filename=args.env_filename, fmt=args.env_format) once, after schedule()'})


def units(tier):
    return ['from_file', 'to_file', 'merge_done', 'read_env', 'write_env', 'run_command', 'build_graphs', 'native']


def run_unit(unit, tier, seed, known):
    import logging
    logging.disable(logging.CRITICAL)
    if unit == 'from_file':
        return eu.unit_from_file(tier, ID)
    if unit == 'to_file':
        return eu.unit_to_file(tier, ID)
    if unit == 'merge_done':
        return eu.unit_merge_done(tier, ID)
    if unit == 'read_env':
        return eu.unit_read_env(tier, ID)
    if unit == 'write_env':
        return eu.unit_write_env(tier, ID)
    if unit == 'run_command':
        from pyvc import prop
        from pyvc.verify import verify_function
        res = verify_function(exec_world(), c_execute(), setup=exec_setup, extra_check=exec_check)
        return {'functions': [prop.discharge(res, tier, ID, lambda m, r: {'note': 'see model text'}, eu._replay_persist)]}
    if unit == 'build_graphs':
        # run_command takes "the nodes of the hard graph" for "the tasks of the job": build_graphs puts every collected task into both graphs
        from . import graphs_units as gu
        return gu.unit_build_graphs(tier, ID, eu._replay_persist)
    if unit == 'native':
        return {'bounded': [pn.sweep(tier, seed)]}
    raise KeyError(unit)


def replay(name, inp):
    return eu._replay_persist(name, inp)
