'''C14 -- persisted environments survive crashes: a bad file means not-done, not an abort.'''
from . import env_units as eu
from . import persist_native as pn

ID = 'C14'
LEVEL = 'proof'
EXPLANATION = ('Exceptional postconditions on the real Env.from_file (nothing escapes whatever open() / pickle.load() raise -- pickle.load is given its documented '
               'contract "signals any Exception subclass" -- and the result is None or an Env), Env.to_file (one open(path, "wb"), one dump of exactly the entry of '
               'the task or of the whole environment, environment untouched), Env.merge_done_tasks (exactly the DONE entries are merged; loop invariant) and '
               'read_env (only DONE entries are reported; loop invariant, from_file and merge_done_tasks used through their contracts) and write_env (per-entry trace contract: every entry with an output directory is written once, whatever its status, to output_dir/filename). Obligations generated '
               'from the AST and discharged by z3. Every byte prefix of every written file of 6 sample environments is the labelled bounded stand-in.')
ASSUMPTIONS = [
    'pickle.load signals any Exception subclass and otherwise returns an arbitrary object; pickle.dump does not raise on picklable payloads; '
    'load(dump(x)) == x for an intact file (round trip of the pickle library: assumed, exercised by the bounded unit only)',
    'open() signals OSError or returns a file; a crash while to_file runs leaves a byte prefix of the dump in the destination (the file is opened '
    'for writing, then written): decided for every prefix by the bounded unit',
    'A-env-entries: every entry of a persisted Env carries a status key',
    'Env entries are maps whose values are abstracted by parametricity (only status is inspected)',
    'the producers of output_dir (written path == read path) are not under a discharged contract here: bounded unit only',
    'A-log: LOGGER calls dropped',
]
TRUSTED = ['z3 unsat answers (cvc5 cross-check in the thorough tier)', 'CPython ast module', 'pyvc engine (symbolic executor, libspec encodings)']


def units(tier):
    return ['from_file', 'to_file', 'merge_done', 'read_env', 'write_env', 'native']


def run_unit(unit, tier, seed, known):
    import logging
    logging.disable(logging.CRITICAL)
    if unit == 'from_file':
        return eu.unit_from_file(tier, ID)
    if unit == 'to_file':
        return eu.unit_to_file(tier, ID)
    if unit == 'merge_done':
        return eu.unit_merge_done(tier, ID)
    if unit == 'read_env':
        return eu.unit_read_env(tier, ID)
    if unit == 'write_env':
        return eu.unit_write_env(tier, ID)
    if unit == 'native':
        return {'bounded': [pn.sweep(tier, seed)]}
    raise KeyError(unit)


def replay(name, inp):
    return eu._replay_persist(name, inp)
