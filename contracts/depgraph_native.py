'''Native bounded stand-ins for C16 (labelled bounded, never counted as proved): edit histories of DepGraph / RList
against plain Python models, and the graph algorithms on all small graphs.'''
import contextlib
import itertools
import random
import signal


class Hang(Exception):
    pass


@contextlib.contextmanager
def time_limit(seconds):
    '''the real code must come back: a case that runs longer is reported as non-terminating (main thread only)'''
    def handler(signum, frame):
        raise Hang(f'did not terminate within {seconds} s')
    try:
        old = signal.signal(signal.SIGALRM, handler)
    except ValueError:          # not in the main thread: no limit
        yield
        return
    signal.setitimer(signal.ITIMER_REAL, seconds)
    try:
        yield
    finally:
        signal.setitimer(signal.ITIMER_REAL, 0)
        signal.signal(signal.SIGALRM, old)


class Node:
    '''hashable plain node'''
    def __init__(self, name):
        self.name = name

    def __repr__(self):
        return self.name


def view(g):
    '''(nodes, edges) of a real DepGraph through its public API'''
    nodes = list(g.nodes())
    deps = {n: set(map(id, g.dependencies(n))) for n in nodes}
    return nodes, deps


def check_against(g, ref_nodes, ref_edges, label):
    '''ref_nodes: list of node objects (order irrelevant); ref_edges: set of (a, b) pairs "a depends on b"'''
    probs = []
    nodes = list(g.nodes())
    if sorted(map(id, nodes)) != sorted(map(id, ref_nodes)):
        probs.append(f'{label}: nodes {nodes} != {ref_nodes}')
        return probs
    if len(g) != len(ref_nodes):
        probs.append(f'{label}: len {len(g)} != {len(ref_nodes)}')
    for n in ref_nodes:
        if n not in g:
            probs.append(f'{label}: {n} not in graph')
        want = {id(b) for (a, b) in ref_edges if a is n}
        got = list(g.dependencies(n))
        if len(got) != len(set(map(id, got))) or set(map(id, got)) != want:
            probs.append(f'{label}: dependencies({n}) = {got}, expected ids of {[b for (a, b) in ref_edges if a is n]}')
        wantd = {id(a) for (a, b) in ref_edges if b is n}
        gotd = list(g.dependees(n))
        if len(gotd) != len(set(map(id, gotd))) or set(map(id, gotd)) != wantd:
            probs.append(f'{label}: dependees({n}) = {gotd}, expected {[a for (a, b) in ref_edges if b is n]}')
    it = list(g)
    if sorted(id(k) for k, _ in it) != sorted(map(id, ref_nodes)):
        probs.append(f'{label}: iteration lists {it}')
    for k, vs in it:
        if set(map(id, vs)) != {id(b) for (a, b) in ref_edges if a is k}:
            probs.append(f'{label}: iteration gives {k}: {vs}')
    return probs


def histories(tier, seed):
    '''all edit histories of length <= L over 3 plain nodes (quick: L = 3 exhaustive + sampled L = 5; thorough: L = 4 exhaustive)'''
    from valjean.cosette.depgraph import DepGraph
    U = [Node('a'), Node('b'), Node('c')]
    ops = [('add_node', i) for i in range(3)] + [('remove_node', i) for i in range(3)] \
        + [('add_dependency', i, j) for i in range(3) for j in range(3) if i != j] \
        + [('remove_dependency', i, j) for i in range(3) for j in range(3) if i != j] + [('copy',), ('invert',), ('merge_self_copy',)] \
        + [('add_dependency', 0, 0), ('remove_dependency', 0, 0)] \
        + [('transitive_reduction',), ('transitive_closure',)]              # in place, on acyclic graphs (skipped when the graph has a cycle)
    # (a node may depend on itself in the mathematical graph)

    def _reach(edges_, a):
        seen, todo = [], [b for (x, b) in edges_ if x is a]
        while todo:
            y = todo.pop()
            if not any(y is z for z in seen):
                seen.append(y)
                todo.extend(b for (x, b) in edges_ if x is y)
        return seen

    def _acyclic(nodes_, edges_):
        return not any(any(y is a for y in _reach(edges_, a)) for a in nodes_)
    L = 3 if tier == 'quick' else 4
    seqs = list(itertools.product(ops, repeat=L))
    rng = random.Random(seed)
    extra = [tuple(rng.choice(ops) for _ in range(rng.choice((5, 6, 7)))) for _ in range(3000 if tier == 'quick' else 30000)]
    fails, n = [], 0
    for seq in itertools.chain(seqs, extra):
        n += 1
        g = DepGraph()
        nodes, edges = [], set()
        snapshots = []
        bad = None
        for k, op in enumerate(seq):
            try:
                if op[0] == 'add_node':
                    g.add_node(U[op[1]])
                    if not any(x is U[op[1]] for x in nodes):
                        nodes.append(U[op[1]])
                elif op[0] == 'remove_node':
                    g.remove_node(U[op[1]])
                    nodes = [x for x in nodes if x is not U[op[1]]]
                    edges = {(a, b) for (a, b) in edges if a is not U[op[1]] and b is not U[op[1]]}
                elif op[0] == 'add_dependency':
                    a, b = U[op[1]], U[op[2]]
                    g.add_dependency(a, on=b)
                    for x in (a, b):
                        if not any(y is x for y in nodes):
                            nodes.append(x)
                    edges.add((a, b))
                elif op[0] == 'remove_dependency':
                    a, b = U[op[1]], U[op[2]]
                    present = (a, b) in edges
                    try:
                        g.remove_dependency(a, on=b)
                        if not present:
                            bad = f'step {k} {op}: removing a missing edge did not raise'
                    except (KeyError, ValueError):
                        if present:
                            bad = f'step {k} {op}: removing an existing edge raised'
                    edges.discard((a, b))
                elif op[0] == 'copy':
                    snapshots.append((g.copy(), list(nodes), set(edges)))
                elif op[0] == 'invert':
                    inv = g.invert()
                    p = check_against(inv, nodes, {(b, a) for (a, b) in edges}, f'step {k} invert()')
                    if p:
                        bad = p[0]
                    snapshots.append((inv, list(nodes), {(b, a) for (a, b) in edges}))
                elif op[0] in ('transitive_reduction', 'transitive_closure'):
                    if _acyclic(nodes, edges):
                        getattr(g, op[0])()
                        if op[0] == 'transitive_closure':
                            edges = {(a, b) for a in nodes for b in _reach(edges, a)}
                        else:
                            # the unique reduction of a DAG: an edge stays unless its target is reachable through another direct successor
                            edges = {(a, b) for (a, b) in edges if not any(any(y is b for y in _reach(edges, c)) for (x, c) in edges if x is a and c is not b)}
                elif op[0] == 'merge_self_copy':
                    h = g + g.copy()
                    p = check_against(h, nodes, edges, f'step {k} g + g.copy()')
                    if p:
                        bad = p[0]
                    snapshots.append((h, list(nodes), set(edges)))
            except Exception as e:      # noqa
                bad = f'step {k} {op}: raised {e!r}'
            if bad is None:
                p = check_against(g, nodes, edges, f'after step {k} {op}')
                if p:
                    bad = p[0]
            if bad:
                break
        if bad is None:
            # copies and derived graphs are independent of the original (and of its later history)
            for j, (cp, ns, es) in enumerate(snapshots):
                p = check_against(cp, ns, es, f'copy/derived graph #{j} after the whole history')
                if p:
                    bad = p[0]
                    break
        if bad:
            fails.append({'input': {'history': [list(o) for o in seq]}, 'observed': bad, 'expected': 'the plain node/edge-set model'})
            if len(fails) >= 6:
                break
    # nodes that compare EQUAL without being the same object (two empty nested graphs -- DepGraph equality is isomorphism --, user objects with a value-based __eq__):
    # the graph tells them apart (nodes are identified by identity), also through merges, sums and copies
    class Twin:
        def __init__(self, label):
            self.label = label

        def __eq__(self, other):
            return isinstance(other, Twin)

        def __hash__(self):
            return 7

        def __repr__(self):
            return f'Twin({self.label})'
    for mk in (lambda k: Twin(k), lambda k: DepGraph()):
        for shape in ('same positions', 'crossed', 'one more node'):
            n += 1
            a1, b1, a2, b2, c2 = (mk(k) for k in range(5))
            g1 = DepGraph().add_dependency(a1, on=b1)
            g2 = DepGraph().add_dependency(a2, on=b2) if shape == 'same positions' else \
                (DepGraph().add_dependency(b2, on=a2) if shape == 'crossed' else DepGraph().add_dependency(a2, on=b2).add_dependency(a2, on=c2))
            e1 = [(a1, b1)]                 # lists of pairs: nested graphs are not hashable
            e2 = [(a2, b2)] if shape == 'same positions' else ([(b2, a2)] if shape == 'crossed' else [(a2, b2), (a2, c2)])
            n2 = [a2, b2] + ([c2] if shape == 'one more node' else [])
            bad = None
            try:
                summed = g1 + g2
                p1 = check_against(summed, [a1, b1] + n2, e1 + e2, 'g1 + g2 over look-alike nodes')
                p2 = check_against(g1, [a1, b1], e1, 'g1 after g1 + g2')
                merged = g1.copy().merge(g2)
                p3 = check_against(merged, [a1, b1] + n2, e1 + e2, 'g1.copy().merge(g2) over look-alike nodes')
                bad = (p1 or p2 or p3 or [None])[0]
            except Exception as e:      # noqa
                bad = f'raised {e!r}'
            if bad:
                fails.append({'input': {'look_alike_nodes': 'user objects with a value-based __eq__' if mk(0).__class__.__name__ == 'Twin' else 'distinct empty nested graphs', 'second_graph': shape},
                              'observed': bad, 'expected': 'the plain node/edge-set model (nodes told apart by identity)'})
    return {'name': 'depgraph-edit-histories', 'evaluations': n, 'distinct': n, 'failures': fails, 'exhaustive': False,
            'bound': f'all histories of length {L} over 3 nodes and 27 operations, self-dependency and in-place transitive reduction / closure (on acyclic graphs) included (exhaustive) + {len(extra)} seeded histories of length 5-7; '
                     'after every step nodes / dependencies / dependees / iteration / membership / len are compared with a plain model; '
                     'copies, inverses and merges are re-checked after the whole history; sums and merges of graphs whose nodes compare equal without being identical (6 layouts)',
            'samples': [[list(o) for o in seqs[len(seqs) // 2]]]}


def replay_history(inp):
    from valjean.cosette.depgraph import DepGraph   # noqa
    out = histories_one(inp['history'])
    return {'reproduced': bool(out), 'observed': out}


def histories_one(hist):
    # re-run a single history through the same code path
    from valjean.cosette.depgraph import DepGraph
    U = [Node('a'), Node('b'), Node('c')]
    g = DepGraph()
    nodes, edges = [], set()
    for k, op in enumerate(hist):
        op = tuple(op)
        try:
            if op[0] == 'add_node':
                g.add_node(U[op[1]])
                if not any(x is U[op[1]] for x in nodes):
                    nodes.append(U[op[1]])
            elif op[0] == 'remove_node':
                g.remove_node(U[op[1]])
                nodes = [x for x in nodes if x is not U[op[1]]]
                edges = {(a, b) for (a, b) in edges if a is not U[op[1]] and b is not U[op[1]]}
            elif op[0] == 'add_dependency':
                a, b = U[op[1]], U[op[2]]
                g.add_dependency(a, on=b)
                for x in (a, b):
                    if not any(y is x for y in nodes):
                        nodes.append(x)
                edges.add((a, b))
            elif op[0] == 'remove_dependency':
                a, b = U[op[1]], U[op[2]]
                try:
                    g.remove_dependency(a, on=b)
                except (KeyError, ValueError):
                    pass
                edges.discard((a, b))
        except Exception as e:      # noqa
            return f'step {k} {op}: raised {e!r}'
        p = check_against(g, nodes, edges, f'after step {k} {op}')
        if p:
            return p[0]
    return None


# ---------------------------------------------------------------------------------------
def _all_digraphs(n):
    pairs = [(i, j) for i in range(n) for j in range(n) if i != j]
    for mask in range(1 << len(pairs)):
        yield [p for k, p in enumerate(pairs) if mask >> k & 1]


def _reach(n, edges):
    r = [[False] * n for _ in range(n)]
    for i, j in edges:
        r[i][j] = True
    for k in range(n):
        for i in range(n):
            if r[i][k]:
                for j in range(n):
                    if r[k][j]:
                        r[i][j] = True
    return r


def algorithms(tier, seed):
    from valjean.cosette.depgraph import DepGraph, DepGraphError
    fails, cnt = [], 0
    nmax = 4
    rng = random.Random(seed)

    def graphs():
        for n in range(0, nmax + 1):
            yield from ((n, e) for e in _all_digraphs(n))
        if tier != 'quick':
            # all labelled DAGs on 5 nodes that respect some order of the labels + sampled cyclic ones
            pairs = [(i, j) for i in range(5) for j in range(i)]
            for mask in range(1 << len(pairs)):
                yield 5, [p for k, p in enumerate(pairs) if mask >> k & 1]
            allp = [(i, j) for i in range(5) for j in range(5) if i != j]
            for _ in range(20000):
                yield 5, [p for p in allp if rng.random() < 0.3]
    for n, edges in graphs():
        cnt += 1
        U = [Node(f'n{i}') for i in range(n)]
        d = {U[i]: [U[j] for (a, j) in edges if a == i] for i in range(n)}
        reach = _reach(n, edges)
        cyclic = any(reach[i][i] for i in range(n))
        bad = None
        g = DepGraph.from_dependency_dictionary(d)
        try:
            order = g.topological_sort()
            if cyclic:
                bad = 'topological_sort returned on a cyclic graph'
            else:
                pos = {id(x): k for k, x in enumerate(order)}
                if sorted(pos) != sorted(map(id, U)) or len(order) != n:
                    bad = f'topological_sort does not list every node once: {order}'
                elif any(pos[id(U[i])] < pos[id(U[j])] for i, j in edges):
                    bad = f'topological_sort lists a node before one of its dependencies: {order}'
        except DepGraphError:
            if not cyclic:
                bad = 'topological_sort raised on an acyclic graph'
        except Exception as e:      # noqa
            bad = f'topological_sort raised {e!r}'
        if bad is None and not cyclic:
            for what in ('transitive_reduction', 'transitive_closure'):
                h = DepGraph.from_dependency_dictionary(d)
                try:
                    getattr(h, what)()
                except Exception as e:      # noqa
                    bad = f'{what} raised {e!r}'
                    break
                idx = {id(x): k for k, x in enumerate(U)}
                he = [(idx[id(a)], idx[id(b)]) for a in U for b in h.dependencies(a)]
                if sorted(map(id, h.nodes())) != sorted(map(id, U)):
                    bad = f'{what} changed the nodes'
                    break
                if _reach(n, he) != reach:
                    bad = f'{what} changed reachability: edges {sorted(he)}'
                    break
                if what == 'transitive_closure':
                    want = sorted((i, j) for i in range(n) for j in range(n) if reach[i][j])
                else:
                    # unique minimal edge set of a DAG: edges not implied by a longer path
                    want = sorted((i, j) for (i, j) in set(edges) if not any(reach[i][k] and reach[k][j] for k in range(n)))
                if sorted(set(he)) != want or len(he) != len(set(he)):
                    bad = f'{what}: edges {sorted(he)}, expected {want}'
                    break
        if bad:
            fails.append({'input': {'n': n, 'edges': [list(e) for e in edges]}, 'observed': bad, 'expected': 'see C16 statement'})
            if len(fails) >= 6:
                break
    return {'name': 'graph-algorithms', 'evaluations': cnt, 'distinct': cnt, 'failures': fails, 'exhaustive': True,
            'bound': 'topological_sort / transitive_reduction / transitive_closure on ALL directed graphs with <= 4 nodes (4 165 graphs)'
                     + ('' if tier == 'quick' else ' + all 1 024 order-respecting DAGs and 20 000 sampled digraphs on 5 nodes'),
            'samples': [{'n': 3, 'edges': [[0, 1], [1, 2], [0, 2]]}]}


def replay_algorithms(inp):
    r = algorithms_one(inp['n'], [tuple(e) for e in inp['edges']])
    return {'reproduced': bool(r), 'observed': r}


def algorithms_one(n, edges):
    from valjean.cosette.depgraph import DepGraph, DepGraphError
    U = [Node(f'n{i}') for i in range(n)]
    d = {U[i]: [U[j] for (a, j) in edges if a == i] for i in range(n)}
    reach = _reach(n, edges)
    cyclic = any(reach[i][i] for i in range(n))
    g = DepGraph.from_dependency_dictionary(d)
    try:
        order = g.topological_sort()
        if cyclic:
            return 'topological_sort returned on a cyclic graph'
        pos = {id(x): k for k, x in enumerate(order)}
        if len(order) != n or any(pos[id(U[i])] < pos[id(U[j])] for i, j in edges):
            return f'bad order {order}'
    except DepGraphError:
        if not cyclic:
            return 'raised on an acyclic graph'
    for what in ('transitive_reduction', 'transitive_closure'):
        if cyclic:
            break
        h = DepGraph.from_dependency_dictionary(d)
        getattr(h, what)()
        idx = {id(x): k for k, x in enumerate(U)}
        he = [(idx[id(a)], idx[id(b)]) for a in U for b in h.dependencies(a)]
        if _reach(n, he) != reach:
            return f'{what} changed reachability'
        if what == 'transitive_closure':
            want = sorted((i, j) for i in range(n) for j in range(n) if reach[i][j])
        else:
            want = sorted((i, j) for (i, j) in set(edges) if not any(reach[i][k] and reach[k][j] for k in range(n)))
        if sorted(set(he)) != want:
            return f'{what}: edges {sorted(he)}, expected {want}'
    return None


# ---------------------------------------------------------------------------------------
def flatten_cases(tier, seed):
    '''outer DAGs of <= 3 items where one or two items are nested graphs of 0-2 plain nodes: flatten() keeps every ordering
    constraint between plain nodes and removes the nested graphs'''
    from valjean.cosette.depgraph import DepGraph
    fails, cnt = [], 0
    inner_shapes = [(0, []), (1, []), (2, []), (2, [(0, 1)])]
    for n in (1, 2, 3):
        pairs = [(i, j) for i in range(n) for j in range(i)]      # i depends on j (acyclic)
        for mask in range(1 << len(pairs)):
            edges = [p for k, p in enumerate(pairs) if mask >> k & 1]
            for nested in itertools.product((None, 0, 1, 2, 3), repeat=n):
                if all(x is None for x in nested):
                    continue
                cnt += 1
                bad = _flatten_one(n, edges, nested, inner_shapes)
                if bad:
                    fails.append({'input': {'n': n, 'edges': [list(e) for e in edges], 'nested': list(nested)}, 'observed': bad,
                                  'expected': 'plain nodes only, same ordering constraints (reachability) between plain nodes'})
                    if len(fails) >= 6:
                        return _fl(cnt, fails)
    # graphs nested twice: flattening a COPY gives the plain ordering and leaves the originals (outer, middle and inner graphs) as they were
    for inner_edge, mid_edge, out_edge in itertools.product((False, True), repeat=3):
        cnt += 1
        r0, r1, q0, p0 = Node('r0'), Node('r1'), Node('q0'), Node('p0')
        def build(a, b, edge):
            g = DepGraph()
            g.add_node(a)
            g.add_node(b)
            if edge:
                g.add_dependency(a, on=b)
            return g
        inner = build(r0, r1, inner_edge)
        middle = build(q0, inner, mid_edge)
        outer = build(p0, middle, out_edge)

        def shape(g):
            return (sorted(id(x) for x in g.nodes()), sorted((id(a), id(b)) for a in g.nodes() for b in g.dependencies(a)))
        before = {k: shape(g) for k, g in (('outer', outer), ('middle', middle), ('inner', inner))}
        bad = None
        try:
            with time_limit(5):
                c = outer.copy()
                c.flatten()
        except Exception as e:      # noqa
            bad = f'flatten of a copy raised {e!r}'
        if bad is None:
            plain = {id(x) for x in (r0, r1, q0, p0)}
            if {id(x) for x in c.nodes()} != plain:
                bad = f'the flattened copy holds {sorted(str(x) for x in c.nodes())}'
            else:
                want = set()
                if inner_edge:
                    want.add((id(r0), id(r1)))
                if mid_edge:
                    want |= {(id(q0), id(r0)), (id(q0), id(r1))}
                if out_edge:
                    want |= {(id(p0), id(q0)), (id(p0), id(r0)), (id(p0), id(r1))}
                got = {(id(a), id(b)) for a in c.nodes() for b in c.dependencies(a, recurse=True)}
                if not want <= got or any((b, a) in got for (a, b) in want):
                    bad = 'the flattened copy lost an ordering constraint between plain nodes'
        if bad is None:
            after = {k: shape(g) for k, g in (('outer', outer), ('middle', middle), ('inner', inner))}
            changed = [k for k in before if before[k] != after[k]]
            if changed:
                bad = f'flattening a copy modified the original graph(s): {changed} (copies share the nested graph objects)'
        if bad:
            fails.append({'input': {'nested_twice': True, 'inner_edge': inner_edge, 'middle_depends_on_inner': mid_edge, 'outer_depends_on_middle': out_edge}, 'observed': bad,
                          'expected': 'copies and derived graphs are independent of the original'})
    return _fl(cnt, fails)


def _fl(cnt, fails):
    return {'name': 'flatten-nested-graphs', 'evaluations': cnt, 'distinct': cnt, 'failures': fails, 'exhaustive': True,
            'bound': 'all outer DAGs with <= 3 items, each item a plain node or a nested graph of shape {empty, 1 node, 2 nodes, 2 nodes + edge}; '
                     'reachability between plain nodes compared with the reference flattening; 8 graphs nested twice: a copy is flattened, the originals (outer, middle, inner) must stay as they were', 'samples': [{'n': 3, 'edges': [[1, 0], [2, 1]], 'nested': [None, 0, None]}]}


def _flatten_one(n, edges, nested, inner_shapes):
    from valjean.cosette.depgraph import DepGraph
    items, members = [], []
    for i in range(n):
        if nested[i] is None:
            x = Node(f'p{i}')
            items.append(x)
            members.append([x])
        else:
            m, ie = inner_shapes[nested[i]]
            inner_nodes = [Node(f'g{i}_{k}') for k in range(m)]
            gi = DepGraph.from_dependency_dictionary({inner_nodes[a]: [inner_nodes[b] for (x, b) in ie if x == a] for a in range(m)}) if m else DepGraph()
            items.append(gi)
            members.append(inner_nodes)
            gi._verif_inner_edges = [(inner_nodes[a], inner_nodes[b]) for a, b in ie]
    outer = DepGraph()
    for it in items:
        outer.add_node(it)
    for (a, j) in edges:
        outer.add_dependency(items[a], on=items[j])
    # reference: ordering constraints between plain nodes
    plain = [x for ms in members for x in ms]
    idx = {id(x): k for k, x in enumerate(plain)}
    N = len(plain)
    # item-level reachability, then lift to members; inner edges added
    ir = _reach(n, edges)
    want = [[False] * N for _ in range(N)]
    for i in range(n):
        for j in range(n):
            if ir[i][j]:
                for a in members[i]:
                    for b in members[j]:
                        want[idx[id(a)]][idx[id(b)]] = True
    for i in range(n):
        if nested[i] is not None:
            for a, b in items[i]._verif_inner_edges:
                want[idx[id(a)]][idx[id(b)]] = True
    # close transitively
    we = [(a, b) for a in range(N) for b in range(N) if want[a][b]]
    want = _reach(N, we)
    try:
        with time_limit(5):
            outer.flatten()
    except Hang as e:
        return f'flatten {e}'
    except Exception as e:      # noqa
        return f'flatten raised {e!r}'
    got_nodes = list(outer.nodes())
    if any(isinstance(x, DepGraph) for x in got_nodes):
        return 'a nested graph is still a node after flatten()'
    if sorted(map(id, got_nodes)) != sorted(map(id, plain)):
        return f'nodes after flatten: {got_nodes}, expected {plain}'
    ge = [(idx[id(a)], idx[id(b)]) for a in plain for b in outer.dependencies(a)]
    got = _reach(N, ge)
    if got != want:
        miss = [(plain[a], plain[b]) for a in range(N) for b in range(N) if want[a][b] and not got[a][b]]
        extra = [(plain[a], plain[b]) for a in range(N) for b in range(N) if got[a][b] and not want[a][b]]
        return f'ordering constraints lost: {miss[:4]}; invented: {extra[:4]}'
    return None


def replay_flatten(inp):
    inner_shapes = [(0, []), (1, []), (2, []), (2, [(0, 1)])]
    r = _flatten_one(inp['n'], [tuple(e) for e in inp['edges']], tuple(inp['nested']), inner_shapes)
    return {'reproduced': bool(r), 'observed': r}


# ---------------------------------------------------------------------------------------
def rlist_histories(tier, seed):
    '''RList against a plain list: all histories of length <= L over values {x, y} (identity keys) and positions'''
    from valjean.cosette.rlist import RList
    vals = [Node('x'), Node('y')]
    ops = [('append', v) for v in range(2)] + [('insert', p, v) for p in (-1, 0, 1, 5) for v in range(2)] \
        + [('del', p) for p in (-1, 0, 1)] + [('set', p, v) for p in (-1, 0, 1) for v in range(2)] + [('swap', 0, 1), ('swap', 0, -1), ('copy',)]
    L = 3 if tier == 'quick' else 4
    fails, n = [], 0
    for seq in itertools.product(ops, repeat=L):
        n += 1
        r, ref = RList(), []
        copies = []
        bad = None
        for k, op in enumerate(seq):
            exc_r = exc_ref = None
            try:
                if op[0] == 'append':
                    ref.append(vals[op[1]])
                elif op[0] == 'insert':
                    ref.insert(op[1], vals[op[2]])
                elif op[0] == 'del':
                    del ref[op[1]]
                elif op[0] == 'set':
                    ref[op[1]] = vals[op[2]]
                elif op[0] == 'swap':
                    ref[op[1]], ref[op[2]] = ref[op[2]], ref[op[1]]
            except IndexError:
                exc_ref = True
            try:
                if op[0] == 'append':
                    r.append(vals[op[1]])
                elif op[0] == 'insert':
                    r.insert(op[1], vals[op[2]])
                elif op[0] == 'del':
                    del r[op[1]]
                elif op[0] == 'set':
                    r[op[1]] = vals[op[2]]
                elif op[0] == 'swap':
                    r.swap(op[1], op[2])
                elif op[0] == 'copy':
                    copies.append((r.copy(), list(ref)))
            except IndexError:
                exc_r = True
            except Exception as e:      # noqa
                bad = f'step {k} {op}: raised {e!r}'
                break
            if exc_r != exc_ref:
                if exc_ref:
                    bad = f'step {k} {op}: a list raises IndexError, RList did not'
                else:
                    bad = f'step {k} {op}: RList raised IndexError, a list does not'
                break
            if exc_ref:
                break       # both raised: RList gives no guarantee on its state after an error; stop this history
            bad = _rl_compare(r, ref, vals, f'after step {k} {op}')
            if bad:
                break
        if not bad:
            for cp, rf in copies:
                bad = _rl_compare(cp, rf, vals, 'copy after the whole history')
                if bad:
                    break
        if bad:
            fails.append({'input': {'rlist_history': [list(o) for o in seq]}, 'observed': bad, 'expected': 'behaves like a list with a consistent reverse index'})
            if len(fails) >= 6:
                break
    return {'name': 'rlist-edit-histories', 'evaluations': n, 'distinct': n, 'failures': fails, 'exhaustive': True,
            'bound': f'all histories of length {L} over {len(ops)} operations (append / insert / del / set / swap / copy on values {{x, y}}, positions incl. negative '
                     'and out of range); after every step content, membership, index(), get_index(), indices() are compared with a plain list',
            'samples': [[list(o) for o in (ops[0], ops[3], ops[10])]]}


def _rl_compare(r, ref, vals, label):
    if list(r) != ref or len(r) != len(ref):
        return f'{label}: content {list(r)} != {ref}'
    for v in vals:
        if (v in r) != any(x is v for x in ref):
            return f'{label}: membership of {v}'
        pos = [i for i, x in enumerate(ref) if x is v]
        if pos:
            if sorted(r.indices(v)) != pos:
                return f'{label}: indices({v}) = {r.indices(v)} != {pos}'
            if r.index(v) not in pos or r.get_index(v, None) not in pos:
                return f'{label}: index({v}) = {r.index(v)}'
            if len(pos) == 1 and r.index(v) != pos[0]:
                return f'{label}: index({v})'
        else:
            if r.get_index(v, 'none') != 'none':
                return f'{label}: get_index of a missing value'
            try:
                r.index(v)
                return f'{label}: index of a missing value did not raise'
            except ValueError:
                pass
    return None
