'''C12 -- a rendered report shows a failure mark exactly for the results that failed  (partial, level `other`).

Decided by contract: the highlight column of the statistics table (row k is highlighted iff its status is not the success
status, the total row is not, one flag per row), TableTemplate.__getitem__ (every highlight column is sliced with the
index that slices the data columns), RstTable.highlight (the hl role wraps exactly the flagged cells).
Decided by the bounded unit only: mark <=> failure over the finite dispatch kind x verbosity x representer, the detailed
rows, joining, and "valid reStructuredText whose cells read back" (docutils is the oracle).'''
import ast
import z3

from pyvc import prop, theory as th, extract
from pyvc.values import SV, SObj, SClass, SNamespace, SFunc, T, INT, BOOL, STR, NUM, Undecided, lift, coerce, zsort, seq_len, seq_arr
from pyvc.engine import Contract, LoopSpec
from pyvc.verify import World, ClassModel, verify_function
from pyvc.libspec import SArr
from . import marks_native as mn

ID = 'C12'
LEVEL = 'other'
TRF = 'valjean/javert/table_repr.py'
TPLF = 'valjean/javert/templates.py'
RSTF = 'valjean/javert/rst.py'
TASKF = 'valjean/cosette/task.py'

EXPLANATION = ('Partial. By contract (obligations from the AST, z3): for the equal, approx-equal and Student results the table builders (repr_equal, repr_approx_equal, '
               'repr_student; 1 and 2 compared datasets) return one table whose verdict column of each dataset is highlighted exactly on its failing bins, next to the value '
               '(error, t) columns of that dataset, no other cell highlighted, hence marked <=> not bool(result); the summaries carry the KO mark iff the result is false; the '
               'dispatchers repr_testresult{equal, approxequal, student, bonferroni, holmbonferroni} are marked <=> false at every non-silent verbosity (checked against the '
               'builders\' contracts, not their bodies); repr_bonferroni / repr_holm_bonferroni highlight the verdict cell of exactly the failing datasets; repr_testresultstats '
               'builds one highlight flag per row, true exactly for the statuses other than the success status; TableTemplate.__getitem__ slices every highlight column with '
               'the index applied to the data columns; RstTable.highlight wraps a cell in the hl role iff its flag is set; RstTable.format_columns._format_val sends exactly the '
               'floating cells through the number format and every other cell (integers, booleans, strings, objects) through str. By the labelled bounded unit: the same '
               'mark <=> failure over every result kind x 5 non-silent verbosities x {Table, FullTable} representers, the intermediate Student table, metadata / failed / '
               'statistics kinds, copies and joins, 2-d datasets in C and Fortran order, and the docutils read-back of every emitted table. No contract within reach expresses '
               '"is valid reStructuredText".')
ASSUMPTIONS = [
    'classification_counts is used through its contract: the statuses present (non-zero counts), success status first when present, and their counts (checked natively by C13/C18 units)',
    'TableTemplate.__init__ / TextTemplate.__init__ store their arguments (columns, headers, highlights; text) -- assumed constructor contracts; percent_fmt returns a string',
    'bool(result) and result.oracles() of the comparison results are used through their contracts (C05 / C06 / test.py): the conjunction over datasets and bins of the per-bin flags',
    'repr_bins returns one name and one column per dimension, each column of the size of the dataset (assumed; rank-1 model: one dimension); _student_heads returns the headers (strings only)',
    'repr_student_intermediate (np.where selections of the failing bins) is used by the Student dispatcher through an ASSUMED contract (marked <=> false); its rows are checked by the bounded unit only',
    'numpy basic slicing (A-numpy): a[index] on 1-d arrays selects slice.indices(len) and np.asarray(x) is x for an array; rank-1 arrays stand for every shape in the contracts '
    '(memory layouts and N-d joins: bounded unit only)',
    'the numpy scalar type hierarchy used by issubclass in _format_val is the documented one (float64 < floating < inexact < number; int64 < integer < number; bool_, str_, object_ < generic)',
    'docutils is the oracle of "valid reStructuredText" (bounded unit only); matplotlib / plot templates are outside this property',
    'FullTableRepresenter appends the table of the underlying test to a PASSING Bonferroni / Holm result, whose failing bins carry highlights: counted as known_seen_inputs by the '
    'bounded unit (the appended tables are those of another result)',
    'A-log: LOGGER calls dropped',
]
TRUSTED = ['z3 unsat answers', 'CPython ast module', 'pyvc engine (symbolic executor, libspec / libnumpy encodings)', 'docutils 0.18 (bounded unit)']

STATUS = T('Enum', 'TaskStatus')


# ---------------------------------------------------------------------------------------
class ResultModel(ClassModel):
    name = 'Result'
    fields = {'classify': 'DMap[Enum:TaskStatus,Seq[Ref:NF]]'}


def stats_world():
    w = World()
    w.enum('TaskStatus', TASKF)
    w.globals['LOGGER'] = SNamespace('LOGGER', dropped=True)
    w.class_models['Result'] = ResultModel(w)
    w.globals['TableTemplate'] = SClass('TableTemplate')
    w.construct_hooks['TableTemplate'] = lambda I, args, kwargs: I.alloc('TableTemplate', {'columns': tuple(args), 'headers': kwargs.get('headers'), 'highlights': kwargs.get('highlights')})
    name_of = th.func('enum_name', zsort(STATUS), z3.StringSort())
    # status.name
    orig_getattr = None

    def counts_contract(I, classify, status_first):
        '''contract of classification_counts (its frame is verified in C13/C18): the statuses with a non-zero count and those counts'''
        statuses = I.fresh(T('Seq', STATUS), 'statuses')
        counts = I.fresh(T('Seq', INT), 'counts')
        i, j = z3.Int(I.path.name('i')), z3.Int(I.path.name('j'))
        n = seq_len(statuses)
        I.path.assume(seq_len(counts) == n)
        I.path.assume(z3.ForAll([i], z3.Implies(z3.And(0 <= i, i < n), seq_arr(counts)[i] > 0)))
        I.path.assume(z3.ForAll([i, j], z3.Implies(z3.And(0 <= i, i < j, j < n), seq_arr(statuses)[i] != seq_arr(statuses)[j])))
        I.path.assume(z3.ForAll([i], z3.Implies(z3.And(0 < i, i < n), seq_arr(statuses)[i] != status_first.t)))
        return (statuses, counts)
    w.globals['classification_counts'] = counts_contract
    sumf = th.func('sum_int', zsort(T('Seq', INT)), z3.IntSort())
    lib_sum = w.lib.b_sum
    w.lib.b_sum = lambda I, xs, start=0: SV(INT, sumf(xs.t)) if isinstance(xs, SV) and xs.typ == T('Seq', INT) else lib_sum(I, xs, start)
    pf = th.func('percent_fmt', z3.IntSort(), z3.IntSort(), z3.StringSort())
    w.globals['percent_fmt'] = lambda I, a, b: SV(STR, pf((a if isinstance(a, SV) else lift(a)).t, (b if isinstance(b, SV) else lift(b)).t))
    lib_attr = w.lib.attr

    def attr(I, recv, name):
        if isinstance(recv, SV) and recv.typ == STATUS and name == 'name':
            return SV(STR, name_of(recv.t))
        return lib_attr(I, recv, name)
    w.lib.attr = attr
    return w


def stats_prefix(fn):
    '''the statements of repr_testresultstats up to and including the construction of the table'''
    body = extract.strip_doc(fn)
    out = []
    for st in body:
        out.append(st)
        if isinstance(st, ast.Assign) and isinstance(st.targets[0], ast.Name) and st.targets[0].id == 'table':
            return out
    raise Undecided('repr_testresultstats no longer assigns `table`')


def c_stats():
    return Contract(TRF, 'repr_testresultstats', params={'result': 'Obj:Result', 'status_ok': 'Enum:TaskStatus', 'label': 'Str'},
                    ensures=[('C12-one-flag-per-row', 'len(hl_column) == len(statuses) + 1 and len(statuses_txt) == len(hl_column) and len(percents) == len(hl_column)'),
                             ('C12-failing-statuses-are-exactly-the-highlighted-rows', 'all(hl_column[k] == (statuses[k] != status_ok) for k in range(len(statuses)))'),
                             ('C12-the-total-row-is-not-a-failure', 'not hl_column[len(statuses)]'),
                             ('C12-the-table-carries-these-columns-and-flags', 'same(table.columns[0], statuses_txt) and same(table.columns[1], percents) and '
                              'same(table.highlights[0], hl_column) and same(table.highlights[1], hl_column) and len(table.highlights) == 2'),
                             ('C12-a-failing-summary-has-a-highlighted-row', 'implies(any(statuses[k] != status_ok for k in range(len(statuses))), any(hl_column[k] for k in range(len(hl_column))))'),
                             ('C12-a-passing-summary-has-none', 'implies(not any(statuses[k] != status_ok for k in range(len(statuses))), not any(hl_column[k] for k in range(len(hl_column))))')],
                    signals={}, variant='table-part')


# ---------------------------------------------------------------------------------------
def getitem_world():
    from .dataset_world import make_world
    w = make_world(ndim=1, bins_layout=None)
    w.globals['TableTemplate'] = SClass('TableTemplate')

    class TT(ClassModel):
        name = 'TableTemplate'
        fields = {}
    w.class_models['TableTemplate'] = TT(w)
    w.construct_hooks['TableTemplate'] = lambda I, args, kwargs: I.alloc('TableTemplate', {'columns': tuple(args), 'headers': kwargs.get('headers'), 'units': kwargs.get('units'),
                                                                                            'highlights': kwargs.get('highlights')})
    w.globals['np'].members['asarray'] = lambda I, x: x

    def sliced_as(I, r, base, index):
        vo = getattr(r, 'view_of', None)
        return vo is not None and vo[0] is base
    w.globals['sliced_from'] = sliced_as
    return w


def getitem_setup(I, scope):
    L = I.world.lib
    n = z3.Int(I.path.name('nrows'))
    I.path.assume(n >= 0)
    cols = tuple(L.fresh_array(I, f'col{k}', n=n, shape=(SV(INT, n),)) for k in range(2))
    hls = [L.fresh_array(I, f'hl{k}', dtype='bool', n=n, shape=(SV(INT, n),)) for k in range(2)]
    me = I.alloc('TableTemplate', {'columns': cols, 'headers': ['a', 'b'], 'units': ['', ''], 'highlights': hls})
    scope.set('self', me)


def c_getitem():
    per = ' and '.join(f'sliced_from(result.columns[{k}], self.columns[{k}], index) and sliced_from(result.highlights[{k}], self.highlights[{k}], index) and '
                       f'result.highlights[{k}].size == result.columns[{k}].size' for k in range(2))
    same_rows = ' and '.join(f'all(same(result.highlights[{k}][j], self.highlights[{k}][norm_lo(index.start, self.columns[0].size) + j]) and '
                             f'same(result.columns[{k}][j], self.columns[{k}][norm_lo(index.start, self.columns[0].size) + j]) for j in range(result.columns[{k}].size))' for k in range(2))
    return Contract(TPLF, 'TableTemplate.__getitem__', params={'index': 'Slice'},
                    requires=['index.step is None or index.step == 1'],
                    ensures=[('C12-highlights-are-sliced-like-the-columns', per), ('C12-row-j-of-the-slice-keeps-its-own-flag-and-value', same_rows),
                             ('original-untouched', 'self.columns[0] is old(self.columns[0]) and self.highlights[1] is old(self.highlights[1])')],
                    signals={})


# ---------------------------------------------------------------------------------------
def highlight_world():
    w = World()
    w.globals['LOGGER'] = SNamespace('LOGGER', dropped=True)

    class RT(ClassModel):
        name = 'RstTable'
        fields = {}

        def c_HIGHLIGHT_ROLE(self, I, cls):
            return extract_role()
    w.class_models['RstTable'] = RT(w)
    return w


def extract_role():
    cls = extract.find(RSTF, 'RstTable')
    for st in cls.body:
        if isinstance(st, ast.Assign) and isinstance(st.targets[0], ast.Name) and st.targets[0].id == 'HIGHLIGHT_ROLE' and isinstance(st.value, ast.Constant):
            return st.value.value
    raise Undecided('RstTable.HIGHLIGHT_ROLE is no longer a constant')


def c_highlight():
    return Contract(RSTF, 'RstTable.highlight', params={'cls': 'Class:RstTable', 'val': 'Str', 'flag': 'Bool'}, returns='Str',
                    ensures=[('C12-flagged-cells-are-wrapped-in-the-hl-role', "implies(flag, same(result, ':hl:`' + stripped(val) + '`'))"),
                             ('C12-other-cells-are-left-alone', 'implies(not flag, same(result, val))')], signals={})


# ---------------------------------------------------------------------------------------
# RstTable.format_columns._format_val : which cells go through the number format
NUMPY_BASES = {'float64': ('floating', 'inexact', 'number', 'generic', 'float'), 'float32': ('floating', 'inexact', 'number', 'generic'),
               'complex128': ('complexfloating', 'inexact', 'number', 'generic', 'complex'),
               'int64': ('signedinteger', 'integer', 'number', 'generic'), 'int32': ('signedinteger', 'integer', 'number', 'generic'),
               'uint8': ('unsignedinteger', 'integer', 'number', 'generic'), 'bool_': ('generic',), 'str_': ('character', 'flexible', 'generic', 'str'),
               'object_': ('generic',)}
FLOATING = ('float64', 'float32', 'complex128')


def format_val_world(kind):
    w = World()
    w.globals['LOGGER'] = SNamespace('LOGGER', dropped=True)
    w.exc_parents['AttributeError'] = 'Exception'
    np_ns = SNamespace('np', {b: SClass(b) for bases in NUMPY_BASES.values() for b in bases})
    np_ns.members.update({k: SClass(k) for k in NUMPY_BASES})
    w.globals['np'] = np_ns
    w.globals['float'] = SClass('float')
    w.globals['int'] = SClass('int')
    w.globals['complex'] = SClass('complex')
    w.globals['bool'] = SClass('bool')

    def b_issubclass(I, c, bases):
        bases = bases if isinstance(bases, tuple) else (bases,)
        if not isinstance(c, SClass) or not all(isinstance(b, SClass) for b in bases):
            raise Undecided('issubclass of a non-class')
        return c.name in [b.name for b in bases] or any(b.name in NUMPY_BASES.get(c.name, ()) for b in bases)
    w.globals['issubclass'] = b_issubclass

    def b_str(I, x):
        I.trace.append(('str', x))
        return SV(STR, z3.String(I.path.name('str_of_cell')))
    w.globals['str'] = b_str

    class Fmt(ClassModel):
        name = 'FormatString'
        fields = {}

        def m_format(self, I, me, x):
            I.trace.append(('number-format', x))
            return SV(STR, z3.String(I.path.name('formatted_cell')))
    w.class_models['FormatString'] = Fmt(w)

    class Cell(ClassModel):
        name = 'Cell'
        fields = {}

        def p_dtype(self, I, recv):
            if kind is None:
                I.raise_('AttributeError')          # a plain Python object (no dtype)
            return I.alloc('DType', {'type': SClass(kind)})
    w.class_models['Cell'] = Cell(w)
    w.class_models['DType'] = type('DType', (ClassModel,), {'name': 'DType', 'fields': {}})(w)
    return w


def c_format_val(kind):
    return Contract(RSTF, 'RstTable.format_columns._format_val', params={}, returns='Str', signals={}, variant=f'{kind or "plain-python-object"}-cell')


def format_val_unit(kind, D):
    def setup(I, scope):
        I.trace = []
        I.cell = I.alloc('Cell', {})
        scope.set('val', I.cell)
        scope.set('num_fmt', I.alloc('FormatString', {}))

    def check(I, scope, outcome):
        L = f'{RSTF}::RstTable.format_columns._format_val[{kind or "plain-python-object"}-cell]'
        want = 'number-format' if kind in FLOATING else 'str'
        ok = outcome[0] == 'return' and len(I.trace) == 1 and I.trace[0][0] == want and I.trace[0][1] is I.cell
        I.path.oblige(f'{L}::post::C12-floating-cells-use-the-number-format-every-other-cell-reads-as-str', ok, kind='post',
                      meta={'expr': f'a {kind or "plain"} cell is rendered by exactly one call of {want}(cell): {[e[0] for e in I.trace]}'})
    return D(verify_function(format_val_world(kind), c_format_val(kind), setup=setup, extra_check=check))


# ---------------------------------------------------------------------------------------
# equal / approx-equal: the table marks exactly the failing bins; the dispatcher marks exactly the failing results
def cmp_world(nd, flags_field):
    from .dataset_world import make_world
    w = make_world(ndim=1, bins_layout=None)
    w.globals['LOGGER'] = SNamespace('LOGGER', dropped=True)
    w.globals['TableTemplate'] = SClass('TableTemplate')
    w.globals['TextTemplate'] = SClass('TextTemplate')
    w.construct_hooks['TableTemplate'] = lambda I, args, kwargs: I.alloc('TableTemplate', {'columns': tuple(args), 'headers': kwargs.get('headers'), 'highlights': kwargs.get('highlights')})
    w.construct_hooks['TextTemplate'] = lambda I, args, kwargs: I.alloc('TextTemplate', {'text': args[0]})
    w.enum('Verbosity', 'valjean/javert/verbosity.py')

    def repr_bins(I, ds):
        # assumed contract of repr_bins: one name and one column per dimension (rank-1 model: one dimension), columns of the size of the dataset
        v = I.getfield(ds, 'value')
        col = I.world.lib.fresh_array(I, 'bins_column', n=v.n, shape=v.shape, dtype='num')
        return ['x'], (col,)
    w.globals['repr_bins'] = repr_bins

    def from_iterable(I, parts):
        out = []
        for p in parts:
            out.extend(list(p))
        return out
    w.globals['chain'] = SNamespace('chain', {'from_iterable': from_iterable})

    class Res(ClassModel):
        name = 'CmpResult'
        fields = {}

        def m___bool__(self, I, me):
            # contract of TestResultEqual / TestResultApproxEqual.__bool__ (test.py): every bin of every compared dataset passes
            ts = [_bterm(I, I.world.lib.arr_reduce_bool(I, a, True)) for a in I.getfield(me, flags_field)]
            return SV(BOOL, z3.And(*ts))
    w.class_models['CmpResult'] = Res(w)
    for cname in ('Test', 'DS', 'TableTemplate', 'TextTemplate'):
        w.class_models[cname] = type(cname, (ClassModel,), {'name': cname, 'fields': {}})(w)

    def marked(I, templates):
        '''mark(templates) of DESIGN 4 C12: a text template holding the hl role, or a table template with a true highlight'''
        if templates is None:
            return False
        terms = []
        for t in templates:
            if t.cls == 'TextTemplate':
                txt = I.getfield(t, 'text')
                terms.append(z3.BoolVal(':hl:`' in txt) if isinstance(txt, str) else z3.Contains(txt.t, z3.StringVal(':hl:`')))
            else:
                for h in I.getfield(t, 'highlights'):
                    if isinstance(h, (list, tuple)):
                        terms.extend(_bterm(I, x) for x in h)
                    else:
                        terms.append(_bterm(I, I.world.lib.arr_reduce_bool(I, h, False)))
        return SV(BOOL, z3.Or(*terms)) if terms else False
    w.globals['marked'] = marked
    return w


def _bterm(I, v):
    from pyvc.engine import _b
    return _b(I.truth(v))


def cmp_setup(nd, flags_field, extra_fields=()):
    def setup(I, scope):
        L = I.world.lib
        n = z3.Int(I.path.name('nbins'))
        I.path.assume(n >= 1)
        shp = (SV(INT, n),)
        mk = lambda base, dt='num': L.fresh_array(I, base, n=n, shape=shp, dtype=dt)      # noqa
        dsref = I.alloc('DS', {'value': mk('ref_value'), 'error': mk('ref_error'), 'name': I.fresh(STR, 'ref_name')})
        dss = [I.alloc('DS', {'value': mk(f'ds{k}_value'), 'error': mk(f'ds{k}_error'), 'name': I.fresh(STR, f'ds{k}_name')}) for k in range(nd)]
        test = I.alloc('Test', {'dsref': dsref, 'datasets': dss})
        fields = {'test': test, flags_field: [mk(f'{flags_field}{k}', 'bool') for k in range(nd)]}
        for f in extra_fields:
            fields[f] = [mk(f'{f}{k}') for k in range(nd)]
        scope.set('result', I.alloc('CmpResult', fields))
    return setup


def c_cmp_table(fn, nd, flags_field):
    per = ' and '.join(f'all(same(returned[0].highlights[{2 + 2 * k + 1}][i], not result.{flags_field}[{k}][i]) for i in range(result.test.dsref.value.size)) and '
                       f'returned[0].columns[{2 + 2 * k}] is result.test.datasets[{k}].value and returned[0].columns[{2 + 2 * k + 1}] is result.{flags_field}[{k}]' for k in range(nd))
    others = ' and '.join(f'not any(returned[0].highlights[{j}][i] for i in range(returned[0].highlights[{j}].size))' for j in [0, 1] + [2 + 2 * k for k in range(nd)])
    sizes = ' and '.join(f'returned[0].highlights[{j}].size == result.test.dsref.value.size' for j in range(2 + 2 * nd))
    return Contract(TRF, fn, params={'result': 'None'}, ensures=[
        ('C12-one-table-with-a-highlight-column-per-data-column', f'len(returned) == 1 and len(returned[0].columns) == {2 + 2 * nd} and len(returned[0].highlights) == {2 + 2 * nd} and {sizes}'),
        ('C12-the-verdict-column-of-each-dataset-is-highlighted-exactly-on-its-failing-bins-next-to-the-values-of-those-bins', per),
        ('C12-no-other-cell-is-highlighted', others),
        ('C12-the-table-is-marked-iff-the-result-is-false', 'marked(returned) == (not bool(result))')], signals={}, variant=f'{nd}-datasets')


def c_cmp_summary(fn):
    return Contract(TRF, fn, params={'result': 'None'}, ensures=[('C12-the-summary-carries-the-KO-mark-iff-the-result-is-false', 'marked(returned) == (not bool(result))')],
                    signals={}, variant='1-datasets')


def c_cmp_dispatch(fn):
    return Contract(TRF, fn, params={'result': 'None', 'verbosity': 'Enum:Verbosity'},
                    ensures=[('C12-marked-iff-false-at-every-verbosity', 'marked(returned) == (not bool(result))')], signals={}, variant='1-datasets')


CMP = {'equal': ('repr_equal', 'repr_equal_summary', 'repr_testresultequal', 'equal'),
       'approx': ('repr_approx_equal', 'repr_approx_equal_summary', 'repr_testresultapproxequal', 'approx_equal')}


def cmp_units(kind, D):
    table, summary, dispatch, field = CMP[kind]
    out = []
    for nd in (1, 2):
        out.append(D(verify_function(cmp_world(nd, field), c_cmp_table(table, nd, field), setup=cmp_setup(nd, field))))
    out.append(D(verify_function(cmp_world(1, field), c_cmp_summary(summary), setup=cmp_setup(1, field))))
    w = cmp_world(1, field)
    ct, cs = c_cmp_table(table, 1, field), c_cmp_summary(summary)
    # the dispatcher is checked against the contracts of the two builders (marked(returned) == not bool(result)), not their bodies
    for c in (ct, cs):
        c.ensures = [e for e in c.ensures if 'marked' in e[1]]
        c.returns = lambda I, base: [I.alloc('TextTemplate', {'text': I.fresh(STR, base + '_text')})]
        w.add(c)
        w.globals[c.qual] = (lambda c: lambda I, *a, **kw: I.apply_contract(c, list(a), kw))(c)
    out.append(D(verify_function(w, c_cmp_dispatch(dispatch), setup=cmp_setup(1, field))))
    return out


# ---------------------------------------------------------------------------------------
# Student: full table, summary, dispatcher (the intermediate table -- np.where selections -- is used through an ASSUMED contract, decided by the bounded unit)
def student_world(nd):
    w = cmp_world(nd, 'oracle_arrays')
    w.class_models['CmpResult'].m_oracles = lambda I, me: list(I.getfield(me, 'oracle_arrays'))      # C05: oracles() are the per-bin decisions, __bool__ their conjunction
    w.globals['_student_heads'] = lambda I, test, names: ['head'] * (len(names) + 2 + 4 * nd)
    return w


def c_student_table(nd):
    base = 3      # one bins column, v(ref), sigma(ref)
    per = ' and '.join(f'all(same(returned[0].highlights[{base + 4 * k + 3}][i], not result.oracle_arrays[{k}][i]) for i in range(result.test.dsref.value.size)) and '
                       f'returned[0].columns[{base + 4 * k}] is result.test.datasets[{k}].value and returned[0].columns[{base + 4 * k + 1}] is result.test.datasets[{k}].error and '
                       f'returned[0].columns[{base + 4 * k + 2}] is result.tstud[{k}] and returned[0].columns[{base + 4 * k + 3}] is result.oracle_arrays[{k}]' for k in range(nd))
    quiet = [j for j in range(base + 4 * nd) if j < base or (j - base) % 4 != 3]
    others = ' and '.join(f'not any(returned[0].highlights[{j}][i] for i in range(returned[0].highlights[{j}].size))' for j in quiet)
    sizes = ' and '.join(f'returned[0].highlights[{j}].size == result.test.dsref.value.size' for j in range(base + 4 * nd))
    return Contract(TRF, 'repr_student', params={'result': 'None'}, ensures=[
        ('C12-one-table-with-a-highlight-column-per-data-column', f'len(returned) == 1 and len(returned[0].columns) == {base + 4 * nd} and len(returned[0].highlights) == {base + 4 * nd} and {sizes}'),
        ('C12-the-verdict-column-of-each-dataset-is-highlighted-exactly-on-its-failing-bins-next-to-value-error-and-t-of-those-bins', per),
        ('C12-no-other-cell-is-highlighted', others),
        ('C12-the-table-is-marked-iff-the-result-is-false', 'marked(returned) == (not bool(result))')], signals={}, variant=f'{nd}-datasets')


def student_units(D):
    out = []
    for nd in (1, 2):
        out.append(D(verify_function(student_world(nd), c_student_table(nd), setup=cmp_setup(nd, 'oracle_arrays', ('tstud',)))))
    out.append(D(verify_function(student_world(1), c_cmp_summary('repr_student_summary'), setup=cmp_setup(1, 'oracle_arrays', ('tstud',)))))
    w = student_world(1)
    for c in (c_student_table(1), c_cmp_summary('repr_student_summary'), c_cmp_summary('repr_student_intermediate')):
        c.ensures = [e for e in c.ensures if 'marked' in e[1]]
        c.returns = lambda I, base: [I.alloc('TextTemplate', {'text': I.fresh(STR, base + '_text')})]
        w.add(c)
        w.globals[c.qual] = (lambda c: lambda I, *a, **kw: I.apply_contract(c, list(a), kw))(c)
    cd = c_cmp_dispatch('repr_testresultstudent')
    cd.requires = ['verbosity != Verbosity.SILENT']
    out.append(D(verify_function(w, cd, setup=cmp_setup(1, 'oracle_arrays', ('tstud',)))))
    return out


# ---------------------------------------------------------------------------------------
# Bonferroni / Holm-Bonferroni: one row per compared dataset, the verdict cell of a failing dataset is highlighted
def corr_world(nd):
    w = cmp_world(nd, 'unused')
    fresh_num = lambda I, *a, **k: I.fresh(NUM, 'minimum')      # noqa
    w.globals['min'] = fresh_num
    w.globals['np'].members['amin'] = fresh_num

    class Corr(ClassModel):
        name = 'CorrResult'
        fields = {}

        def m_oracles(self, I, me):
            return list(I.getfield(me, 'oracle_list'))          # C06: one verdict per dataset, true iff nothing is flagged

        def m___bool__(self, I, me):
            from pyvc.engine import _b
            return SV(BOOL, z3.And(*[_b(I.truth(o)) for o in I.getfield(me, 'oracle_list')]))      # C06: true exactly when nothing is flagged

        def p_nb_rejected(self, I, me):
            return [I.fresh(INT, f'nb_rejected{k}') for k in range(nd)]
    w.class_models['CorrResult'] = Corr(w)
    for cname in ('CorrTest', 'First'):
        w.class_models[cname] = type(cname, (ClassModel,), {'name': cname, 'fields': {}})(w)
    return w


def corr_setup(nd):
    def setup(I, scope):
        base = cmp_setup(nd, 'unused')
        base(I, scope)
        inner = scope.lookup('result')
        test = I.alloc('CorrTest', {'ntests': I.fresh(INT, 'ntests'), 'alpha': I.fresh(NUM, 'alpha'), 'bonf_signi_level': I.fresh(NUM, 'level')})
        first = I.alloc('First', {'test': I.getfield(inner, 'test'), 'pvalue': [I.world.lib.fresh_array(I, f'pvalue{k}') for k in range(nd)]})
        scope.set('result', I.alloc('CorrResult', {'test': test, 'first_test_res': first, 'oracle_list': [I.fresh(BOOL, f'oracle{k}') for k in range(nd)],
                                                   'alphas_i': [I.world.lib.fresh_array(I, f'alphas{k}') for k in range(nd)]}))
    return setup


def c_corr_table(fn, nd):
    last = 'len(returned[0].highlights) - 1'
    per = ' and '.join(f'returned[0].highlights[{last}][{k}] == (not result.oracle_list[{k}]) and returned[0].columns[{last}][{k}] == result.oracle_list[{k}]' for k in range(nd))
    return Contract(TRF, fn, params={'result': 'None'}, ensures=[
        ('C12-one-row-per-compared-dataset-one-highlight-column-per-column',
         f'len(returned) == 1 and len(returned[0].highlights) == len(returned[0].columns) and all(len(returned[0].highlights[j]) == {nd} and len(returned[0].columns[j]) == {nd} '
         f'for j in range(len(returned[0].columns)))'),
        ('C12-the-verdict-cell-of-a-dataset-is-highlighted-iff-it-fails', per),
        ('C12-no-other-cell-is-highlighted', f'all(not returned[0].highlights[j][k] for j in range({last}) for k in range({nd}))'),
        ('C12-the-table-is-marked-iff-the-result-is-false', 'marked(returned) == (not bool(result))')], signals={}, variant=f'{nd}-datasets')


CORR = {'bonferroni': ('repr_bonferroni', 'repr_bonferroni_summary', 'repr_testresultbonferroni'),
        'holm': ('repr_holm_bonferroni', 'repr_holm_bonferroni_summary', 'repr_testresultholmbonferroni')}


def corr_units(kind, D):
    table, summary, dispatch = CORR[kind]
    out = []
    for nd in (1, 2):
        out.append(D(verify_function(corr_world(nd), c_corr_table(table, nd), setup=corr_setup(nd))))
    out.append(D(verify_function(corr_world(1), c_cmp_summary(summary), setup=corr_setup(1))))
    w = corr_world(1)
    for c in (c_corr_table(table, 1), c_cmp_summary(summary)):
        c.ensures = [e for e in c.ensures if 'marked' in e[1]]
        c.returns = lambda I, base: [I.alloc('TextTemplate', {'text': I.fresh(STR, base + '_text')})]
        w.add(c)
        w.globals[c.qual] = (lambda c: lambda I, *a, **kw: I.apply_contract(c, list(a), kw))(c)
    cd = c_cmp_dispatch(dispatch)
    cd.requires = ['verbosity != Verbosity.SILENT']
    out.append(D(verify_function(w, cd, setup=corr_setup(1))))
    return out


def units(tier):
    return ['stats_table', 'getitem', 'highlight', 'format_val', 'equal', 'approx', 'student', 'bonferroni', 'holm', 'formatted_init', 'native', 'native_two_reports']


def _replay_native(name, inp):
    out = mn.sweep('quick', 0)
    if out['failures']:
        fl = out['failures'][0]
        return {'reproduced': True, 'observed': fl['observed'], 'input_found': fl['input'], 'by': 'native failure-marks sweep'}
    return {'reproduced': False, 'note': 'native sweep found no failing input'}


def run_unit(unit, tier, seed, known):
    import logging
    import warnings
    logging.disable(logging.CRITICAL)
    warnings.filterwarnings('ignore')
    if unit == 'native':
        return {'bounded': [mn.sweep(tier, seed)]}
    if unit == 'formatted_init':
        # what is rendered is what is written: the formatted report owns its dictionaries (contract shared with C20)
        from . import C20
        from . import report_native as rnat

        def rp(name, inp):
            probs = rnat.two_reports_case('DEFAULT')
            return {'reproduced': bool(probs), 'observed': probs[:3], 'input_found': {'two_reports_one_formatter': True, 'verbosity': 'DEFAULT'}}
        return C20.unit_formatted_init(tier, ID, rp)
    if unit == 'native_two_reports':
        from . import report_native as rnat
        fails = []
        for vb in ('SUMMARY', 'DEFAULT', 'INTERMEDIATE', 'FULL_DETAILS'):
            probs = rnat.two_reports_case(vb)
            if probs:
                fails.append({'input': {'two_reports_one_formatter': True, 'verbosity': vb}, 'observed': probs[:3], 'expected': 'each written report carries the marks of its own results'})
        return {'bounded': [{'name': 'two-reports-one-formatter-native', 'evaluations': 4, 'distinct': 4, 'failures': fails, 'exhaustive': True,
                             'bound': 'one Rst object formats a report with a failing comparison, then a report without; both written afterwards; 4 verbosities',
                             'samples': [{'two_reports_one_formatter': True, 'verbosity': 'DEFAULT'}]}]}
    D = lambda res: {'functions': [prop.discharge(res, tier, ID, lambda m, r: {'note': 'see model text'}, _replay_native)]}      # noqa
    if unit == 'stats_table':
        return D(verify_function(stats_world(), c_stats(), body_of=stats_prefix))
    if unit == 'getitem':
        return D(verify_function(getitem_world(), c_getitem(), setup=getitem_setup))
    if unit in CMP:
        D1 = lambda res: prop.discharge(res, tier, ID, lambda m, r: {'note': 'see model text'}, _replay_native)      # noqa
        return {'functions': cmp_units(unit, D1)}
    if unit == 'student':
        D1 = lambda res: prop.discharge(res, tier, ID, lambda m, r: {'note': 'see model text'}, _replay_native)      # noqa
        return {'functions': student_units(D1)}
    if unit in CORR:
        D1 = lambda res: prop.discharge(res, tier, ID, lambda m, r: {'note': 'see model text'}, _replay_native)      # noqa
        return {'functions': corr_units(unit, D1)}
    if unit == 'format_val':
        D1 = lambda res: prop.discharge(res, tier, ID, lambda m, r: {'note': 'see model text'}, _replay_native)      # noqa
        return {'functions': [format_val_unit(kind, D1) for kind in list(NUMPY_BASES) + [None]]}
    if unit == 'highlight':
        w = highlight_world()
        f = th.func('str_strip', z3.StringSort(), z3.StringSort())
        w.globals['stripped'] = lambda I, s: SV(STR, f(s.t))
        return D(verify_function(w, c_highlight()))
    raise KeyError(unit)


def replay(name, inp):
    if inp and inp.get('two_reports_one_formatter'):
        from . import report_native as rnat
        return rnat.replay(inp)
    return _replay_native(name or '', inp)
