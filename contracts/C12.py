'''C12 -- a rendered report shows a failure mark exactly for the results that failed  (partial, level `other`).

Decided by contract: the highlight column of the statistics table (row k is highlighted iff its status is not the success
status, the total row is not, one flag per row), TableTemplate.__getitem__ (every highlight column is sliced with the
index that slices the data columns), RstTable.highlight (the hl role wraps exactly the flagged cells).
Decided by the bounded unit only: mark <=> failure over the finite dispatch kind x verbosity x representer, the detailed
rows, joining, and "valid reStructuredText whose cells read back" (docutils is the oracle).'''
import ast
import z3

from pyvc import prop, theory as th, extract
from pyvc.values import SV, SObj, SClass, SNamespace, SFunc, T, INT, BOOL, STR, NUM, Undecided, lift, coerce, zsort, seq_len, seq_arr
from pyvc.engine import Contract, LoopSpec
from pyvc.verify import World, ClassModel, verify_function
from pyvc.libspec import SArr
from . import marks_native as mn

ID = 'C12'
LEVEL = 'other'
TRF = 'valjean/javert/table_repr.py'
TPLF = 'valjean/javert/templates.py'
RSTF = 'valjean/javert/rst.py'
TASKF = 'valjean/cosette/task.py'

EXPLANATION = ('Partial. By contract (obligations from the AST, z3): repr_testresultstats builds one highlight flag per table row, true exactly for the statuses other than '
               'the success status, false for the total row; TableTemplate.__getitem__ slices every highlight column with the index applied to the data columns; '
               'RstTable.highlight wraps a cell in the hl role iff its flag is set. By the labelled bounded unit: mark <=> failure for every result kind with a built-in '
               'representation x 5 non-silent verbosities x {Table, FullTable} representers (the dispatch is a finite case split, enumerated completely on sampled data), '
               'highlighted rows == failing bins with their own values, joins, and docutils read-back of every emitted table. No contract within reach expresses '
               '"is valid reStructuredText".')
ASSUMPTIONS = [
    'classification_counts is used through its contract: the statuses present (non-zero counts), success status first when present, and their counts (checked natively by C13/C18 units)',
    'TableTemplate.__init__ stores its arguments (columns, headers, highlights) -- assumed constructor contract; percent_fmt returns a string',
    'numpy basic slicing (A-numpy): a[index] on 1-d arrays selects slice.indices(len) and np.asarray(x) is x for an array',
    'docutils is the oracle of "valid reStructuredText" (bounded unit only); matplotlib / plot templates are outside this property',
    'FullTableRepresenter appends the table of the underlying test to a PASSING Bonferroni / Holm result, whose failing bins carry highlights: by the property as stated this '
    'is a mark on a true result; not observed on the sampled data of the bounded unit (would be reported as a violation)',
    'A-log: LOGGER calls dropped',
]
TRUSTED = ['z3 unsat answers', 'CPython ast module', 'pyvc engine (symbolic executor, libspec / libnumpy encodings)', 'docutils 0.18 (bounded unit)']

STATUS = T('Enum', 'TaskStatus')


# ---------------------------------------------------------------------------------------
class ResultModel(ClassModel):
    name = 'Result'
    fields = {'classify': 'DMap[Enum:TaskStatus,Seq[Ref:NF]]'}


def stats_world():
    w = World()
    w.enum('TaskStatus', TASKF)
    w.globals['LOGGER'] = SNamespace('LOGGER', dropped=True)
    w.class_models['Result'] = ResultModel(w)
    w.globals['TableTemplate'] = SClass('TableTemplate')
    w.construct_hooks['TableTemplate'] = lambda I, args, kwargs: I.alloc('TableTemplate', {'columns': tuple(args), 'headers': kwargs.get('headers'), 'highlights': kwargs.get('highlights')})
    name_of = th.func('enum_name', zsort(STATUS), z3.StringSort())
    # status.name
    orig_getattr = None

    def counts_contract(I, classify, status_first):
        '''contract of classification_counts (its frame is verified in C13/C18): the statuses with a non-zero count and those counts'''
        statuses = I.fresh(T('Seq', STATUS), 'statuses')
        counts = I.fresh(T('Seq', INT), 'counts')
        i, j = z3.Int(I.path.name('i')), z3.Int(I.path.name('j'))
        n = seq_len(statuses)
        I.path.assume(seq_len(counts) == n)
        I.path.assume(z3.ForAll([i], z3.Implies(z3.And(0 <= i, i < n), seq_arr(counts)[i] > 0)))
        I.path.assume(z3.ForAll([i, j], z3.Implies(z3.And(0 <= i, i < j, j < n), seq_arr(statuses)[i] != seq_arr(statuses)[j])))
        I.path.assume(z3.ForAll([i], z3.Implies(z3.And(0 < i, i < n), seq_arr(statuses)[i] != status_first.t)))
        return (statuses, counts)
    w.globals['classification_counts'] = counts_contract
    sumf = th.func('sum_int', zsort(T('Seq', INT)), z3.IntSort())
    lib_sum = w.lib.b_sum
    w.lib.b_sum = lambda I, xs, start=0: SV(INT, sumf(xs.t)) if isinstance(xs, SV) and xs.typ == T('Seq', INT) else lib_sum(I, xs, start)
    pf = th.func('percent_fmt', z3.IntSort(), z3.IntSort(), z3.StringSort())
    w.globals['percent_fmt'] = lambda I, a, b: SV(STR, pf((a if isinstance(a, SV) else lift(a)).t, (b if isinstance(b, SV) else lift(b)).t))
    lib_attr = w.lib.attr

    def attr(I, recv, name):
        if isinstance(recv, SV) and recv.typ == STATUS and name == 'name':
            return SV(STR, name_of(recv.t))
        return lib_attr(I, recv, name)
    w.lib.attr = attr
    return w


def stats_prefix(fn):
    '''the statements of repr_testresultstats up to and including the construction of the table'''
    body = extract.strip_doc(fn)
    out = []
    for st in body:
        out.append(st)
        if isinstance(st, ast.Assign) and isinstance(st.targets[0], ast.Name) and st.targets[0].id == 'table':
            return out
    raise Undecided('repr_testresultstats no longer assigns `table`')


def c_stats():
    return Contract(TRF, 'repr_testresultstats', params={'result': 'Obj:Result', 'status_ok': 'Enum:TaskStatus', 'label': 'Str'},
                    ensures=[('C12-one-flag-per-row', 'len(hl_column) == len(statuses) + 1 and len(statuses_txt) == len(hl_column) and len(percents) == len(hl_column)'),
                             ('C12-failing-statuses-are-exactly-the-highlighted-rows', 'all(hl_column[k] == (statuses[k] != status_ok) for k in range(len(statuses)))'),
                             ('C12-the-total-row-is-not-a-failure', 'not hl_column[len(statuses)]'),
                             ('C12-the-table-carries-these-columns-and-flags', 'same(table.columns[0], statuses_txt) and same(table.columns[1], percents) and '
                              'same(table.highlights[0], hl_column) and same(table.highlights[1], hl_column) and len(table.highlights) == 2'),
                             ('C12-a-failing-summary-has-a-highlighted-row', 'implies(any(statuses[k] != status_ok for k in range(len(statuses))), any(hl_column[k] for k in range(len(hl_column))))'),
                             ('C12-a-passing-summary-has-none', 'implies(not any(statuses[k] != status_ok for k in range(len(statuses))), not any(hl_column[k] for k in range(len(hl_column))))')],
                    signals={}, variant='table-part')


# ---------------------------------------------------------------------------------------
def getitem_world():
    from .dataset_world import make_world
    w = make_world(ndim=1, bins_layout=None)
    w.globals['TableTemplate'] = SClass('TableTemplate')

    class TT(ClassModel):
        name = 'TableTemplate'
        fields = {}
    w.class_models['TableTemplate'] = TT(w)
    w.construct_hooks['TableTemplate'] = lambda I, args, kwargs: I.alloc('TableTemplate', {'columns': tuple(args), 'headers': kwargs.get('headers'), 'units': kwargs.get('units'),
                                                                                            'highlights': kwargs.get('highlights')})
    w.globals['np'].members['asarray'] = lambda I, x: x

    def sliced_as(I, r, base, index):
        vo = getattr(r, 'view_of', None)
        return vo is not None and vo[0] is base
    w.globals['sliced_from'] = sliced_as
    return w


def getitem_setup(I, scope):
    L = I.world.lib
    n = z3.Int(I.path.name('nrows'))
    I.path.assume(n >= 0)
    cols = tuple(L.fresh_array(I, f'col{k}', n=n, shape=(SV(INT, n),)) for k in range(2))
    hls = [L.fresh_array(I, f'hl{k}', dtype='bool', n=n, shape=(SV(INT, n),)) for k in range(2)]
    me = I.alloc('TableTemplate', {'columns': cols, 'headers': ['a', 'b'], 'units': ['', ''], 'highlights': hls})
    scope.set('self', me)


def c_getitem():
    per = ' and '.join(f'sliced_from(result.columns[{k}], self.columns[{k}], index) and sliced_from(result.highlights[{k}], self.highlights[{k}], index) and '
                       f'result.highlights[{k}].size == result.columns[{k}].size' for k in range(2))
    same_rows = ' and '.join(f'all(same(result.highlights[{k}][j], self.highlights[{k}][norm_lo(index.start, self.columns[0].size) + j]) and '
                             f'same(result.columns[{k}][j], self.columns[{k}][norm_lo(index.start, self.columns[0].size) + j]) for j in range(result.columns[{k}].size))' for k in range(2))
    return Contract(TPLF, 'TableTemplate.__getitem__', params={'index': 'Slice'},
                    requires=['index.step is None or index.step == 1'],
                    ensures=[('C12-highlights-are-sliced-like-the-columns', per), ('C12-row-j-of-the-slice-keeps-its-own-flag-and-value', same_rows),
                             ('original-untouched', 'self.columns[0] is old(self.columns[0]) and self.highlights[1] is old(self.highlights[1])')],
                    signals={})


# ---------------------------------------------------------------------------------------
def highlight_world():
    w = World()
    w.globals['LOGGER'] = SNamespace('LOGGER', dropped=True)

    class RT(ClassModel):
        name = 'RstTable'
        fields = {}

        def c_HIGHLIGHT_ROLE(self, I, cls):
            return extract_role()
    w.class_models['RstTable'] = RT(w)
    return w


def extract_role():
    cls = extract.find(RSTF, 'RstTable')
    for st in cls.body:
        if isinstance(st, ast.Assign) and isinstance(st.targets[0], ast.Name) and st.targets[0].id == 'HIGHLIGHT_ROLE' and isinstance(st.value, ast.Constant):
            return st.value.value
    raise Undecided('RstTable.HIGHLIGHT_ROLE is no longer a constant')


def c_highlight():
    return Contract(RSTF, 'RstTable.highlight', params={'cls': 'Class:RstTable', 'val': 'Str', 'flag': 'Bool'}, returns='Str',
                    ensures=[('C12-flagged-cells-are-wrapped-in-the-hl-role', "implies(flag, same(result, ':hl:`' + stripped(val) + '`'))"),
                             ('C12-other-cells-are-left-alone', 'implies(not flag, same(result, val))')], signals={})


def units(tier):
    return ['stats_table', 'getitem', 'highlight', 'native']


def _replay_native(name, inp):
    out = mn.sweep('quick', 0)
    if out['failures']:
        fl = out['failures'][0]
        return {'reproduced': True, 'observed': fl['observed'], 'input_found': fl['input'], 'by': 'native failure-marks sweep'}
    return {'reproduced': False, 'note': 'native sweep found no failing input'}


def run_unit(unit, tier, seed, known):
    import logging
    import warnings
    logging.disable(logging.CRITICAL)
    warnings.filterwarnings('ignore')
    if unit == 'native':
        return {'bounded': [mn.sweep(tier, seed)]}
    D = lambda res: {'functions': [prop.discharge(res, tier, ID, lambda m, r: {'note': 'see model text'}, _replay_native)]}      # noqa
    if unit == 'stats_table':
        return D(verify_function(stats_world(), c_stats(), body_of=stats_prefix))
    if unit == 'getitem':
        return D(verify_function(getitem_world(), c_getitem(), setup=getitem_setup))
    if unit == 'highlight':
        w = highlight_world()
        f = th.func('str_strip', z3.StringSort(), z3.StringSort())
        w.globals['stripped'] = lambda I, s: SV(STR, f(s.t))
        return D(verify_function(w, c_highlight()))
    raise KeyError(unit)


def replay(name, inp):
    return _replay_native(name or '', inp)
