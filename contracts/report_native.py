'''Native bounded stand-in for C20 (labelled bounded): write small report trees with the real Rst / FormattedRst and
inspect the files.'''
import itertools
import os
import re
import shutil
import tempfile

TITLES = ['a', 'b', 'a b', 'index', 'conf', 'figures', '', '.', 'a/b', 'v1.2 x']


def _results(k):
    '''k distinct simple results (an equality test each, tables only)'''
    import numpy as np
    from valjean.eponine.dataset import Dataset
    from valjean.gavroche.test import TestEqual
    out = []
    for i in range(k):
        d1 = Dataset(np.array([1.0 + i]), np.array([0.1]), name=f'ds{i}')
        d2 = Dataset(np.array([1.0 + i + (i % 2)]), np.array([0.1]), name=f'other{i}')
        out.append(TestEqual(d1, d2, name=f'test-{i}', description=f'description of test {i}').evaluate())
    return out


def _build(shape, counter):
    '''shape: (title, n_results, [children shapes]) -> TestReport; counter hands out distinct results'''
    from valjean.javert.test_report import TestReport
    title, nres, children = shape
    content = []
    for _ in range(nres):
        content.append(counter.pop())
    for ch in children:
        content.append(_build(ch, counter))
    return TestReport(title=title, text=f'text of {title!r}', content=content)


def _sections(shape, chain=()):
    '''[(chain of titles below the root, shape)] in pre-order; the root has chain ()'''
    out = [(chain, shape)]
    for ch in shape[2]:
        out.extend(_sections(ch, chain + (ch[0],)))
    return out


def _count_results(shape):
    return shape[1] + sum(_count_results(c) for c in shape[2])


def shapes(tier):
    ts = TITLES if tier != 'quick' else ['a', 'b', 'index', 'conf', '', '.', 'a/b', 'v1.2 x']
    out = []
    # depth 1: root with one or two children
    for t1 in ts:
        out.append(('Root', 1, [(t1, 1, [])]))
        for t2 in ts:
            out.append(('Root', 0, [(t1, 1, []), (t2, 1, [])]))
    # depth 2: nested children, repeated and nested titles
    for t1, t2 in itertools.product(['a', 'index', 'conf'] if tier == 'quick' else ts, repeat=2):
        out.append(('Root', 1, [(t1, 0, [(t2, 1, [])])]))
        out.append(('Root', 0, [(t1, 1, [(t2, 1, [])]), (t2, 1, [])]))
    # depth 3 and empty sections
    out.append(('Root', 0, [('a', 0, [('b', 0, [('c', 1, [])])]), ('empty', 0, [])]))
    out.append(('Root', 1, [('a', 1, [('a', 1, [('a', 1, [])])])]))
    return out


def one(shape):
    from valjean.javert.rst import Rst
    from valjean.javert.representation import Representation, TableRepresenter
    from valjean.fingerprint import fingerprint
    nres = _count_results(shape)
    results = _results(nres)
    fps = [fingerprint(r.test) for r in results]
    counter = list(reversed(results))
    report = _build(shape, counter)
    secs = _sections(shape)
    chains = [c for c, _ in secs]
    invalid = any(t in ('', '.', '..') or '/' in t or '\0' in t for c in chains for t in c)
    base = tempfile.mkdtemp(prefix='c20_', dir='/var/tmp')
    target = os.path.join(base, 'report')
    probs = []
    try:
        rst = Rst(Representation(TableRepresenter()))
        try:
            fmt = rst.format_report(report=report, author='me', version='1')
            fmt.write(target)
            raised = None
        except ValueError as e:
            raised = e
        except Exception as e:      # noqa
            return [f'raised {e!r}']
        if raised is not None:
            written = []
            for dp, dn, fn in os.walk(base):
                written.extend(os.path.relpath(os.path.join(dp, f), base) for f in fn)
            if written:
                probs.append(f'rejected ({raised}) after {len(written)} file(s) had been written: {sorted(written)[:4]}')
            if not invalid and len(set(chains)) == len(chains) and not any(c == ('index',) for c in chains):
                probs.append(f'a report with usable, distinct titles was rejected: {raised}')
            return probs
        if invalid:
            probs.append('a title that cannot be used as a file name was accepted')
        pages = {}
        for dp, dn, fn in os.walk(target):
            for f in fn:
                if f.endswith('.rst'):
                    pages[os.path.relpath(os.path.join(dp, f), target)] = open(os.path.join(dp, f)).read()
        outside = [f for f in os.listdir(base) if f != 'report']
        if outside:
            probs.append(f'files written outside the report directory: {outside}')
        # one page per section at the path given by its chain of titles
        for chain, sh in secs:
            rel = os.path.join(*chain) + '.rst' if chain else 'index.rst'
            if rel not in pages:
                probs.append(f'no page for section {chain!r} at {rel}')
                continue
            text = pages[rel]
            if sh[0] not in text.splitlines()[0:3] and chain != () and sh[0].strip():
                probs.append(f'page {rel} does not start with the title of section {chain!r} (overwritten by another section?)')
        if len(pages) != len(set(chains)) or len(set(chains)) != len(chains):
            if len(set(chains)) != len(chains):
                probs.append(f'{len(chains)} sections but {len(pages)} pages: sections sharing a chain of titles were merged into one page')
            elif len(pages) < len(chains):
                probs.append(f'{len(chains)} sections but only {len(pages)} pages: a page was overwritten')
        # every result exactly once, on the page of its section
        alltext = '\n'.join(pages.values())
        for k, fp in enumerate(fps):
            cnt = alltext.count(f'.. _anchor_{fp}:')
            if cnt != 1:
                probs.append(f'result test-{k} appears {cnt} time(s) in the written pages')
        pos = 0
        for chain, sh in secs:
            rel = os.path.join(*chain) + '.rst' if chain else 'index.rst'
            for _ in range(sh[1]):
                fp = fps[pos]
                pos += 1
                if rel in pages and f'.. _anchor_{fp}:' not in pages[rel] and len(set(chains)) == len(chains):
                    probs.append(f'result {pos - 1} of section {chain!r} is not on its page {rel}')
        # toctree entries point to written pages
        for rel, text in pages.items():
            in_toc = False
            for ln in text.splitlines():
                if ln.startswith('.. toctree::'):
                    in_toc = True
                    continue
                if in_toc and ln.startswith('    ') and not ln.strip().startswith(':'):
                    entry = ln.strip()
                    tgt = os.path.normpath(os.path.join(os.path.dirname(rel), entry + '.rst'))
                    if tgt not in pages:
                        probs.append(f'table of contents of {rel} points to {entry!r}, no such page')
            for m in re.finditer(r'\.\. image:: /figures/(\S+)', text):
                if not os.path.exists(os.path.join(target, 'figures', m.group(1))):
                    probs.append(f'{rel} references the figure {m.group(1)} which was not written')
    finally:
        shutil.rmtree(base, ignore_errors=True)
    return probs


def figures_case(n_workers):
    '''a report whose results have plots: every referenced figure exists after write(), sequential and parallel modes'''
    import numpy as np
    from valjean.eponine.dataset import Dataset
    from valjean.gavroche.stat_tests.student import TestStudent
    from valjean.javert.rst import Rst
    from valjean.javert.representation import Representation, FullRepresenter
    from valjean.javert.test_report import TestReport
    from collections import OrderedDict
    res = []
    for k in range(2):
        bins = OrderedDict([('e', np.arange(4, dtype=float))])
        d1 = Dataset(np.array([1.0, 2.0, 3.0]) + k, np.array([0.1, 0.1, 0.1]), bins=bins, name=f'ref{k}')
        d2 = Dataset(np.array([1.1, 2.5, 3.0]) + k, np.array([0.1, 0.1, 0.1]), bins=bins, name=f'other{k}')
        res.append(TestStudent(d1, d2, name=f'student-{k}').evaluate())
    report = TestReport(title='Root', content=[TestReport(title='plots', content=res)])
    base = tempfile.mkdtemp(prefix='c20f_', dir='/var/tmp')
    target = os.path.join(base, 'report')
    probs = []
    try:
        rst = Rst(Representation(FullRepresenter()), n_workers=n_workers)
        rst.format_report(report=report, author='me', version='1').write(target)
        refs = []
        for dp, dn, fn in os.walk(target):
            for f in fn:
                if f.endswith('.rst'):
                    refs += re.findall(r'\.\. image:: /figures/(\S+)', open(os.path.join(dp, f)).read())
        if not refs:
            probs.append('no figure referenced by a report whose results have plots')
        for r in sorted(set(refs)):
            p = os.path.join(target, 'figures', r)
            if not os.path.exists(p) or os.path.getsize(p) == 0:
                probs.append(f'the referenced figure {r} does not exist after write() (n_workers={n_workers})')
    except Exception as e:      # noqa
        probs.append(f'raised {e!r}')
    finally:
        shutil.rmtree(base, ignore_errors=True)
    return probs


def two_reports_case(verbosity_name):
    '''one Rst object formats two reports one after the other (the first holds a failing comparison, the second none); both are written AFTERWARDS: each written
    report holds its own sections, and a failure mark exactly for its own failing result'''
    import numpy as np
    from collections import OrderedDict
    from valjean.eponine.dataset import Dataset
    from valjean.gavroche.test import TestEqual
    from valjean.javert.representation import Representation, TableRepresenter
    from valjean.javert.rst import Rst
    from valjean.javert.test_report import TestReport
    from valjean.javert.verbosity import Verbosity
    bins = OrderedDict([('e', np.array([1., 2., 3., 4.]))])
    ref = Dataset(np.array([10., 20., 30., 40.]), np.full(4, 0.5), bins=bins, name='reference')
    bad = TestEqual(ref, Dataset(np.array([10., 21., 30., 44.]), np.full(4, 0.5), bins=bins, name='other'), name='bad', description='fails').evaluate()
    good = TestEqual(ref, Dataset(ref.value.copy(), ref.error.copy(), bins=bins, name='same'), name='good', description='succeeds').evaluate()
    first = TestReport(title='Nightly', text='nightly comparisons', content=[TestReport(title='only in the first', content=[bad])])
    second = TestReport(title='Reference', text='reference run', content=[TestReport(title='only in the second', content=[good])])
    base = tempfile.mkdtemp(prefix='c20t_', dir='/var/tmp')
    probs = []
    try:
        rst = Rst(Representation(TableRepresenter(), verbosity=getattr(Verbosity, verbosity_name)))
        f1 = rst.format_report(report=first, author='me', version='1')
        f2 = rst.format_report(report=second, author='me', version='1')
        texts = {}
        for lab, f in (('first', f1), ('second', f2)):
            target = os.path.join(base, lab)
            f.write(target)
            texts[lab] = '\n'.join(open(os.path.join(dp, fn)).read() for dp, _, fns in os.walk(target) for fn in sorted(fns) if fn.endswith('.rst'))
        if 'only in the first' not in texts['first'] or 'only in the second' in texts['first']:
            probs.append('the report formatted first, written after the second one was formatted, does not hold its own sections')
        if ':hl:`' not in texts['first']:
            probs.append('the report formatted first holds a failing comparison and is written without any failure mark')
        if 'only in the second' not in texts['second'] or ':hl:`' in texts['second']:
            probs.append('the report formatted second is not written as formatted')
    except Exception as e:      # noqa
        probs.append(f'raised {e!r}')
    finally:
        shutil.rmtree(base, ignore_errors=True)
    return probs


def namesake_results_case():
    '''one section holding several results whose TESTS share class, name and description (tests created in a loop with one name, external tests without a name): every
    result is on the page of the section'''
    import numpy as np
    from collections import OrderedDict
    from valjean.eponine.dataset import Dataset
    from valjean.gavroche.test import TestEqual
    from valjean.javert.representation import Representation, TableRepresenter
    from valjean.javert.rst import Rst
    from valjean.javert.test_report import TestReport
    from valjean.javert.verbosity import Verbosity
    bins = OrderedDict([('e', np.array([1., 2., 3.]))])
    res = []
    for k, marker in enumerate(('alphaset', 'betaset', 'gammaset')):
        ref = Dataset(np.array([10., 20.]) + k, np.full(2, 0.5), bins=bins, name='ref_' + marker)
        oth = Dataset(np.array([10., 21.]) + k, np.full(2, 0.5), bins=bins, name=marker)
        res.append(TestEqual(ref, oth, name='comparison', description='same name and description').evaluate())
    # external results (a template supplied by the user): the test is only a name and a description
    from valjean.javert.test_external import TestExternal
    from valjean.javert.templates import TextTemplate
    for marker in ('deltaset', 'epsilonset'):
        res.append(TestExternal(TextTemplate(marker + ' was checked by hand\n'), name='external check', description='', success=True).evaluate())
    report = TestReport(title='Root', content=[TestReport(title='namesakes', content=res)])
    base = tempfile.mkdtemp(prefix='c20n_', dir='/var/tmp')
    probs = []
    try:
        from valjean.javert.representation import FullRepresenter      # (external templates are rendered by the full representer)
        Rst(Representation(FullRepresenter(), verbosity=Verbosity.FULL_DETAILS)).format_report(report=report, author='me', version='1').write(os.path.join(base, 'r'))
        text = '\n'.join(open(os.path.join(dp, fn)).read() for dp, _, fns in os.walk(os.path.join(base, 'r')) for fn in sorted(fns) if fn.endswith('.rst'))
        for marker in ('alphaset', 'betaset', 'gammaset', 'deltaset', 'epsilonset'):
            if marker not in text:
                probs.append(f'the result comparing {marker!r} is not on any page of the report (results of tests named alike in one section)')
    except Exception as e:      # noqa
        probs.append(f'raised {e!r}')
    finally:
        shutil.rmtree(base, ignore_errors=True)
    return probs


def sweep(tier, seed, known=()):
    fails, n = [], 0
    n += 1
    probs = namesake_results_case()
    if probs:
        fails.append({'input': {'namesake_results': True}, 'observed': probs[:3], 'expected': 'every result of the report is on the page of its section'})
    for vb in ('SUMMARY', 'DEFAULT', 'FULL_DETAILS'):
        n += 1
        probs = two_reports_case(vb)
        if probs:
            fails.append({'input': {'two_reports_one_formatter': True, 'verbosity': vb}, 'observed': probs[:3], 'expected': 'each written report is the report that was formatted'})
    for nw in (None, 2):
        n += 1
        probs = figures_case(nw)
        if probs:
            fails.append({'input': {'figures': True, 'n_workers': nw}, 'observed': probs[:3], 'expected': 'every referenced figure exists'})
    for shape in shapes(tier):
        n += 1
        probs = one(shape)
        if probs:
            fails.append({'input': {'report': _show(shape)}, 'observed': probs[:3], 'expected': 'C20 oracle'})
    return {'name': 'written-report-native', 'evaluations': n, 'distinct': n, 'failures': fails, 'exhaustive': True,
            'bound': f'report trees of depth <= 3 over titles {TITLES if tier != "quick" else "a, b, index, conf, empty, ., a/b, v1.2 x"} (one and two children, nested, repeated, '
                     'empty sections), one result per marked section; files inspected after FormattedRst.write; one report with plots written sequentially and with 2 worker processes; two reports formatted by one Rst object and written afterwards (3 verbosities); three results of tests named alike in one section',
            'samples': [_show(('Root', 0, [('a', 1, []), ('index', 1, [])]))]}


def _show(shape):
    return {'title': shape[0], 'results': shape[1], 'sections': [_show(c) for c in shape[2]]}


def _unshow(d):
    return (d['title'], d['results'], [_unshow(c) for c in d['sections']])


def replay(inp):
    if inp.get('two_reports_one_formatter'):
        probs = two_reports_case(inp.get('verbosity', 'DEFAULT'))
        return {'reproduced': bool(probs), 'observed': probs}
    if inp.get('namesake_results'):
        probs = namesake_results_case()
        return {'reproduced': bool(probs), 'observed': probs}
    if inp.get('figures'):
        probs = figures_case(inp.get('n_workers'))
        return {'reproduced': bool(probs), 'observed': probs}
    probs = one(_unshow(inp['report']))
    return {'reproduced': bool(probs), 'observed': probs}
