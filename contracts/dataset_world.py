'''World shared by the contracts on valjean/eponine/dataset.py (C05, C07, C08, C09).'''
import z3

from pyvc import theory as th
from pyvc.values import SV, SObj, SClass, SNamespace, SFunc, T, INT, BOOL, NUM, Undecided, lift
from pyvc.engine import Contract, LoopSpec, _parse
from pyvc.verify import World, ClassModel
from pyvc.libspec import SArr
import pyvc.libnumpy  # noqa: F401  (installs the numpy part of the library)
import ast

DS = 'valjean/eponine/dataset.py'

SPEC_DEFS = '''
def norm_lo(start, n):
    return 0 if start is None else (max(start + n, 0) if start < 0 else min(start, n))

def norm_hi(stop, n):
    return n if stop is None else (max(stop + n, 0) if stop < 0 else min(stop, n))
'''


class DatasetModel(ClassModel):
    '''Dataset as a record.  The constructor model is the *contract* of Dataset.__init__
    (verified against the real __init__ by its own unit where a property needs it).'''
    name = 'Dataset'

    def __init__(self, world, ndim=None, bins_layout=None, scalar=False, int_bins=False):
        super().__init__(world)
        self.ndim = ndim
        self.bins_layout = bins_layout      # list of bin names or None (no bins)
        self.scalar = scalar

    def fresh(self, I, base):
        L = self.world.lib
        if self.scalar:
            value = L.fresh_array(I, base + '_value', scalar=True)
            error = L.fresh_array(I, base + '_error', scalar=True)
        else:
            if self.ndim is not None:
                shape = tuple(I.fresh(INT, f'{base}_dim{d}') for d in range(self.ndim))
                for d in shape:
                    I.path.assume(d.t >= 0)
                n = z3.Int(I.path.name(base + '_n'))
                I.path.assume(n >= 0)
                if self.ndim == 1:
                    I.path.assume(n == shape[0].t)
            else:
                shape = None
                n = z3.Int(I.path.name(base + '_n'))
                I.path.assume(n >= 0)
            value = L.fresh_array(I, base + '_value', n=n, shape=shape)
            error = L.fresh_array(I, base + '_error', n=n, shape=shape)
        bins = {}
        for k in (self.bins_layout or []):
            b = L.fresh_array(I, f'{base}_bins_{k}')
            b.shape = (SV(INT, b.n),)
            bins[k] = b
        return I.alloc('Dataset', {'value': value, 'error': error, 'bins': bins,
                                   'name': I.fresh(T('Str'), base + '_name'), 'what': I.fresh(T('Str'), base + '_what')},
                       fresh_obj=False)

    def construct(self, I, value=None, error=None, *, bins=None, name='', what=''):
        '''contract of Dataset.__init__ (dataset.py:736-785): type checks, same shape,
        bins per dimension with N or N+1 entries; stores value, error, a *shallow copy* of
        bins (OrderedDict.copy), name, what.'''
        L = self.world.lib
        if isinstance(value, (int, float)) or (isinstance(value, SV) and value.typ.kind in ('Num', 'Int')):
            value = L.scalar_arr(I, (value if isinstance(value, SV) else lift(value, NUM)).t, 'num')
        if isinstance(error, (int, float)) or (isinstance(error, SV) and error.typ.kind in ('Num', 'Int')):
            error = L.scalar_arr(I, (error if isinstance(error, SV) else lift(error, NUM)).t, 'num')
        if not isinstance(value, SArr) or not isinstance(error, SArr):
            I.raise_('TypeError')
        same = self.same_shape(I, value, error)
        if not I.decide(same):
            I.raise_('ValueError')
        if bins is not None:
            if not isinstance(bins, dict):
                I.raise_('TypeError')
            if bins:
                vshape = value.shape
                if isinstance(vshape, tuple):
                    if len(bins) != len(vshape):
                        I.raise_('ValueError')
                    for b, s in zip(bins.values(), vshape):
                        s = s if isinstance(s, SV) else lift(s)
                        ok = z3.Or(b.n == 0, b.n == s.t, b.n == s.t + 1)
                        if not I.path.cond(ok):
                            I.raise_('ValueError')
                else:
                    raise Undecided('Dataset() with bins on an array of unknown rank')
        return I.alloc('Dataset', {'value': value, 'error': error, 'bins': dict(bins) if bins is not None else {},
                                   'name': name, 'what': what})

    def same_shape(self, I, a, b):
        if a.scalar != b.scalar:
            return False
        if isinstance(a.shape, tuple) and isinstance(b.shape, tuple):
            if len(a.shape) != len(b.shape):
                return False
            parts = [I.truth(I.equal(x, y)) for x, y in zip(a.shape, b.shape)]
            if all(isinstance(p, bool) for p in parts):
                return all(parts)
            return z3.And(*[p if not isinstance(p, bool) else z3.BoolVal(p) for p in parts])
        if a.n is b.n:
            return True
        return a.n == b.n

    def p_shape(self, I, obj):
        return I.getattr(I.getfield(obj, 'value'), 'shape')

    def p_ndim(self, I, obj):
        return I.getattr(I.getfield(obj, 'value'), 'ndim')

    def p_size(self, I, obj):
        return I.getattr(I.getfield(obj, 'value'), 'size')


def make_world(ndim=None, bins_layout=None, scalar=False):
    w = World()
    w.float_div_raises = False
    w.globals['np'] = w.lib.np_namespace()
    w.globals['LOGGER'] = SNamespace('LOGGER', dropped=True)
    w.globals['Dataset'] = SClass('Dataset')
    w.globals['OrderedDict'] = SClass('OrderedDict')
    w.construct_hooks['OrderedDict'] = lambda I, args, kwargs: {}
    model = DatasetModel(w, ndim=ndim, bins_layout=bins_layout, scalar=scalar)
    w.class_models['Dataset'] = model
    w.construct_hooks['Dataset'] = lambda I, args, kwargs: model.construct(I, *args, **kwargs)
    for node in ast.parse(SPEC_DEFS).body:
        w.globals[node.name] = SFunc(node, None, node.name)
    return w
